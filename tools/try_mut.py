#!/venv/bin/python
"""Quick hand-made mutant: try_mut.py <relative file> <old text> <new text> <check[,check]> [tier]
applies the replacement in a scratch worktree of /repo HEAD and runs the checks with VERIF_REPO set."""
import os, shutil, subprocess, sys, tempfile
f, old, new, checks = sys.argv[1:5]
tier = sys.argv[5] if len(sys.argv) > 5 else 'quick'
os.makedirs('/tmp/ev', exist_ok=True)
wt = tempfile.mkdtemp(prefix='tm_', dir='/tmp/ev'); os.rmdir(wt)
subprocess.run(['git', '-C', '/repo', 'worktree', 'add', '-q', '--detach', wt, 'HEAD'], check=True)
try:
    p = os.path.join(wt, f)
    s = open(p).read()
    assert s.count(old) >= 1, 'old text not found'
    open(p, 'w').write(s.replace(old, new, 1))
    ev = tempfile.mkdtemp(prefix='evd_', dir='/tmp/ev')
    env = dict(os.environ, VERIF_REPO=wt, VERIF_EVIDENCE_DIR=ev, VERIF_REPLAY_DIR=ev + '/replay', OPENBLAS_NUM_THREADS='1')
    for c in checks.split(','):
        r = subprocess.run('cd /verif && /venv/bin/python ./check %s --tier %s' % (c, tier), shell=True, capture_output=True, text=True, env=env)
        lines = [l[:230] for l in r.stdout.splitlines() if l.startswith(('VIOLATION', '  part=', 'C'))]
        print(c, 'rc=%d' % r.returncode)
        for l in lines[:7]:
            print('   ', l)
    shutil.rmtree(ev, ignore_errors=True)
finally:
    subprocess.run(['git', '-C', '/repo', 'worktree', 'remove', '--force', wt])
    shutil.rmtree(wt, ignore_errors=True)
