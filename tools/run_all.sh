#!/bin/bash
# run_all.sh [quick|thorough] : every check against /repo (or $VERIF_REPO), one summary line each
tier=${1:-quick}
cd /verif
rc=0
for i in 01 02 03 04 05 06 07 08 09 10 11 12 13 14 15 16 17 18 19 20; do
  out=$(./check C$i --tier $tier 2>&1); r=$?
  echo "$out" | grep -E "^VIOLATION|^C$i $tier:" | cut -c1-240
  [ $r -ne 0 ] && { rc=1; echo "C$i EXIT $r"; }
done
exit $rc
