#!/venv/bin/python
"""Measure detection of every archived seeded change on /repo itself.
usage: seeded_direct.py [ids...] [--tier quick|thorough] [--baseline]
For each /verif/seeded/<id>: git -C /repo apply patch.diff; run ./check <prop>
(evidence/replay redirected to a scratch directory so the committed evidence is
not touched); git -C /repo checkout -- . straight afterwards.  Requires a clean
/repo working tree and nothing else using /repo.  Records the outcome in
meta.json under "detection_direct"."""
import json, os, shutil, subprocess, sys, tempfile, time
HERE = os.path.dirname(os.path.abspath(__file__)); VERIF = os.path.dirname(HERE)
args = sys.argv[1:]; tier = 'quick'; ids = []; base = False
i = 0
while i < len(args):
    if args[i] == '--tier': tier = args[i + 1]; i += 2
    elif args[i] == '--baseline': base = True; i += 1
    else: ids.append(args[i]); i += 1
if not ids:
    ids = sorted(d for d in os.listdir(os.path.join(VERIF, 'seeded'))
                 if os.path.isdir(os.path.join(VERIF, 'seeded', d)))
env = dict(os.environ, OPENBLAS_NUM_THREADS='1')
def sh(cmd, **kw):
    return subprocess.run(cmd, shell=True, capture_output=True, text=True, env=kw.pop('env', env), **kw)
r = sh('git -C /repo status --porcelain --untracked-files=no')
assert r.stdout.strip() == '', 'unclean /repo: ' + r.stdout
bad = 0
for mid in ids:
    d = os.path.join(VERIF, 'seeded', mid); meta = json.load(open(os.path.join(d, 'meta.json')))
    prop = meta['property']
    ev = tempfile.mkdtemp(prefix='sd_')
    res = {}
    try:
        r = sh('git -C /repo apply %s' % os.path.join(d, 'patch.diff'))
        assert r.returncode == 0, r.stderr
        t0 = time.time()
        e2 = dict(env, VERIF_EVIDENCE_DIR=ev, VERIF_REPLAY_DIR=os.path.join(ev, 'replay'))
        rc = sh('cd %s && ./check %s --tier %s' % (VERIF, prop, tier), env=e2)
        vl = [l for l in rc.stdout.splitlines() if l.startswith('VIOLATION')]
        res = {'tier': tier, 'rc': rc.returncode, 'violation_lines': len(vl), 'wall_s': round(time.time() - t0, 1),
               'caught': rc.returncode == 1 and len(vl) > 0}
        if base:
            rb = sh('/venv/bin/python %s/tools/baseline.py /repo' % VERIF)
            res['baseline_rc'] = rb.returncode; res['baseline'] = rb.stdout.strip()[-120:]
    finally:
        sh('git -C /repo checkout -- .')
        shutil.rmtree(ev, ignore_errors=True)
    meta.setdefault('detection_direct', {})['%s:%s' % (prop, tier)] = res
    json.dump(meta, open(os.path.join(d, 'meta.json'), 'w'), indent=1)
    print(mid, res, flush=True)
    if not res.get('caught'): bad += 1
r = sh('git -C /repo status --porcelain --untracked-files=no'); assert r.stdout.strip() == ''
print('not caught:', bad)
sys.exit(1 if bad else 0)
