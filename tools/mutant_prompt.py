#!/venv/bin/python
"""print the prompt given to an independent mutation author for property <id> (only the property text)"""
import json, sys
pid = sys.argv[1]
wt = sys.argv[2]
n = sys.argv[3] if len(sys.argv) > 3 else '2'
wave2 = len(sys.argv) > 4 and sys.argv[4] == 'wave2'
wave3 = len(sys.argv) > 4 and sys.argv[4] == 'wave3'
wave4 = len(sys.argv) > 4 and sys.argv[4] == 'wave4'
for l in open('/verif/properties.jsonl'):
    p = json.loads(l)
    if p['id'] == pid:
        break
print(f"""You are helping to evaluate a verification effort for DASSH, a Python steady-state subchannel thermal-hydraulics solver for wire-wrapped hexagonal fast-reactor assemblies (it marches axially with an explicit energy balance and inter-assembly gap heat transfer). You have your own scratch git worktree of the repository at {wt} (work ONLY there; never touch /repo or /verif; do not read anything under /verif).

A semantic property the code is supposed to satisfy:

TITLE: {p['title']}
STATEMENT: {p['statement']}
IT MUST HOLD FOR: {p['quantifier']['text']}

Your job: produce {n} DIFFERENT, realistic changes to the dassh source (each a small patch a careless-but-plausible developer could make: an index/offset slip, a wrong constant or wetted length, a condition that is slightly off, a lost copy so state becomes shared, an update applied in the wrong order, a stale cached value, two sites that each look fine alone ...) such that each change
  (1) BREAKS the property above,
  (2) still imports and runs, and the repository's existing test-suite result is unchanged: run `cd {wt} && OPENBLAS_NUM_THREADS=1 /venv/bin/python -m pytest -q -p no:cacheprovider --timeout=900 -x -q 2>&1 | tail -5` before and after (run from the worktree root so that the worktree's own `dassh` package is imported; many tests fail for missing data files in this sandbox both before and after - what matters is that the set of passing tests does not shrink: compare `... -q -rA 2>&1 | grep -c PASSED` or the summary line),
  (3) needs something SPECIFIC to manifest - a particular geometry (e.g. only with two ducts / only at a region change / only at low flow / only for unequal neighbouring meshes / only when a boundary falls inside a cell), a particular multi-step sequence, an unusual but valid input, or a particular order of operations - NOT something that every ordinary run would expose at once (e.g. do not simply zero a term).
For each change also write a small demonstration program `demo.py` (plain Python, runnable as `cd {wt} && /venv/bin/python <path>/demo.py`, exit code 0 = property holds, 1 = property violated, printing what it measured) that FAILS with the change applied and PASSES on the unchanged worktree. Build inputs programmatically (write an input file + a user power CSV into a temp dir and use `dassh.DASSH_Input(path)` / `dassh.Reactor(inp)` / `reactor.temperature_sweep()`, or construct `dassh.RoddedRegion`, `dassh.Core`, etc. directly; look at the tests/ directory for usage patterns; constant-property materials `sodium_se2anl_425` and `ht9_se2anl_425` exist; a user power CSV has rows `asm_id,component(1 pins/2 duct/3 coolant),z_lo,z_hi,item_index,coeff0[,coeff1,...]` in W/m with z in m; the assignment line looks like `name = ring, pos, pos, FLOWRATE=1.0`; no network, no scipy).

Deliver, under {wt}/_mutants/<k>/ for k = 1..{n}: `patch.diff` (output of `git -C {wt} diff` with ONLY that change applied to the source under dassh/, no test files), `demo.py`, and `notes.md` (which lines changed and why it breaks the property, what specific condition is needed for it to manifest, the test-suite summary line before and after, the demo output with and without the change). Before finishing, leave the worktree source UNMODIFIED (git -C {wt} checkout -- dassh) so only the _mutants directory remains. Do not commit. Reply with a short summary of each mutant.""" + ("""

Diversity: make the changes differ from one another in MECHANISM and FILE (not three index slips in one function). Look beyond the most obvious function for this property: set-up time code (reader, Reactor/Core/Assembly construction, clone/copy logic, caches and memoised values, unit handling), rarely used but valid options and geometries, multi-assembly / multi-region / multi-time-point interactions, and state carried from one step or one call to the next.""" if wave2 else '') + ("""

Make the three changes of three different KINDS: (1) a numeric / geometric / indexing slip inside the core computation this property is about, one that only shows for an unusual but valid geometry or regime (extreme ring count, very different wall or gap thicknesses, bare rods, a flow regime boundary, a cell type that rarely limits, the last/first cell or step, a region or power-cell boundary falling at an awkward place); (2) a state / ordering / caching / copy problem that needs two or more assemblies, regions, time points, calls or runs in a particular order to show; (3) a problem at the edges of the calculation: the input reader, unit conversion, defaults and rarely used options, or the way results are collected, stored and written out (csv / dassh.out tables) - anything through which a user relies on the property without looking at internal arrays. Prefer places that the other two changes do not touch.""" if wave3 else '') + ("""

Make the three changes of three different KINDS: (1) a comparison / threshold / boundary slip (`>` for `>=`, an off-by-one at a regime or region or cell boundary, a tolerance that is absolute where it must be relative, a sign or a factor of two) that shows only when a value lands exactly on, or within round-off of, a boundary or for one branch of a piecewise formula; (2) an interaction of TWO features that are each tested alone (e.g. double duct + low-fidelity region, spacer grid + gravity, unit system + orificing, several time points + tables, bypass gap + pin model, empty core positions + anything indexed by position): a change that is invisible unless both are used together; (3) a silent fallback: a branch for unusual input that quietly substitutes a default, skips a step, truncates, or catches an exception and carries on, so that the run finishes without any message but the property no longer holds - including what ends up in the written output files (the csv dumps temp_*.csv / pressure_drop.csv, the per-assembly tables requested with AssemblyTables, dassh.out). Prefer files and functions that look peripheral; avoid re-doing the most obvious slip in the most central function.""" if wave4 else ''))
