#!/venv/bin/python
"""Evaluate one seeded change.
usage: seeded_eval.py <mutant_dir> <PROP> [--checks C01,C02] [--tier quick|thorough] [--no-baseline]
  mutant_dir holds patch.diff and demo.py.
Steps (all in a scratch worktree of /repo HEAD under /tmp/ev, removed afterwards):
  1. demo.py on the unchanged tree (must exit 0) and with the patch (must exit != 0)
  2. the 143-test baseline with the patch (must all pass)
  3. the registered check(s) with VERIF_REPO=<scratch worktree>; evidence/replay redirected
Prints a JSON summary."""
import json, os, shutil, subprocess, sys, tempfile, time
args = sys.argv[1:]
mdir = os.path.abspath(args[0]); prop = args[1]
checks = [prop]; tier = 'quick'; do_base = True
i = 2
while i < len(args):
    if args[i] == '--checks': checks = args[i + 1].split(','); i += 2
    elif args[i] == '--tier': tier = args[i + 1]; i += 2
    elif args[i] == '--no-baseline': do_base = False; i += 1
    else: i += 1
os.makedirs('/tmp/ev', exist_ok=True)
wt = tempfile.mkdtemp(prefix='ev_', dir='/tmp/ev'); os.rmdir(wt)
env = dict(os.environ, OPENBLAS_NUM_THREADS='1')
def sh(cmd, **kw):
    return subprocess.run(cmd, shell=True, capture_output=True, text=True, env=kw.pop('env', env), **kw)
out = {'mutant': mdir, 'property': prop}
try:
    r = sh('git -C /repo worktree add -q --detach %s HEAD' % wt); assert r.returncode == 0, r.stderr
    # run the demonstration from inside the scratch worktree (same relative place as in the author's
    # worktree), so that demos locating the package relative to their own file import the scratch tree
    ddir = os.path.join(wt, '_mutants', os.path.basename(mdir.rstrip('/')))
    shutil.copytree(mdir, ddir)
    demo = os.path.join(ddir, 'demo.py')
    r0 = sh('cd %s && timeout 900 /venv/bin/python %s' % (wt, demo))
    out['demo_clean_rc'] = r0.returncode; out['demo_clean_tail'] = (r0.stdout + r0.stderr)[-400:]
    r = sh('git -C %s apply %s' % (wt, os.path.join(mdir, 'patch.diff')))
    out['apply_rc'] = r.returncode; out['apply_err'] = r.stderr[-300:]
    if r.returncode == 0:
        r1 = sh('cd %s && timeout 900 /venv/bin/python %s' % (wt, demo))
        out['demo_mut_rc'] = r1.returncode; out['demo_mut_tail'] = (r1.stdout + r1.stderr)[-400:]
        if do_base:
            rb = sh('/venv/bin/python /verif/tools/baseline.py %s' % wt)
            out['baseline_rc'] = rb.returncode; out['baseline'] = rb.stdout.strip()[-300:]
        ev = tempfile.mkdtemp(prefix='evd_', dir='/tmp/ev')
        out['checks'] = {}
        for c in checks:
            t0 = time.time()
            e2 = dict(env, VERIF_REPO=wt, VERIF_EVIDENCE_DIR=ev, VERIF_REPLAY_DIR=os.path.join(ev, 'replay'))
            rc = sh('cd /verif && /venv/bin/python ./check %s --tier %s' % (c, tier), env=e2)
            lines = [l for l in rc.stdout.splitlines() if l.startswith('VIOLATION') or l.startswith('  part=')]
            out['checks'][c] = {'rc': rc.returncode, 'wall_s': round(time.time() - t0, 1), 'tier': tier,
                                'violation_lines': lines[:8], 'summary': rc.stdout.strip().splitlines()[-1][:300] if rc.stdout.strip() else rc.stderr[-300:]}
        shutil.rmtree(ev, ignore_errors=True)
finally:
    sh('git -C /repo worktree remove --force %s' % wt)
    shutil.rmtree(wt, ignore_errors=True)
print(json.dumps(out, indent=1))
