#!/bin/bash
# wave2_eval.sh c02 c17 ... : evaluate + archive /tmp/wt2/<c>/_mutants/{1,2,3} as <C>-m{4,5,6}
for c in "$@"; do C=$(echo $c | tr c C); for k in 1 2 3; do
  /verif/tools/seeded_save.py /tmp/wt2/$c/_mutants/$k $C $C-m$((k+3)) 2>&1 | grep -v conda | head -12
done; done
