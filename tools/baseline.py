#!/venv/bin/python
"""Run the repository's pinned baseline (guard off) and compare with
/root/.vp/BASELINE.json: every stable_pass test must still pass.
usage: baseline.py [repo_dir]   exit 0 = all 143 pass"""
import json, os, subprocess, sys, tempfile
import xml.etree.ElementTree as ET
repo = sys.argv[1] if len(sys.argv) > 1 else '/repo'
base = json.load(open('/root/.vp/BASELINE.json'))
want = set(base['stable_pass'])
env = dict(os.environ)
env.pop('DASSH_VERIF', None)
env['OPENBLAS_NUM_THREADS'] = '1'
with tempfile.TemporaryDirectory() as d:
    x = os.path.join(d, 'j.xml')
    cmd = ['/venv/bin/python', '-m', 'pytest', '-q', '-p', 'no:cacheprovider',
           '--timeout=900', '--continue-on-collection-errors', '--junitxml=' + x]
    if '-n' in sys.argv:
        cmd += ['-n', '8']
    subprocess.run(cmd, cwd=repo, env=env, stdout=subprocess.DEVNULL, stderr=subprocess.DEVNULL)
    ok = set()
    for tc in ET.parse(x).getroot().iter('testcase'):
        if not any(ch.tag in ('failure', 'error', 'skipped') for ch in tc):
            ok.add(tc.get('classname') + '::' + tc.get('name'))
missing = sorted(want - ok)
print('baseline: %d/%d stable tests pass; %d tests pass in total' % (len(want & ok), len(want), len(ok)))
for m in missing:
    print('  NOT PASSING:', m)
sys.exit(1 if missing else 0)
