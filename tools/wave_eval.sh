#!/bin/bash
# wave_eval.sh <root> <offset> c02 c17 ... : evaluate + archive <root>/<c>/_mutants/{1,2,3} as <C>-m{1+offset,..}
root=$1; off=$2; shift 2
for c in "$@"; do C=$(echo $c | tr c C); for k in 1 2 3; do
  /verif/tools/seeded_save.py $root/$c/_mutants/$k $C $C-m$((k+off)) 2>&1 | grep -v conda | head -12
done; done
