#!/venv/bin/python
"""Regenerate MANIFEST.json from the table below (keeps it schema-valid)."""
import json, os
HERE = os.path.dirname(os.path.dirname(os.path.abspath(__file__)))
props = [json.loads(l) for l in open(os.path.join(HERE, 'properties.jsonl'))]
ids = [p['id'] for p in props]
sys_path = os.path.join(HERE, 'tools', 'claims.json')
claims = json.load(open(sys_path))
checks = []
for pid in ids:
    if pid not in claims['claimed']:
        continue
    c = claims['claimed'][pid]
    checks.append({
        'property_id': pid,
        'quick_cmd': '/venv/bin/python /verif/check %s --tier quick' % pid,
        'thorough_cmd': '/venv/bin/python /verif/check %s --tier thorough' % pid,
        'evidence_file': '/verif/evidence/%s.json' % pid,
        'replay_cmd_template': '/venv/bin/python /verif/check %s --replay {path}' % pid,
        'engine': 'vf-explorer',
        'level_claimed': {'category': 'model_checking', 'text': c['text'],
                          'design_ref': c.get('design_ref', 'DESIGN.md section 3 ' + pid)},
        'level_note': c['note'],
        'technique': c['technique'],
    })
na = [{'property_id': pid, 'reason': claims['not_applicable'].get(
        pid, 'check not built yet in this session (planned: DESIGN.md section 3)')}
      for pid in ids if pid not in claims['claimed']]
m = {
    'version': 1,
    'setup_cmd': '/venv/bin/python /verif/tools/selftest.py',
    'hooks': {'guard': 'DASSH_VERIF', 'enable': 'none needed: checks import /repo working tree directly (PYTHONPATH=/repo); no guarded hooks exist',
              'baseline_off_cmd': '/venv/bin/python /verif/tools/baseline.py /repo',
              'source_commits': [], 'add_only': True},
    'engines': [{'name': 'vf-explorer', 'path': '/verif/vf',
                 'serves_properties': sorted(claims['claimed']),
                 'kind_free_text': 'hand-written explicit-state / bounded-exhaustive explorer driving the real dassh objects (Python); no sampling'}],
    'checks': checks,
    'not_applicable': na,
    'notes': claims.get('notes', ''),
}
json.dump(m, open(os.path.join(HERE, 'MANIFEST.json'), 'w'), indent=1)
print('MANIFEST.json: %d checks, %d not claimed' % (len(checks), len(na)))
