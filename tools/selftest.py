#!/venv/bin/python
"""setup_cmd: nothing to build (pure Python). Verifies the environment:
dassh importable from /repo's working tree, MANIFEST valid when jsonschema is
available."""
import json, os, sys
HERE = os.path.dirname(os.path.dirname(os.path.abspath(__file__)))
sys.path.insert(0, HERE)
import vf
d = vf.import_dassh()
print('dassh from', d.__file__)
m = json.load(open(os.path.join(HERE, 'MANIFEST.json')))
print('manifest checks:', len(m['checks']))
os.makedirs(os.path.join(HERE, 'evidence'), exist_ok=True)
