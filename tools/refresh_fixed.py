#!/venv/bin/python
"""Keep known_findings.json 'fixed' entries pointing at the right /repo commits
(hashes change when fix commits are rebased). Each fixed entry carries the
commit subject; the hash is looked up from `git -C /repo log`."""
import json, os, re, subprocess
HERE = os.path.dirname(os.path.dirname(os.path.abspath(__file__)))
p = os.path.join(HERE, 'known_findings.json')
d = json.load(open(p))
log = subprocess.run(['git', '-C', '/repo', 'log', '--format=%h\t%s'], capture_output=True, text=True).stdout.splitlines()
by_hash = {l.split('\t')[0]: l.split('\t')[1] for l in log}
by_subj = {v: k for k, v in by_hash.items()}
for f in d['findings']:
    if f.get('kind') != 'fixed':
        continue
    if 'subject' not in f:
        if f['commit'] in by_hash:
            f['subject'] = by_hash[f['commit']]
        else:
            print('NEED SUBJECT for', f['id'], f['commit'])
            continue
    new = by_subj.get(f['subject'])
    if new is None:
        print('subject not found in /repo log:', f['id'], f['subject'])
        continue
    if new != f['commit']:
        f['what'] = f['what'].replace(f['commit'], new)
        f['commit'] = new
json.dump(d, open(p, 'w'), indent=1)
print('ok')
