#!/venv/bin/python
"""Regenerate /verif/seeded/README.md (table: seeded change -> detecting check)
from the meta.json files written by tools/seeded_save.py."""
import glob
import json
import os
import re

HERE = os.path.dirname(os.path.abspath(__file__))
VERIF = os.path.dirname(HERE)

# Changes the first version of the check missed; the check was strengthened
# afterwards (what was added is described in DESIGN.md 11.4).
STRENGTHENED = {
    'C01-m1', 'C03-m1', 'C03-m2', 'C04-m3', 'C05-m2', 'C06-m1', 'C06-m2',
    'C06-m3', 'C07-m3', 'C08-m2', 'C12-m1', 'C13-m1', 'C14-m1', 'C16-m2',
    'C16-m3', 'C17-m1', 'C18-m1', 'C18-m2', 'C18-m3', 'C19-m1', 'C20-m2',
    'C20-m3',
    # wave 2
    'C01-m5', 'C02-m6', 'C04-m4', 'C04-m5', 'C04-m6', 'C05-m5', 'C05-m6', 'C07-m4', 'C07-m6', 'C08-m5', 'C08-m6',
    'C09-m5', 'C09-m6', 'C11-m6', 'C12-m5', 'C12-m6', 'C13-m5', 'C13-m6', 'C16-m6', 'C18-m4', 'C18-m6', 'C19-m6',
    'C20-m5', 'C20-m6', 'C20-m7',
    # wave 3
    'C01-m9', 'C04-m10', 'C05-m9', 'C07-m10', 'C08-m10', 'C09-m9', 'C10-m10', 'C11-m10', 'C12-m10', 'C14-m10',
    'C15-m10', 'C16-m10', 'C17-m10', 'C18-m10', 'C20-m8', 'C20-m10',
    # wave 4
    'C01-m11', 'C01-m13', 'C02-m11', 'C02-m13', 'C03-m11', 'C03-m12', 'C04-m11', 'C04-m13', 'C05-m12', 'C06-m11',
    'C08-m12', 'C09-m13', 'C11-m13', 'C12-m13', 'C15-m11', 'C17-m13', 'C18-m12',
    # wave 5 (C14-m15 and C18-m14: strengthened from the author's report before the first evaluation)
    'C01-m15', 'C02-m16', 'C04-m14', 'C04-m16', 'C05-m16', 'C07-m16', 'C08-m15', 'C14-m14', 'C14-m15', 'C16-m15',
    'C18-m14',
    # wave 6 (C16-m18 and C11-m19: strengthened from the authors' reports before the first evaluation)
    'C01-m18', 'C02-m18', 'C02-m19', 'C03-m18', 'C04-m18', 'C04-m19', 'C05-m19', 'C08-m18', 'C09-m18', 'C11-m17', 'C11-m18',
    'C11-m19', 'C12-m17', 'C12-m18', 'C12-m19', 'C13-m18', 'C14-m18', 'C16-m18', 'C18-m18', 'C19-m19', 'C20-m18',
    # wave 7 (C05-m20, C05-m21, C14-m21: strengthened from the authors' reports before the first evaluation)
    'C02-m22', 'C05-m20', 'C05-m21', 'C05-m22', 'C06-m22', 'C07-m21', 'C07-m22', 'C09-m20', 'C09-m22', 'C10-m21',
    'C11-m22', 'C14-m21', 'C17-m20', 'C18-m22', 'C20-m20', 'C20-m21',
    # wave 8 (C05-m24: strengthened from the author's report before the first evaluation)
    'C01-m24', 'C04-m25', 'C05-m24', 'C06-m25', 'C11-m23', 'C16-m25', 'C18-m25', 'C20-m23', 'C20-m25',
    # wave 9 (C16-m27: strengthened from the author's report before the first evaluation)
    'C03-m26', 'C03-m27', 'C03-m28', 'C04-m26', 'C08-m26', 'C08-m27', 'C09-m26', 'C10-m26', 'C13-m26', 'C14-m28',
    'C15-m26', 'C16-m27', 'C17-m27', 'C18-m27', 'C20-m26', 'C20-m27',
    # wave 10
    'C01-m30', 'C02-m29', 'C07-m30', 'C12-m29', 'C16-m30'}


def title(notes):
    for line in notes.splitlines():
        if line.startswith('#'):
            t = line.lstrip('# ').strip()
            t = re.sub(r'^(C\d\d\s+)?[Mm]utant\s*\d+\s*[-:–—]*\s*',
                       '', t)
            return t
    return ''


def main():
    rows = []
    for p in sorted(glob.glob(os.path.join(VERIF, 'seeded', '*', 'meta.json'))):
        m = json.load(open(p))
        d = os.path.dirname(p)
        notes = open(os.path.join(d, 'notes.md')).read() \
            if os.path.exists(os.path.join(d, 'notes.md')) \
            else m.get('needs_to_manifest', '')
        det = m.get('detection', {})
        caught = []
        for k, v in sorted(det.items()):
            if v.get('caught'):
                fv = v.get('first_violation') or ''
                mm = re.search(r'part=(\S+) kind=(\S+)', fv)
                caught.append('%s (%s/%s)' % (
                    k, mm.group(1), mm.group(2)) if mm else k)
        rows.append((m['id'], m['property'], title(notes),
                     '; '.join(caught) or 'NOT CAUGHT',
                     'yes' if m['id'] in STRENGTHENED else ''))
    out = ['# Seeded property-breaking changes',
           '',
           'Each directory holds `patch.diff` (the change), `demo.py` (fails '
           'with the change, passes without), `notes.md` (the author\'s '
           'description and what the change needs to manifest) and '
           '`meta.json` (what was run and which check reported it).  All '
           'changes were written by sub-agents that saw only the property '
           'text and a scratch worktree; each passes the pinned 143-test '
           'baseline.  Regenerate with `tools/seeded_table.py`.',
           '',
           '| id | change | reported by (part/kind of first violation) | '
           'check strengthened first |',
           '|---|---|---|---|']
    for r in rows:
        out.append('| %s | %s | %s | %s |' % (
            r[0], r[2].replace('|', '/'), r[3].replace('|', '/'), r[4]))
    n_c = sum(1 for r in rows if r[3] != 'NOT CAUGHT')
    n_own = sum(1 for r in rows if any(x.strip().startswith(r[1] + ':') for x in r[3].split(';')))
    out += ['', '%d changes, %d reported by the check of their own property, %d by the check of a '
            'neighbouring property only, %d by none.' % (len(rows), n_own, n_c - n_own, len(rows) - n_c), '']
    with open(os.path.join(VERIF, 'seeded', 'README.md'), 'w') as f:
        f.write('\n'.join(out))
    print('%d rows, %d caught' % (len(rows), n_c))


if __name__ == '__main__':
    main()
