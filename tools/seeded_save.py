#!/venv/bin/python
"""seeded_save.py <mutant_dir> <PROP> <id> [--checks ...] [--tier ...] : evaluate (seeded_eval) and archive under /verif/seeded/<id>/"""
import json, os, shutil, subprocess, sys
mdir, prop, sid = sys.argv[1:4]
rest = sys.argv[4:]
r = subprocess.run(['/venv/bin/python', '/verif/tools/seeded_eval.py', mdir, prop] + rest, capture_output=True, text=True)
out = json.loads(r.stdout[r.stdout.index('{'):])
ok = out.get('demo_clean_rc') == 0 and out.get('demo_mut_rc') not in (0, None) and out.get('baseline_rc', 0) == 0 and out.get('apply_rc') == 0
dst = os.path.join('/verif/seeded', sid)
caught = {c: (v['rc'] != 0) for c, v in out.get('checks', {}).items()}
print(sid, 'confirmed' if ok else 'NOT CONFIRMED', 'caught_by', caught)
if not ok:
    print(json.dumps({k: out.get(k) for k in ('demo_clean_rc', 'demo_mut_rc', 'baseline', 'apply_err', 'demo_clean_tail', 'demo_mut_tail')}, indent=1))
    sys.exit(1)
os.makedirs(dst, exist_ok=True)
import glob as _glob
extra = [os.path.basename(x) for x in _glob.glob(os.path.join(mdir, '*.py')) if os.path.basename(x) != 'demo.py']
for f in ('patch.diff', 'demo.py', 'notes.md') + tuple(extra):   # helper modules a demo imports travel with it
    if os.path.exists(os.path.join(mdir, f)) and os.path.realpath(mdir) != os.path.realpath(dst):
        shutil.copy(os.path.join(mdir, f), os.path.join(dst, f))
notes = open(os.path.join(mdir, 'notes.md')).read() if os.path.exists(os.path.join(mdir, 'notes.md')) else ''
meta_p = os.path.join(dst, 'meta.json')
meta = json.load(open(meta_p)) if os.path.exists(meta_p) else {}
meta.update({
    'id': sid, 'property': prop, 'author': 'independent sub-agent (given only the property text and a scratch worktree)',
    'needs_to_manifest': meta.get('needs_to_manifest') or notes[:1500],
    'confirmed': {'demo_exit_unchanged_tree': out['demo_clean_rc'], 'demo_exit_with_change': out['demo_mut_rc'],
                  'baseline_with_change': out.get('baseline') or (meta.get('confirmed') or {}).get('baseline_with_change'), 'demo_output_with_change': out.get('demo_mut_tail', '')[-300:]},
    'what_was_run': ['tools/seeded_eval.py: scratch worktree of /repo HEAD, demo.py without and with patch.diff, tools/baseline.py with the patch, '
                     './check <id> with VERIF_REPO=<scratch worktree> (evidence/replay redirected)'],
})
det = meta.setdefault('detection', {})
for c, v in out.get('checks', {}).items():
    det['%s:%s' % (c, v['tier'])] = {'caught': v['rc'] != 0, 'wall_s': v['wall_s'], 'first_violation': (v['violation_lines'][1].strip() if len(v['violation_lines']) > 1 else None)}
json.dump(meta, open(meta_p, 'w'), indent=1)
