"""Scenario algebra: JSON-serialisable scenario dict -> DASSH input text (+ user
power CSV) in a private temporary directory -> DASSH_Input -> Reactor.

Scenario layout (all SI unless 'units' is given):
  {'setup': {...}, 'units': {...}|None, 'materials': {...}|None,
   'core': {'inlet','coolant','length','pitch','gap_model','bypass_fraction',...},
   'types': {name: design-dict}, 'assign': [[name, ring, pos, {'flowrate':x}], ...],
   'power': {'total':None|x, 'scaling':1.0, 'asm': {"1": powerspec, ...}}}
ring/pos are base-1 as in the input file; assembly ids in 'power.asm' are the
DASSH ids (base-1, spiral order).
"""
import math
import os
import shutil
import tempfile

import numpy as np

SQ3 = math.sqrt(3.0)


# ----------------------------------------------------------------------
# bundle designs
def design(rings, pd=1.20, hd=30.0, ducts=1, oftf=0.060, duct_t=0.0025,
           byp_t=0.003, clearance='tight', wire=True, wire_dir=None,
           corr=None, lowfi=None, clad_frac=0.08, extra=None, regions=None,
           bypass_fraction=None, spacer=None, duct_mat='ht9_se2anl_425',
           pinmodel=None, fuelmodel=None, hotspot=None, shape_factor=None,
           htc_params_duct=None, dummy=None):
    """Derive a consistent pin bundle that fits the given outer flat-to-flat.
    ducts: number of concentric ducts (1..3)."""
    ftf = []
    o = oftf
    # wall / bypass thickness may be given per duct, listed from the inside out
    ts = list(duct_t) if isinstance(duct_t, (list, tuple)) else [duct_t] * ducts
    bs = list(byp_t) if isinstance(byp_t, (list, tuple)) else [byp_t] * max(ducts - 1, 1)
    for d in range(ducts):
        t = ts[ducts - 1 - d]
        ftf = [o - 2 * t, o] + ftf
        if d < ducts - 1:
            o = o - 2 * t - 2 * bs[ducts - 2 - d]
    iftf = ftf[0]
    # wire diameter as share of pin gap (True: 0.95; a number: that share)
    wfrac = (0.95 if wire else 0.0) if isinstance(wire, bool) else float(wire)
    # edge clearance as a share of the pin pitch (a number is taken as it is)
    clr = {'tight': 0.0, 'loose': 0.35, 'mid': 0.12}[clearance] if isinstance(clearance, str) else float(clearance)
    # iftf = sqrt3 (n-1) pd D + D + 2 wfrac (pd-1) D + clr*pd*D + 1e-5
    denom = SQ3 * (rings - 1) * pd + 1 + 2 * wfrac * (pd - 1) + clr * pd
    D = (iftf - 2e-5) / denom
    P = pd * D
    Dw = wfrac * (P - D)
    d = {'num_rings': rings,
         'pin_pitch': round(P, 9),
         'pin_diameter': round(D, 9),
         'clad_thickness': round(clad_frac * D, 9),
         'wire_pitch': round(hd * D, 9) if wire else 0.0,
         'wire_diameter': round(Dw, 9),
         'duct_ftf': [round(x, 9) for x in ftf],
         'duct_material': duct_mat}
    if wire_dir:
        d['wire_direction'] = wire_dir
    if corr:
        for k, v in zip(('corr_friction', 'corr_flowsplit', 'corr_mixing'), corr):
            if v is not None:
                d[k] = v
    if bypass_fraction is not None:
        d['bypass_gap_flow_fraction'] = bypass_fraction
    if shape_factor is not None:
        d['shape_factor'] = shape_factor
    if htc_params_duct is not None:
        d['htc_params_duct'] = htc_params_duct
    if dummy is not None:
        d['dummy_pin'] = dummy
    if lowfi:
        d['use_low_fidelity_model'] = True
        d['low_fidelity_model'] = lowfi.get('model', 'simple')
        if 'convection_factor' in lowfi:
            d['convection_factor'] = lowfi['convection_factor']
    if extra:
        d.update(extra)
    if regions:
        d['AxialRegion'] = regions
    if spacer:
        d['SpacerGrid'] = spacer
    if pinmodel:
        d['PinModel'] = pinmodel
    if fuelmodel:
        d['FuelModel'] = fuelmodel
    if hotspot:
        d['Hotspot'] = hotspot
    return d


def n_pins(rings):
    return 3 * rings * (rings - 1) + 1


def n_cool(rings):
    """interior, edge, corner subchannel counts"""
    if rings == 1:
        return 0, 0, 6
    return 6 * (rings - 1) ** 2, 6 * (rings - 1), 6


def n_duct_cells(rings):
    return 6 * (rings - 1) + 6 if rings > 1 else 6


# ----------------------------------------------------------------------
# input text
def _fmt(v):
    if isinstance(v, bool):
        return 'True' if v else 'False'
    if isinstance(v, float):
        return repr(v)
    if isinstance(v, (list, tuple)):
        s = ', '.join(_fmt(x) for x in v)
        if len(v) == 1:
            s += ','
        return s
    return str(v)


def _section(d, depth, out):
    ind = '    ' * depth
    scalars = [(k, v) for k, v in d.items() if not isinstance(v, dict)]
    subs = [(k, v) for k, v in d.items() if isinstance(v, dict)]
    for k, v in scalars:
        if v is None:
            continue
        out.append('%s%s = %s' % (ind, k, _fmt(v)))
    for k, v in subs:
        out.append('%s%s%s%s' % (ind, '[' * (depth + 1), k, ']' * (depth + 1)))
        _section(v, depth + 1, out)


def input_text(scn, power_files=None):
    out = []
    setup = dict(scn.get('setup') or {})
    if scn.get('units'):
        setup['Units'] = scn['units']
    out.append('[Setup]')
    _section(setup, 1, out)
    if scn.get('materials'):
        out.append('[Materials]')
        _section(scn['materials'], 1, out)
    out.append('[Power]')
    pw = scn.get('power') or {}
    p = {}
    if power_files:
        p['user_power'] = ', '.join(power_files)
    if pw.get('total') is not None:
        p['total_power'] = pw['total']
    if pw.get('scaling') is not None:
        p['power_scaling_factor'] = pw['scaling']
    if pw.get('ARC'):
        p['ARC'] = pw['ARC']
    _section(p, 1, out)
    out.append('[Core]')
    c = scn['core']
    core = {'coolant_inlet_temp': c.get('inlet', 623.15),
            'coolant_material': c.get('coolant', 'sodium_se2anl_425'),
            'length': c['length'],
            'assembly_pitch': c['pitch'],
            'gap_model': c.get('gap_model', 'none'),
            'bypass_fraction': c.get('bypass_fraction', 0.0)}
    for k in ('htc_params_duct',):
        if c.get(k) is not None:
            core[k] = c[k]
    for k, v in (c.get('extra') or {}).items():
        core[k] = v
    _section(core, 1, out)
    out.append('[Assembly]')
    _section(scn['types'], 1, out)
    out.append('[Assignment]')
    out.append('    [[ByPosition]]')
    for a in scn['assign']:
        name, ring, pos, bc = a[0], a[1], a[2], a[3]
        pos2 = a[4] if len(a) > 4 else pos
        bcs = ', '.join('%s=%s' % (k.upper(), _fmt(v)) for k, v in bc.items())
        out.append('        %s = %d, %d, %d, %s' % (name, ring, pos, pos2, bcs))
    if scn.get('orificing'):
        out.append('[Orificing]')
        _section(scn['orificing'], 1, out)
    if scn.get('raw_tail'):
        out.append(scn['raw_tail'])
    return '\n'.join(out) + '\n'


# ----------------------------------------------------------------------
# power
def asm_id(ring, pos):
    """DASSH assembly id (base-0) from base-1 ring / position"""
    if ring == 1:
        return 0
    r = ring - 1
    return 3 * (r - 1) * r + (pos - 1) + 1


def power_rows(aid, spec, ncomp, zunit=1.0):
    """spec: {'cells': [z0, z1, ...] (m), 'pins': [[coeffs per cell] per pin] or
    shape description; see expand_power.  returns CSV lines."""
    rows = []
    cells = spec['cells']
    for comp, key in ((1, 'pins'), (2, 'duct'), (3, 'cool')):
        arr = spec.get(key)
        if arr is None:
            continue
        # arr[cell][item] = list of coeffs (W/m)
        for k in range(len(cells) - 1):
            for i, co in enumerate(arr[k]):
                rows.append(','.join(
                    [str(aid), str(comp), repr(cells[k] * zunit),
                     repr(cells[k + 1] * zunit), str(i + 1)]
                    + [repr(float(x)) for x in co]))
    return rows


def radial_weights(n, kind, seed=0):
    """deterministic radial shapes over n items, mean 1."""
    i = np.arange(n)
    if kind == 'uniform':
        w = np.ones(n)
    elif kind == 'tilt':
        w = 1.0 + 0.5 * (i - (n - 1) / 2.0) / max(1.0, (n - 1) / 2.0)
    elif kind == 'asym':
        # fixed pseudo-irregular, no symmetry; four vetted fillers by seed
        a = [0.6180339887, 0.4142135623, 0.7320508075, 0.2360679775][seed % 4]
        w = 0.4 + 1.2 * np.modf((i + 1) * a + 0.137 * seed)[0]
    elif kind == 'zero':
        return np.zeros(n)
    else:
        raise ValueError(kind)
    return w / np.mean(w)


AXIAL = {
    # polynomial coefficient lists in z_mod in [-0.5, 0.5]; all >= 0 there
    'flat': [1.0],
    'up': [1.0, 0.8],
    'down': [1.0, -0.8],
    'mid': [1.2, 0.0, -2.4],
    'ends': [0.8, 0.0, 2.4],
    'cubic': [1.0, 0.3, -1.2, 1.5],
    # from 2 % to 198 % of the cell average across the cell
    'steep': [1.0, 1.96],
}


def expand_power(spec, rings, nduct=1):
    """Turn a compact power spec into per-cell per-item coefficient arrays.
    spec = {'cells':[...], 'q': linear power scale W/m per pin,
            'pins': radial kind|None, 'duct': kind|None, 'cool': kind|None,
            'axial': [shape name per cell], 'seed': int,
            'fr': {'pins':1,'duct':0.02,'cool':0.01}}"""
    out = {'cells': spec['cells']}
    ncell = len(spec['cells']) - 1
    ax = spec.get('axial') or ['flat'] * ncell
    amp = spec.get('amp') or [1.0] * ncell
    npin = n_pins(rings)
    ni, ne, nc = n_cool(rings)
    counts = {'pins': npin, 'duct': n_duct_cells(rings) * nduct,
              'cool': ni + ne + nc}
    fr = {'pins': 1.0, 'duct': 0.03, 'cool': 0.02}
    fr.update(spec.get('fr') or {})
    for j, key in enumerate(('pins', 'duct', 'cool')):
        kind = spec.get(key)
        if kind is None:
            continue
        w = radial_weights(counts[key], kind, spec.get('seed', 0) + j)
        cells = []
        for k in range(ncell):
            co = np.array(AXIAL[ax[k]]) * (spec.get('amp_' + key) or amp)[k]
            order = spec.get('order')
            if order is None:
                order = max(len(AXIAL[a]) for a in ax) - 1
            co = np.concatenate([co, np.zeros(10)])[:order + 1]
            scale = spec.get('q', 1000.0) * fr[key] * npin / counts[key] \
                if key != 'pins' else spec.get('q', 1000.0)
            cells.append([list(w[i] * scale * co) for i in range(counts[key])])
        out[key] = cells
    return out


# ----------------------------------------------------------------------
class capture_log(object):
    """context manager: collect dassh log records (>= ERROR) without printing;
    use `.errors` afterwards.  Logging is otherwise disabled by the harness."""

    def __init__(self, level=None):
        import logging
        self.level = logging.ERROR if level is None else level
        self.errors = []

    def __enter__(self):
        import logging
        cap = self

        class H(logging.Handler):
            def emit(self, record):
                if record.levelno >= cap.level:
                    try:
                        cap.errors.append(record.getMessage())
                    except Exception:
                        cap.errors.append(str(record.msg))
        self.h = H(level=0)
        self.root = logging.getLogger()
        self.root.addHandler(self.h)
        logging.disable(logging.NOTSET)
        return self

    def __exit__(self, *a):
        import logging
        logging.disable(logging.CRITICAL)
        self.root.removeHandler(self.h)
        return False


class Built(object):
    """A scenario materialised in a private directory."""

    def __init__(self, scn, keep=False):
        self.scn = scn
        self.dir = tempfile.mkdtemp(prefix='vf_', dir=os.environ.get('VERIF_TMP'))
        self.keep = keep
        pfiles = None
        pw = scn.get('power') or {}
        if pw.get('asm'):
            tps = pw.get('timepoints', 1)
            pfiles = []
            for t in range(tps):
                rows = []
                for aid in sorted(pw['asm'], key=lambda s: int(s)):
                    spec = pw['asm'][aid]
                    if isinstance(spec, list):
                        spec = spec[t]
                    if any(isinstance(spec.get(k_), (list, tuple)) for k_ in ('pins', 'duct', 'cool')):
                        full = spec
                    else:
                        full = expand_power(spec, spec['rings'], spec.get('nduct', 1))
                    # 'base0': the file numbers the assemblies from 0 (accepted by DASSH, shifted on reading)
                    rows += power_rows(int(aid) - (1 if pw.get('base0') else 0), full, None, pw.get('zunit', 1.0))
                name = 'power_%d.csv' % t
                with open(os.path.join(self.dir, name), 'w') as f:
                    f.write('\n'.join(rows) + '\n')
                pfiles.append(name)
        for name, text in (scn.get('files') or {}).items():
            with open(os.path.join(self.dir, name), 'w') as f:
                f.write(text)
        self.text = input_text(scn, pfiles)
        self.path = os.path.join(self.dir, 'input.txt')
        with open(self.path, 'w') as f:
            f.write(self.text)

    def inp(self, **kw):
        import dassh
        return dassh.DASSH_Input(self.path, **kw)

    def reactor(self, inp=None, **kw):
        import dassh
        if inp is None:
            inp = self.inp()
        return dassh.Reactor(inp, **kw)

    def close(self):
        if not self.keep:
            shutil.rmtree(self.dir, ignore_errors=True)

    def __enter__(self):
        return self

    def __exit__(self, *a):
        self.close()


# ----------------------------------------------------------------------
# convenience: single-assembly scenario
def single(dsn, flow, length=0.4, power=None, gap_model='none', coolant=None,
           setup=None, inlet=623.15, pitch=None, bypass_fraction=0.0, name='A'):
    oftf = max(dsn['duct_ftf'])
    scn = {'setup': setup or {},
           'core': {'inlet': inlet, 'length': length,
                    'pitch': pitch or round(oftf + 0.004, 9),
                    'gap_model': gap_model, 'bypass_fraction': bypass_fraction,
                    'coolant': coolant or 'sodium_se2anl_425'},
           'types': {name: dsn},
           'assign': [[name, 1, 1, {'flowrate': flow}]],
           'power': {'asm': {'1': power}} if power else {}}
    return scn


# hex core positions: rings (base-1) and positions per ring
def core_positions(nring):
    pos = [(1, 1)]
    for r in range(2, nring + 1):
        for p in range(1, 6 * (r - 1) + 1):
            pos.append((r, p))
    return pos
