"""Summary tables of dassh.out checked cell by cell (C08, C03, C12, C01, C02/C10).

Five probes; each has `cases_<name>(tier)` -> flat scenario dicts (with
'probe': 'report-<name>') and `run_<name>(c)` -> result dict; `replay(body)`
dispatches on the scenario's probe.

  geometry  GeometrySummaryTable        "ASSEMBLY GEOMETRY SUMMARY"              C08
  power     PositionAssignmentTable     "ASSEMBLY POWER AND ASSIGNED FLOW RATE"  C03
  flow      CoolantFlowTable            "SUBCHANNEL FLOW CHARACTERISTICS"        C12
  ebal      AssemblyEnergyBalanceTable  "OVERALL ASSEMBLY ENERGY BALANCE"        C01
  interasm  InterasmEnergyXferTable     "INTER-ASSEMBLY HEAT TRANSFER"           C02 / C10

Every run writes a real input in length unit {m, cm, in} x temperature unit
{kelvin, celsius, fahrenheit} x mass-flow unit {kg/s, lb/min}, builds the real
Reactor with write_output=True, sweeps to the end, calls the real
postprocess(), reads dassh.out, cuts the section out by its title, splits the
rows with the column layout of the real table class, and compares every printed
cell with the harness's own value (from the INPUT where a closed form exists,
else from the state of the objects), converted with the harness's own exact unit
factors.

Tolerance of every numeric comparison (derived, not tuned):
    |printed - own| <= half a unit of the last printed digit + 1e-9 * |own|
(the first term is what the format string of the table class loses, the second
covers round-off of the harness's unit conversion / recomputation; where the own
value is an accumulation over the sweep the relative part is taken of the
accumulated absolute terms).  Identities between PRINTED numbers (sums, ratios)
get the first-order propagation of the half units of the cells involved.

Hooking in: `results = run.explore('report-<name>', cases_<name>(run.tier), run_<name>, budget_s=120)`;
r['extra'] carries 'report_cells' {table: cells compared} and 'report_units' {'L|T|M': cases}
for vacuity checks (interasm also 'assemblies_with_uneven_corner_shares', 'layouts_with_vacancy').

Output files other than dassh.out (probes 'report-dumps', 'report-asmtables'): a FieldRecorder wrapped
round Assembly.calculate / Core.calculate_gap_temperatures copies the in-memory fields after every axial
plane; after the real sweep + postprocess EVERY csv of the run directory is parsed and compared row by row
(file set, planes present, assembly id, height, region index, field; '%.18e' round-trips doubles, so field
cells are compared with tolerance 0, heights with 1e-12 m = the rounding of the plane heights, own averages
with 4 n eps).  The files are SI (K, m, Pa) whatever the input units are (the tables label "z (m)").
AssemblyTables hold, per requested height, the dumped plane itself or the linear interpolation between the
two dumped planes that bracket it (dassh.plot._interp_z); the inlet plane brackets from below.
Suggested property per file: temp_coolant_int/byp -> C01, temp_duct_mw -> C11, temp_pin -> C13,
temp_coolant_gap* -> C02, pressure_drop -> C14, temp_average / temp_maximum / assembly tables -> C15
(violations carry scenario.prop).

Two kinds fired on the pinned tree before they were repaired (see the author's report):
  report-power-truncated        Gr* < 0 (uniform pin power: skew - 1 = -1 ulp) needs 10 characters
                                in a 9-character column; "-5.425E-17" is printed as "-5.425E-1"
  report-flow-inlet-temperature scenario.coolant = sodium: the flow table says "values reported
                                for coolant at inlet temperature", but writing the Gr* column of
                                the preceding table leaves the bundles at the axial-average
                                temperature (velocities / Re / swirl / eddy are those)
"""
import copy
import math
import os
import re
from fractions import Fraction as F

import numpy as np

from ..run import new_result, violation, site_of, guarded, Hang
from .. import scenario as S
from .. import observe as O
from .c03 import integral_exact

SQ3 = math.sqrt(3.0)
PI = math.pi
EPS = 2.220446049250313e-16
REL = 1e-9
T_IN = 623.15
COOLANT = 'sodium_se2anl_425'        # constant properties

# ----------------------------------------------------------------------
# units (harness side: exact definitions)
LEN = {'m': 1.0, 'cm': 0.01, 'in': 0.0254}                 # metres per unit
MFR = {'kg/s': 1.0, 'lb/min': 0.45359237 / 60.0}           # kg/s per unit
UL = ('m', 'cm', 'in')
UT = ('kelvin', 'celsius', 'fahrenheit')
UM = ('kg/s', 'lb/min')
TSYM = {'celsius': u'˚C', 'fahrenheit': u'˚F', 'kelvin': 'K'}


def l_out(x, L, power=1):
    """SI length (m^power) -> number in unit L"""
    return x if L == 'm' else x / LEN[L] ** power


def m_out(x, M):
    return x if M == 'kg/s' else x / MFR[M]


def t_out(x, T):
    if T == 'celsius':
        return x - 273.15
    if T == 'fahrenheit':
        return x * 9.0 / 5.0 - 459.67
    return x


def units_of(i):
    """covering rule: nine consecutive indices visit every (length, temperature)
    pair; the mass-flow unit alternates with a period coprime to nine"""
    return UL[i % 3], UT[(i // 3) % 3], UM[i % 2]


def all_units():
    return [(L, T, M) for L in UL for T in UT for M in UM]


_TYPE_L = ('pin_pitch', 'pin_diameter', 'clad_thickness', 'wire_pitch', 'wire_diameter')


def to_units(scn, L, T, M):
    """deep copy of an SI scenario with every dimensional input value written in
    the (L, T, M) system (the user power CSV stays in metres / W/m: DASSH reads it so)"""
    s = copy.deepcopy(scn)

    def cl(x):
        return l_out(x, L)
    st = s.get('setup') or {}
    if st.get('axial_mesh_size') is not None:
        st['axial_mesh_size'] = cl(st['axial_mesh_size'])
    if st.get('axial_plane') is not None:
        st['axial_plane'] = [cl(x) for x in st['axial_plane']]
    if (st.get('Dump') or {}).get('interval') is not None:
        st['Dump']['interval'] = cl(st['Dump']['interval'])
    for t in (st.get('AssemblyTables') or {}).values():
        t['axial_positions'] = [cl(x) for x in t['axial_positions']]
    c = s['core']
    c['inlet'] = t_out(c.get('inlet', T_IN), T)
    c['length'] = cl(c['length'])
    c['pitch'] = cl(c['pitch'])
    for d in s['types'].values():
        for k in _TYPE_L:
            d[k] = cl(d[k])
        d['duct_ftf'] = [cl(x) for x in d['duct_ftf']]
        for reg in (d.get('AxialRegion') or {}).values():
            for k in ('z_lo', 'z_hi', 'hydraulic_diameter', 'epsilon'):
                if k in reg:
                    reg[k] = cl(reg[k])
        if (d.get('SpacerGrid') or {}).get('axial_positions') is not None:
            d['SpacerGrid']['axial_positions'] = [cl(x) for x in d['SpacerGrid']['axial_positions']]
    for a in s['assign']:
        for k in list(a[3]):
            if k == 'flowrate':
                a[3][k] = m_out(a[3][k], M)
            elif k == 'outlet_temp':
                a[3][k] = t_out(a[3][k], T)
            else:
                raise ValueError(k)
    s['units'] = {'temperature': T, 'length': L, 'mass_flow_rate': M}
    return s


# ----------------------------------------------------------------------
# table layout read from the real classes
def _fmt_info(fmt):
    m = re.search(r'\.(\d+)([EeFf])', fmt)
    return int(m.group(1)), m.group(2).upper()


def table_meta(name, ncol=None):
    """title, column layout and print formats of the real table class"""
    from dassh import table as T
    if name == 'geometry':
        tab = T.GeometrySummaryTable(ncol)
        fm = {'E': tab._ffmt}
    elif name == 'power':
        tab = T.PositionAssignmentTable()
        fm = {'E': tab._ffmt}
    elif name == 'flow':
        tab = T.CoolantFlowTable()
        fm = {'E': tab._ffmt, 'f0': tab._ffmt0, 'f3': tab._ffmt3, 'f5': tab._ffmt5}
    elif name == 'ebal':
        tab = T.AssemblyEnergyBalanceTable()
        fm = {'E': tab._ffmt}
    elif name == 'interasm':
        tab = T.InterasmEnergyXferTable()
        fm = {'E': tab._ffmt, 'P': tab._ffmt2}
    else:
        raise ValueError(name)
    return {'name': name, 'cls': type(tab).__name__, 'title': tab.title.rstrip('\n'),
            'w0': tab.col0_width, 'w': tab.col_width, 'div': tab.divider, 'ncol': tab.n_col,
            'width': tab.width, 'fmt': fm, 'omit': T._OMIT,
            'site': 'table.py:%s.make' % type(tab).__name__}


def section(text, title):
    """lines of the section that starts with the title line, up to the section
    separator (two empty lines) or the end of the file; None if the title does not
    occur exactly once"""
    lines = text.split('\n')
    idx = [i for i, ln in enumerate(lines) if ln == title]
    if len(idx) != 1:
        return None
    i = idx[0]
    j = i + 1
    while j < len(lines):
        if lines[j] == '' and (j + 1 >= len(lines) or lines[j + 1] == ''):
            break
        j += 1
    return lines[i:j]


def split_cells(ln, meta):
    cells = [ln[:meta['w0']].strip()]
    pos = meta['w0']
    for k in range(meta['ncol']):
        pos += len(meta['div'])
        cells.append(ln[pos:pos + meta['w']].strip())
        pos += meta['w']
    return cells


def table_rows(sec, meta):
    """(header lines, body) of a section: the body follows the first full-width
    rule; body entries are cell lists, 'RULE' for a rule, None for an all-blank
    spacer row"""
    rule = '-' * meta['width']
    if rule not in sec:
        return None, None
    k = sec.index(rule)
    body = []
    for ln in sec[k + 1:]:
        if ln.strip() == '':
            body.append(None)
        elif set(ln) == {'-'}:
            body.append('RULE')
        else:
            body.append(split_cells(ln, meta))
    return sec[:k], body


def parse_num(cell, fmt):
    """(value, half unit of the last printed digit) of a cell written with fmt;
    (None, None) if the cell does not have the shape the format produces"""
    dp, kind = _fmt_info(fmt)
    if kind == 'E':
        m = re.match(r'^(-?\d\.(\d*))E([-+]\d{2,3})$', cell) if dp else re.match(r'^(-?\d())E([-+]\d{2,3})$', cell)
        if not m or len(m.group(2)) != dp:
            return None, None
        return float(cell), 0.5 * 10.0 ** (int(m.group(3)) - dp)
    m = re.match(r'^-?\d+\.(\d+)$', cell) if dp else re.match(r'^-?\d+()$', cell)
    if not m or len(m.group(1)) != dp:
        return None, None
    return float(cell), 0.5 * 10.0 ** (-dp)


class Checker(object):
    """collects violations of one table; counts compared cells"""

    def __init__(self, c, meta, V):
        self.c = c
        self.meta = meta
        self.V = V
        self.cells = 0
        self.kinds = set()

    def bad(self, kind, what, obs=None, exp=None, tol=None, **fields):
        # one violation per (kind, row/col family) is enough for a report; keep the first three
        key = (kind, fields.get('col'), fields.get('row'))
        if key in self.kinds and len(self.V) > 12:
            return
        self.kinds.add(key)
        self.V.append(violation('report-%s-%s' % (self.meta['name'], kind), dict(self.c, table=self.meta['name'], **fields),
                                what, obs, exp, tol, site=self.meta['site']))

    def text(self, cell, want, what, kind='text', **fields):
        self.cells += 1
        want = str(want)[:self.meta['w']]
        if cell != want:
            self.bad(kind, what, cell, want, None, **fields)
            return False
        return True

    def num(self, cell, own, fmt, what, kind='value', extra_abs=0.0, **fields):
        """printed cell vs own value: half a unit of the last printed digit + 1e-9 relative
        (+ extra_abs: stated round-off scale of an accumulated own value)"""
        self.cells += 1
        x, half = parse_num(cell, fmt)
        if x is None:
            if len(cell) == self.meta['w'] and len(fmt.format(own).strip()) <= self.meta['w'] + 1 \
                    and re.match(r'^-\d\.\d+E[-+]\d$', cell):
                # a negative number needs one character more than the column has: the formatter of the
                # table cuts the last digit of the exponent (the cell then READS as another number)
                self.bad('truncated', '%s: negative value cut by the column width (%d characters), the printed '
                         'exponent lost its last digit' % (what, self.meta['w']), cell, fmt.format(own), None, **fields)
                return None
            self.bad('format', '%s: cell does not have the shape of %s' % (what, fmt), cell, fmt.format(own), None,
                     **fields)
            return None
        if not math.isfinite(own):
            self.bad(kind, '%s: own value not finite' % what, cell, own, None, **fields)
            return x
        tol = half + REL * abs(own) + extra_abs
        if abs(x - own) > tol:
            self.bad(kind, what, cell, fmt.format(own), tol, **fields)
        return x


def propagated(fn, vals, halves):
    """first-order bound of |fn(printed) - fn(exact)| when every printed value may be
    off by its half unit: sum of the one-at-a-time differences"""
    f0 = fn(vals)
    tot = 0.0
    for i, h in enumerate(halves):
        if h == 0.0:
            continue
        v = list(vals)
        v[i] = vals[i] + h
        up = abs(fn(v) - f0)
        v[i] = vals[i] - h
        tot += max(up, abs(fn(v) - f0))
    return f0, tot


class Rejected(Exception):
    pass


def execute(scn, c, V, record=None, snapshot=None, budget_steps=20000, keep_csv=False):
    """Build the scenario, construct the real Reactor with write_output=True,
    (snapshot), attach recorders, sweep, postprocess, read dassh.out.
    Returns dict(rx, text, snap, rec) or None after appending a violation."""
    with S.Built(scn) as b:
        cap = S.capture_log()
        try:
            with cap:
                rx = b.reactor(write_output=True)
        except SystemExit as e:
            V.append(violation('report-setup-rejected', c, 'valid generated input rejected at set-up: %s'
                               % '; '.join(cap.errors)[:300], site=site_of(e)))
            return None
        if len(rx.z) - 1 > budget_steps:
            V.append(violation('report-harness-too-many-steps', c, 'scenario needs %d steps' % (len(rx.z) - 1)))
            return None
        out = {'rx': rx, 'snap': snapshot(rx) if snapshot else None,
               'rec': record(rx) if record else None}
        cap2 = S.capture_log(level=20)
        try:
            with cap2:
                rx.temperature_sweep()
                rx.postprocess()
        except SystemExit as e:
            V.append(violation('report-run-aborted', c, 'sweep / postprocess of a valid input ended with an error exit: %s'
                               % '; '.join(m for m in cap2.errors if 'rogress' not in m)[-300:], site=site_of(e)))
            out['aborted'] = True
        except Hang:
            raise
        except Exception as e:
            V.append(violation('report-run-crashed', c, 'sweep / postprocess of a valid input raised %s: %s'
                               % (type(e).__name__, str(e)[:200]), site=site_of(e)))
            out['aborted'] = True
        with open(os.path.join(b.dir, 'dassh.out'), encoding='utf-8') as fh:
            out['text'] = fh.read()
        if keep_csv:
            out['csv'] = {}
            for fn in sorted(os.listdir(b.dir)):
                if fn.endswith('.csv') and not fn.startswith('power_'):
                    with open(os.path.join(b.dir, fn)) as fh:
                        out['csv'][fn] = fh.read()
        out['log'] = list(cap2.errors)
    return out


def get_table(out, c, V, name, ncol=None):
    meta = table_meta(name, ncol)
    sec = section(out['text'], meta['title'])
    if sec is None:
        V.append(violation('report-%s-missing' % name, dict(c, table=name),
                           'section "%s" not found exactly once in dassh.out' % meta['title'], site=meta['site']))
        return meta, None, None
    head, body = table_rows(sec, meta)
    if body is None:
        V.append(violation('report-%s-missing' % name, dict(c, table=name),
                           'section "%s" has no full-width rule (table width %d)' % (meta['title'], meta['width']),
                           site=meta['site']))
        return meta, None, None
    return meta, head, body


def _finish(r, c, V, cells, states, label):
    r['traces'] = 1
    r['states'] = states
    r['transitions'] = states
    r['nontrivial'] = cells > 0
    r['outcome'] = 'ok' if not V else 'violation'
    L, T, M = c.get('L', 'm'), c.get('T', 'kelvin'), c.get('M', 'kg/s')
    r['extra'] = {'report_cells': {label: cells}, 'report_units': {'%s|%s|%s' % (L, T, M): 1}}
    r['info'] = {'cells_compared': cells}
    return r


# ======================================================================
# own geometry of a hexagonal wire-wrapped bundle (closed forms from the input)
def own_geometry(dsn, se2=False):
    n = dsn['num_rings']
    P, D = dsn['pin_pitch'], dsn['pin_diameter']
    Pw, Dw = dsn['wire_pitch'], dsn['wire_diameter']
    ftf = sorted(dsn['duct_ftf'])
    nd = len(ftf) // 2
    e = 0.5 * (ftf[0] - SQ3 * P * (n - 1))              # centre of an outer-row pin to the wall
    cos = 1.0 if (se2 or Dw == 0.0) else Pw / math.sqrt(Pw ** 2 + (PI * (D + Dw)) ** 2)
    wire = PI * Dw ** 2 / 4.0 / cos                     # wire cross section in the flow plane
    wirep = PI * Dw / cos                               # wire perimeter in the flow plane
    g = {'n': n, 'nd': nd, 'npin': 3 * n * (n - 1) + 1, 'ftf': ftf, 'e': e, 'cos': cos}
    g['N'] = (6 * (n - 1) ** 2, 6 * (n - 1), 6)
    g['pin_pin'] = P - D
    g['pin_wall'] = e - 0.5 * D
    g['wall'] = [0.5 * (ftf[2 * i + 1] - ftf[2 * i]) for i in range(nd)]
    g['byp'] = [0.5 * (ftf[2 * i + 2] - ftf[2 * i + 1]) for i in range(nd - 1)]
    # half length of a corner cell along a wall surface: distance from the hexagon vertex to the foot
    # of the corner pin centre (e / tan 60) on the inside of wall 0, growing by t / sqrt 3 per layer t
    wc = [[e / SQ3, e / SQ3 + g['wall'][0] / SQ3]]
    for i in range(1, nd):
        a = wc[i - 1][1] + g['byp'][i - 1] / SQ3
        wc.append([a, a + g['wall'][i] / SQ3])
    g['wc'] = wc
    # subchannel flow areas / wetted perimeters: triangle, rectangle, kite minus pin and wire shares
    A = [SQ3 / 4.0 * P * P - PI * D * D / 8.0 - wire / 2.0,
         P * e - PI * D * D / 8.0 - wire / 2.0,
         e * e / SQ3 - PI * D * D / 24.0 - wire / 6.0]
    WP = [PI * D / 2.0 + wirep / 2.0,
          P + PI * D / 2.0 + wirep / 2.0,
          PI * D / 6.0 + 2.0 * e / SQ3 + wirep / 6.0]
    g['A'] = A
    g['De'] = [4.0 * A[i] / WP[i] for i in range(3)]
    g['A_b'] = sum(g['N'][i] * A[i] for i in range(3))
    g['De_b'] = 4.0 * g['A_b'] / sum(g['N'][i] * WP[i] for i in range(3))
    g['pin_wire_area'] = PI * D * D / 4.0 + wire
    g['hex_area'] = SQ3 / 2.0 * ftf[0] ** 2
    g['byp_A'] = []
    for i in range(nd - 1):
        t = g['byp'][i]
        tot = SQ3 / 2.0 * (ftf[2 * i + 2] ** 2 - ftf[2 * i + 1] ** 2)
        g['byp_A'].append({'edge': P * t, 'corner': t * (wc[i + 1][0] + wc[i][1]), 'total': tot,
                           'de': 2.0 * t, 'de_tot': 4.0 * tot / (6.0 / SQ3) / (ftf[2 * i + 1] + ftf[2 * i + 2])})
    return g


def geometry_rows(nmax):
    """row labels of the geometry table for a core whose widest type has nmax ducts
    (harness's reading of the table contract), with the kind of each row"""
    rows = [('Name', 's'), ('Pins', 'i'), ('Pin rings', 'i'), ('Pin diameter', 1), ('Pin pitch', 1),
            ('Clad thickness', 1), ('Wire pitch', 1), ('Wire diameter', 1), ('Wire direction', 's'),
            ('Pin-pin gap', 1), ('Pin-wall gap', 1), ('Number of duct walls', 'i'), ('Number of bypass gaps', 'i'),
            ('Outside duct outer FTF', 1), ('Outside duct thickness', 1)]
    for j in range(1, nmax):
        k = nmax - j
        rows += [('Bypass %d thickness' % k, 1), ('Duct %d outer FTF' % k, 1), ('Duct %d thickness' % k, 1)]
    rows += [('Coolant', 'i'), ('1. Interior', 'i'), ('2. Edge', 'i'), ('3. Corner', 'i'), ('Duct (per wall)', 'i'),
             ('4. Edge', 'i'), ('5. Corner', 'i'), ('Bypass (per gap)', 'i'), ('6. Edge', 'i'), ('7. Corner', 'i'),
             ('Subchannel area', 'h'), ('1. Interior area', 2), ('2. Edge area', 2), ('3. Corner area', 2),
             ('Interior total area', 2)]
    for j in range(1, nmax):
        k = nmax - j
        rows += [('6. Bypass %d edge area' % k, 2), ('7. Bypass %d corner area' % k, 2), ('Bypass %d total area' % k, 2)]
    rows += [('Hydraulic diam.', 'h'), ('1. Interior De', 1), ('2. Edge De', 1), ('3. Corner De', 1), ('Bundle De', 1)]
    for j in range(1, nmax):
        k = nmax - j
        rows += [('6. Bypass %d edge De' % k, 1), ('7. Bypass %d corner De' % k, 1), ('Bypass %d total De' % k, 1)]
    rows += [('Centroid-centroid dist', 'h'), ('1 <--> 1', 1), ('1 <--> 2', 1), ('2 <--> 2', 1), ('2 <--> 3', 1),
             ('3 <--> 3', 1)]
    for j in range(1, nmax):
        k = nmax - j
        rows += [('Byp %d 6 <--> 6' % k, 1), ('Byp %d 6 <--> 7' % k, 1), ('Byp %d 7 <--> 7' % k, 1)]
    rows += [('Correlations', 'h'), ('Friction factor', 's'), ('Flow split', 's'), ('Mixing parameters', 's'),
             ('Nusselt number', 's'), ('Shape factor', 0)]
    return rows


def geometry_expected(dsn, name, se2, nmax, rr):
    """{row label: own SI value} for one type column.  Dimensions, counts, areas and
    hydraulic diameters from the input (closed forms); centroid distances and
    correlation names from the state of the template bundle rr."""
    g = own_geometry(dsn, se2)
    n, nd = g['n'], g['nd']
    ftf = g['ftf']
    ex = {'Name': name, 'Pins': g['npin'], 'Pin rings': n, 'Pin diameter': dsn['pin_diameter'],
          'Pin pitch': dsn['pin_pitch'], 'Clad thickness': dsn['clad_thickness'], 'Wire pitch': dsn['wire_pitch'],
          'Wire diameter': dsn['wire_diameter'], 'Wire direction': dsn.get('wire_direction', 'counterclockwise'),
          'Pin-pin gap': g['pin_pin'], 'Pin-wall gap': g['pin_wall'], 'Number of duct walls': nd,
          'Number of bypass gaps': nd - 1, 'Outside duct outer FTF': ftf[-1], 'Outside duct thickness': g['wall'][-1]}
    # walls / gaps are numbered from the inside (1 = innermost) in a table sized for nmax ducts: an
    # assembly with nd ducts fills the labels nmax-1 .. nmax-nd+1 with its gaps/walls taken from the outside in
    for j in range(1, nd):
        k = nmax - j
        ex['Bypass %d thickness' % k] = g['byp'][-j]
        ex['Duct %d outer FTF' % k] = ftf[2 * (nd - 1 - j) + 1]
        ex['Duct %d thickness' % k] = g['wall'][-j - 1]
        ba = g['byp_A'][-j]
        ex['6. Bypass %d edge area' % k] = ba['edge']
        ex['7. Bypass %d corner area' % k] = ba['corner']
        ex['Bypass %d total area' % k] = ba['total']
        ex['6. Bypass %d edge De' % k] = ba['de']
        ex['7. Bypass %d corner De' % k] = ba['de']
        ex['Bypass %d total De' % k] = ba['de_tot']
        ex['Byp %d 6 <--> 6' % k] = float(rr.L[5][5][-j])
        ex['Byp %d 6 <--> 7' % k] = float(rr.L[5][6][-j])
        ex['Byp %d 7 <--> 7' % k] = float(rr.L[6][6][-j])
    N = g['N']
    ex.update({'Coolant': sum(N), '1. Interior': N[0], '2. Edge': N[1], '3. Corner': N[2],
               'Duct (per wall)': N[1] + N[2], '4. Edge': N[1], '5. Corner': N[2]})
    if nd > 1:
        ex.update({'Bypass (per gap)': N[1] + N[2], '6. Edge': N[1], '7. Corner': N[2]})
    ex.update({'1. Interior area': g['A'][0], '2. Edge area': g['A'][1], '3. Corner area': g['A'][2],
               'Interior total area': g['A_b'], '1. Interior De': g['De'][0], '2. Edge De': g['De'][1],
               '3. Corner De': g['De'][2], 'Bundle De': g['De_b'],
               '1 <--> 1': float(rr.L[0][0]), '1 <--> 2': float(rr.L[0][1]), '2 <--> 2': float(rr.L[1][1]),
               '2 <--> 3': float(rr.L[1][2]), '3 <--> 3': float(rr.L[2][2])})
    for lab, key, inp in (('Friction factor', 'ff', 'corr_friction'), ('Flow split', 'fs', 'corr_flowsplit'),
                          ('Mixing parameters', 'mix', 'corr_mixing'), ('Nusselt number', 'nu', None)):
        ex[lab] = str(rr.corr_names[key])
        if inp and dsn.get(inp) and ex[lab] != dsn[inp].lower():
            ex[lab] = dsn[inp].lower()          # the input is the reference where it names the correlation
    ex['Shape factor'] = float(dsn.get('shape_factor', 1.0))
    return ex, g


# ======================================================================
# 1. GeometrySummaryTable  (C08)
GEO_TYPES = [(r, d, w) for r in (2, 3, 5) for d in (1, 2) for w in (True, False)]


def _geo_design(rings, ducts, wire, oftf, k=0, wire_dir=None):
    # unequal wall thicknesses (inside out) so that index slips between walls show
    return S.design(rings, pd=1.20 + 0.06 * k, hd=28.0 + 6.0 * k, ducts=ducts, oftf=oftf,
                    duct_t=[0.002, 0.003] if ducts == 2 else 0.0025, byp_t=0.0022,
                    clearance='tight' if wire else 'mid', wire=wire, wire_dir=wire_dir,
                    bypass_fraction=0.05 if ducts > 1 else None,
                    shape_factor=None if k == 0 else 1.15)


def cases_geometry(tier):
    out = []
    i = 0
    if tier == 'quick':
        for (r, d, w) in GEO_TYPES:
            for se2 in (False, True):
                L, T, M = units_of(i)
                out.append({'probe': 'report-geometry', 'rings': r, 'ducts': d, 'wire': w, 'se2geo': se2,
                            'rings2': None, 'ducts2': None, 'wire2': None, 'L': L, 'T': T, 'M': M})
                i += 1
        pairs = [((2, 1, True), (3, 2, False)), ((3, 2, True), (2, 1, False)), ((5, 1, False), (2, 2, True)),
                 ((2, 2, False), (5, 2, True)), ((3, 1, True), (3, 1, False))]
        for a, b2 in pairs:
            for se2 in (False, True):
                for L in UL:
                    out.append({'probe': 'report-geometry', 'rings': a[0], 'ducts': a[1], 'wire': a[2], 'se2geo': se2,
                                'rings2': b2[0], 'ducts2': b2[1], 'wire2': b2[2], 'L': L, 'T': UT[i % 3], 'M': UM[i % 2]})
                    i += 1
    else:
        for (r, d, w) in GEO_TYPES:
            for se2 in (False, True):
                for (L, T, M) in all_units():
                    out.append({'probe': 'report-geometry', 'rings': r, 'ducts': d, 'wire': w, 'se2geo': se2,
                                'rings2': None, 'ducts2': None, 'wire2': None, 'L': L, 'T': T, 'M': M})
        for a in GEO_TYPES:
            for b2 in GEO_TYPES:
                if a == b2:
                    continue
                for se2 in (False, True):
                    for L in UL:
                        out.append({'probe': 'report-geometry', 'rings': a[0], 'ducts': a[1], 'wire': a[2],
                                    'se2geo': se2, 'rings2': b2[0], 'ducts2': b2[1], 'wire2': b2[2],
                                    'L': L, 'T': UT[i % 3], 'M': UM[i % 2]})
                        i += 1
    return out


def _geo_scenario(c):
    two = c.get('rings2') is not None
    rmax = max(c['rings'], c['rings2'] or 0)
    dmax = max(c['ducts'], c['ducts2'] or 0)
    oftf = round(0.03 + 0.012 * rmax + 0.012 * (dmax - 1), 6)
    types = {'TYPE_A': _geo_design(c['rings'], c['ducts'], c['wire'], oftf)}
    if two:
        types['B2'] = _geo_design(c['rings2'], c['ducts2'], c['wire2'], oftf, k=1, wire_dir='clockwise')
    assign, pw = [], {}
    for i, (nm, d) in enumerate(types.items()):
        rg, p = S.core_positions(2)[i]
        assign.append([nm, rg, p, {'flowrate': round(0.25 * d['num_rings'] * (1 + 0.1 * i), 6)}])
        pw[str(S.asm_id(rg, p) + 1)] = {'rings': d['num_rings'], 'nduct': len(d['duct_ftf']) // 2,
                                        'cells': [0.0, 0.04, 0.1], 'q': 2500.0, 'pins': 'tilt', 'duct': 'uniform',
                                        'axial': ['up', 'down']}
    scn = {'setup': {'se2geo': True} if c['se2geo'] else {},
           'core': {'inlet': T_IN, 'length': 0.1, 'pitch': round(oftf + 0.004, 6), 'gap_model': 'none',
                    'bypass_fraction': 0.0, 'coolant': COOLANT},
           'types': types, 'assign': assign, 'power': {'asm': pw}}
    return scn


def run_geometry(c):
    r = new_result()
    V = r['violations']
    scn = _geo_scenario(c)
    L = c['L']
    out = execute(to_units(scn, L, c['T'], c['M']), c, V)
    if out is None:
        r['outcome'] = 'rejected'
        return r
    rx = out['rx']
    names = list(scn['types'])
    nt = len(names)
    meta, head, body = get_table(out, c, V, 'geometry', nt)
    if body is None:
        r['outcome'] = 'violation'
        return r
    ck = Checker(c, meta, V)
    fE = meta['fmt']['E']
    omit = meta['omit']
    nmax = max(len(d['duct_ftf']) // 2 for d in scn['types'].values())
    # header: unit label and one column per assembly type in input order
    hdr = split_cells(head[-1], meta) if head else []
    want = [('Parameter (%s // %s)^2' % (L, L))[:meta['w0']]] + ['Assembly %d' % (i + 1) for i in range(nt)]
    ck.cells += 1
    if hdr != want:
        ck.bad('header', 'header row (unit label / one column per assembly type)', hdr, want, row='header')
    if list(rx.asm_templates) != names:
        ck.bad('harness', 'template order differs from the input order', list(rx.asm_templates), names)
    rows = [x for x in body if x is not None and x != 'RULE']
    labels = geometry_rows(nmax)
    if [x[0] for x in rows] != [lab for lab, _ in labels]:
        ck.bad('rows', 'row labels of the table', [x[0] for x in rows], [lab for lab, _ in labels], row='labels')
        return _finish(r, c, V, ck.cells, len(rx.z), 'geometry')
    printed = []
    for ti, nm in enumerate(names):
        dsn = scn['types'][nm]
        rr = rx.asm_templates[nm].rodded
        ex, g = geometry_expected(dsn, nm, c['se2geo'], nmax, rr)
        col = {}
        for (lab, kind), row in zip(labels, rows):
            cell = row[1 + ti]
            f = dict(row=lab, col=ti, type_rings=dsn['num_rings'], type_ducts=g['nd'], type_wire=dsn['wire_diameter'] > 0)
            if kind == 'h' or lab not in ex:
                ck.text(cell, omit, 'placeholder expected in "%s" of type %s' % (lab, nm), kind='placeholder', **f)
            elif kind == 's':
                ck.text(cell, ex[lab], '"%s" of type %s' % (lab, nm), **f)
            elif kind == 'i':
                ck.text(cell, str(int(ex[lab])), '"%s" of type %s' % (lab, nm), kind='count', **f)
                col[lab] = (float(ex[lab]), 0.0) if cell != str(int(ex[lab])) else (float(cell), 0.0)
            else:
                own = l_out(ex[lab], L, kind) if kind else ex[lab]
                x = ck.num(cell, own, fE, '"%s" of type %s (unit %s^%d)' % (lab, nm, L, kind), **f)
                if x is not None:
                    col[lab] = (x, parse_num(cell, fE)[1])
        printed.append(col)
        # ---- identities between PRINTED numbers
        need = ['1. Interior', '2. Edge', '3. Corner', 'Pins', '1. Interior area', '2. Edge area', '3. Corner area',
                'Interior total area', 'Pin diameter', 'Wire diameter', 'Wire pitch', 'Outside duct outer FTF',
                'Outside duct thickness']
        nd = g['nd']
        if nd > 1:
            k_in = nmax - (nd - 1)
            need += ['Duct %d outer FTF' % k_in, 'Duct %d thickness' % k_in]
        if any(k_ not in col for k_ in need):
            continue
        keys = list(need)
        vals = [col[k_][0] for k_ in keys]
        halves = [col[k_][1] for k_ in keys]
        ix = {k_: i for i, k_ in enumerate(keys)}
        se2 = c['se2geo']
        if vals[ix['Wire diameter']] == 0.0:
            # bare rods: "0.00000E+00" is an exact statement (no wire), not a rounded length
            halves[ix['Wire diameter']] = halves[ix['Wire pitch']] = 0.0

        def tiling(v):
            D_, Dw_, Pw_ = v[ix['Pin diameter']], v[ix['Wire diameter']], v[ix['Wire pitch']]
            cos = 1.0 if (se2 or Dw_ == 0.0) else Pw_ / math.sqrt(Pw_ ** 2 + (PI * (D_ + Dw_)) ** 2)
            if nd > 1:
                iftf = v[ix['Duct %d outer FTF' % k_in]] - 2.0 * v[ix['Duct %d thickness' % k_in]]
            else:
                iftf = v[ix['Outside duct outer FTF']] - 2.0 * v[ix['Outside duct thickness']]
            flow = (v[ix['1. Interior']] * v[ix['1. Interior area']] + v[ix['2. Edge']] * v[ix['2. Edge area']]
                    + v[ix['3. Corner']] * v[ix['3. Corner area']])
            solid = v[ix['Pins']] * (PI * D_ * D_ / 4.0 + PI * Dw_ * Dw_ / 4.0 / cos)
            return flow + solid - SQ3 / 2.0 * iftf ** 2

        def total(v):
            return (v[ix['1. Interior']] * v[ix['1. Interior area']] + v[ix['2. Edge']] * v[ix['2. Edge area']]
                    + v[ix['3. Corner']] * v[ix['3. Corner area']] - v[ix['Interior total area']])
        hexa = l_out(g['hex_area'], L, 2)
        for fn, kind, what in ((tiling, 'tiling', 'printed interior/edge/corner areas x counts + pins + wires do not tile '
                                'the inner hexagon computed from the printed duct dimensions'),
                               (total, 'total-area', 'printed interior total area is not the sum of the printed '
                                'subchannel areas x counts')):
            f0, tol = propagated(fn, vals, halves)
            ck.cells += 1
            if abs(f0) > tol + REL * hexa:
                ck.bad(kind, '%s (type %s, unit %s^2)' % (what, nm, L), f0, 0.0, tol + REL * hexa, row=kind, col=ti,
                       type_rings=dsn['num_rings'], type_ducts=nd)
        for j in range(1, nd):
            k = nmax - j
            keys2 = ['6. Edge', '7. Corner', '6. Bypass %d edge area' % k, '7. Bypass %d corner area' % k,
                     'Bypass %d total area' % k]
            if any(k_ not in col for k_ in keys2):
                continue
            v2 = [col[k_][0] for k_ in keys2]
            h2 = [col[k_][1] for k_ in keys2]
            f0, tol = propagated(lambda v: v[0] * v[2] + v[1] * v[3] - v[4], v2, h2)
            ck.cells += 1
            if abs(f0) > tol + REL * v2[4]:
                ck.bad('bypass-tiling', 'printed bypass edge/corner areas x counts != printed bypass total area '
                       '(type %s, gap label %d)' % (nm, k), f0, 0.0, tol + REL * v2[4], row='bypass-tiling', col=ti)
    return _finish(r, c, V, ck.cells, len(rx.z), 'geometry')


# ======================================================================
# 2. PositionAssignmentTable  (C03)
def _material(name, T):
    import dassh
    m = dassh.Material(name)
    m.update(T)
    return m


def _pin_totals(full):
    """exact total power (W) of every pin of an expanded power spec"""
    cells = full['cells']
    arr = full.get('pins')
    if arr is None:
        return []
    tot = [F(0)] * len(arr[0])
    for k in range(len(cells) - 1):
        Lk = F(repr(cells[k + 1])) - F(repr(cells[k]))
        for i, co in enumerate(arr[k]):
            s = F(0)
            for j, cj in enumerate(co):
                if j % 2 == 0:
                    s += F(repr(float(cj))) * 2 * F(1, 2) ** (j + 1) / (j + 1)
            tot[i] = tot[i] + Lk * s
    return tot


def _component_integrals(full):
    """exact integrals (W) per component of an expanded power spec"""
    out = {}
    for k in ('pins', 'duct', 'cool'):
        if full.get(k) is None:
            out[k] = F(0)
        else:
            out[k] = integral_exact({'cells': full['cells'], k: full[k]})[0]
    return out


def own_grstar(rr, t_in, t_est, pskew, length, coolant_name):
    """modified Grashof number as documented in table.py (SE2 manual 4.3.1 / Khan 1975),
    evaluated by the harness from the bundle's correlated state and a private Material
    (constant-property coolant: the state does not depend on the temperature)"""
    mat = _material(coolant_name, 0.5 * (t_in + t_est))
    p = rr.coolant_int_params
    rho, mu = float(mat.density), float(mat.viscosity)
    vel = rr.int_flow_rate / rr.bundle_params['area'] / rho
    fs0 = float(p['fs'][0])
    de0 = float(rr.params['de'][0])
    Re = rho * vel * fs0 * de0 / mu
    pd = rr.pin_pitch / rr.pin_diameter
    if rr.wire_pitch == 0.0:
        Mn = 1.0
    else:
        Mn = (1.034 / pd ** 0.124 + 29.7 * pd ** 6.94 * Re ** 0.086 / (rr.wire_pitch / rr.pin_diameter) ** 2.239) ** 0.885
    Pr = float(mat.heat_capacity) * mu / float(mat.thermal_conductivity)
    eddy_dimless = float(p['eddy']) / (fs0 * float(p['vel']))
    gamma = 16.0 * (pd - 1.0) * (fs0 * eddy_dimless + rr._sf / Re / Pr) / PI / rr.duct_ftf[0][0]
    chi = (pskew - 1.0) / 2.0 / Mn / gamma / length
    Gr = 9.80665 * float(mat.beta) * (t_est - t_in) * de0 ** 3 / (mu / rho) ** 2
    return Gr * chi / float(p['ff']) / Re ** 2


def cases_power(tier):
    out = []
    i = 0
    for n_asm in (1, 3, 7):
        for total in (None, 2.5e5):
            for scaling in (None, 0.5, 1.3):
                for bc in ('flow', 'outlet', 'mixed'):
                    if n_asm == 1 and bc == 'mixed':
                        continue
                    for ntypes in ((1,) if (tier == 'quick' and (i % 3)) or n_asm == 1 else (1, 2)):
                        for (L, T, M) in ([units_of(i)] if tier == 'quick' else all_units()):
                            out.append({'probe': 'report-power', 'n_asm': n_asm, 'total': total, 'scaling': scaling,
                                        'bc': bc, 'ntypes': ntypes, 'gap': 'none' if n_asm == 1 else 'flow',
                                        'L': L, 'T': T, 'M': M})
                        i += 1
    return out


def _power_scenario(c):
    n = c['n_asm']
    types = {'DRV': S.design(2, oftf=0.05)}
    if c['ntypes'] == 2:
        types['BLK'] = S.design(3, oftf=0.05, pd=1.15)
    tn = list(types)
    pos = S.core_positions(2)[:n]
    assign, pw, fulls, bcs = [], {}, [], []
    for i, (rg, p) in enumerate(pos):
        nm = tn[i % len(tn)] if i else tn[0]
        d = types[nm]
        rings = d['num_rings']
        # several assemblies of one type with different power level, radial and axial shape
        spec = {'rings': rings, 'nduct': 1, 'cells': [0.0, 0.04, 0.1], 'q': 30000.0 * (1.0 + 0.23 * i) * 7 / S.n_pins(rings),
                'pins': ('asym', 'tilt', 'uniform')[i % 3], 'duct': 'uniform', 'cool': 'uniform',
                'axial': [('up', 'mid'), ('mid', 'down'), ('flat', 'up')][i % 3], 'seed': i, 'order': 2}
        full = S.expand_power(spec, rings, 1)
        fulls.append(full)
        pw[str(S.asm_id(rg, p) + 1)] = full
        use_outlet = c['bc'] == 'outlet' or (c['bc'] == 'mixed' and i % 2 == 1)
        if use_outlet:
            bc = {'outlet_temp': T_IN + 60.0 + 12.5 * i}
        else:
            bc = {'flowrate': round(0.42 * (1.0 + 0.11 * i), 6)}
        bcs.append(bc)
        assign.append([nm, rg, p, dict(bc)])
    scn = {'setup': {},
           'core': {'inlet': T_IN, 'length': 0.1, 'pitch': 0.054, 'gap_model': c['gap'],
                    'bypass_fraction': 0.0 if c['gap'] == 'none' else 0.04, 'coolant': COOLANT},
           'types': types, 'assign': assign,
           'power': {'asm': pw, 'total': c['total'], 'scaling': c['scaling']}}
    return scn, fulls, bcs


def own_powers(fulls, total, scaling):
    """exact assembly powers (W): integral of the CSV polynomials x normalisation x scaling"""
    exact = [integral_exact(f)[0] for f in fulls]
    tot = sum(exact)
    norm = F(1)
    if total is not None:
        norm = F(repr(float(total))) / tot if tot != 0 else F(0)
    sc = F(repr(float(scaling))) if scaling is not None else F(1)
    return [float(e * norm * sc) for e in exact], norm * sc


def run_power(c):
    r = new_result()
    V = r['violations']
    scn, fulls, bcs = _power_scenario(c)
    L, T, M = c['L'], c['T'], c['M']
    out = execute(to_units(scn, L, T, M), c, V)
    if out is None:
        r['outcome'] = 'rejected'
        return r
    rx = out['rx']
    meta, head, body = get_table(out, c, V, 'power')
    if body is None:
        r['outcome'] = 'violation'
        return r
    ck = Checker(c, meta, V)
    fE = meta['fmt']['E']
    omit = meta['omit']
    nasm = len(scn['assign'])
    P_own, _ = own_powers(fulls, c['total'], c['scaling'])
    cp = float(_material(COOLANT, T_IN).heat_capacity)
    hdr = split_cells(head[-1], meta) if head else []
    want = ['Asm.', 'Name', 'Loc.', '(%s)' % M, '(W)', '(%s)' % L, 'SC', 'Gr*', 'Conv Repr']
    ck.cells += 1
    if hdr != [w_[:meta['w']] for w_ in want]:
        ck.bad('header', 'unit labels of the header', hdr, want, row='header')
    rows = [x for x in body if x is not None and x != 'RULE']
    gap = scn['core']['gap_model'] == 'flow'
    if len(rows) != nasm + (1 if gap else 0):
        ck.bad('rows', 'number of rows', len(rows), nasm + (1 if gap else 0), row='count')
        return _finish(r, c, V, ck.cells, len(rx.z), 'power')
    flows_si, pr_flow, pr_pow = [], [], []
    for i in range(nasm):
        row = rows[i]
        nm, rg, p, _ = scn['assign'][i]
        a = rx.assemblies[i]
        f = dict(asm=i, bc=list(bcs[i])[0])
        ck.text(row[0], str(i + 1), 'row label', row=i, col='Asm.')
        ck.text(row[1], nm, 'assembly name', row=i, col='Name')
        ck.text(row[2], '(%2d,%2d)' % (rg, p), 'ring / position as in the input', row=i, col='Loc.')
        if 'flowrate' in bcs[i]:
            m_si = bcs[i]['flowrate']
            t_est = T_IN + P_own[i] / cp / m_si
        else:
            t_est = bcs[i]['outlet_temp']
            m_si = P_own[i] / cp / (t_est - T_IN)
        flows_si.append(m_si)
        x = ck.num(row[3], m_out(m_si, M), fE, 'flow rate of assembly %d is not the assigned flow (boundary condition %s, '
                   'unit %s)' % (i + 1, list(bcs[i])[0], M), kind='flow', row=i, col='Flow rate', **f)
        pr_flow.append((x, parse_num(row[3], fE)[1]))
        x = ck.num(row[4], P_own[i], fE, 'power of assembly %d is not the exact integral of its power profile x '
                   'normalisation x power_scaling_factor' % (i + 1), kind='power', row=i, col='Power', **f)
        pr_pow.append((x, parse_num(row[4], fE)[1]))
        ck.num(row[5], l_out(float(rx.min_dz['dz'][i]), L), fE, 'dz of assembly %d (unit %s)' % (i + 1, L), kind='dz',
               row=i, col='dz', **f)
        ck.text(row[6], str(rx.min_dz['sc'][i]), 'limiting subchannel code', row=i, col='SC')
        skew_p = _pin_totals(fulls[i])
        pskew = float(max(skew_p) / (sum(skew_p) / len(skew_p))) if sum(skew_p) > 0 else 1.0
        gr = own_grstar(a.rodded, T_IN, t_est, pskew, scn['core']['length'], COOLANT)
        # Gr* is linear in (skew - 1); the skew is max / mean of the pin powers, each a short polynomial sum:
        # round-off of (n_pin + terms) operations of relative size eps shows in Gr* with the slope dGr*/dskew
        slope = abs(own_grstar(a.rodded, T_IN, t_est, 2.0, scn['core']['length'], COOLANT))
        ro = 4.0 * (len(skew_p) + 3 * (len(fulls[i]['cells']) - 1)) * EPS * slope
        g = ck.num(row[7], gr, fE, 'modified Grashof number of assembly %d' % (i + 1), kind='grstar', extra_abs=ro,
                   row=i, col='Gr*', **f)
        if g is not None and abs(gr - 0.02) > 1e-6:
            ck.text(row[8], 'ERROR' if gr >= 0.02 else u'✓', 'forced-convection flag vs Gr* %.3e (limit 0.02)' % gr,
                    kind='flag', row=i, col='Conv Repr')
    if gap:
        row = rows[nasm]
        bf = scn['core']['bypass_fraction']
        gflow = sum(flows_si) * bf / (1.0 - bf)
        ck.text(row[0], omit, 'gap row label', row='gap', col='Asm.')
        ck.text(row[1], 'gap', 'gap row name', row='gap', col='Name')
        for k, nm in ((2, 'Loc.'), (4, 'Power'), (7, 'Gr*'), (8, 'Conv Repr')):
            ck.text(row[k], omit, 'gap row placeholder', kind='placeholder', row='gap', col=nm)
        xg = ck.num(row[3], m_out(gflow, M), fE, 'gap flow rate is not bypass_fraction of the core flow', kind='flow',
                    row='gap', col='Flow rate')
        ck.num(row[5], l_out(float(rx.min_dz['dz'][-1]), L), fE, 'dz of the gap', kind='dz', row='gap', col='dz')
        ck.text(row[6], str(rx.min_dz['sc'][-1]), 'limiting subchannel code of the gap', row='gap', col='SC')
        # printed totals: gap / (gap + assemblies) = bypass fraction
        if xg is not None and all(x is not None for x, _ in pr_flow):
            vals = [xg] + [x for x, _ in pr_flow]
            halves = [parse_num(row[3], fE)[1]] + [h for _, h in pr_flow]
            f0, tol = propagated(lambda v: v[0] / sum(v) - bf, vals, halves)
            ck.cells += 1
            if abs(f0) > tol + REL:
                ck.bad('total-flow', 'printed gap flow / printed core flow != bypass_fraction', f0 + bf, bf, tol + REL,
                       row='total', col='Flow rate')
    if c['total'] is not None and all(x is not None for x, _ in pr_pow):
        want_tot = c['total'] * (c['scaling'] if c['scaling'] is not None else 1.0)
        s = sum(x for x, _ in pr_pow)
        tol = sum(h for _, h in pr_pow) + REL * want_tot
        ck.cells += 1
        if abs(s - want_tot) > tol:
            ck.bad('total-power', 'printed assembly powers do not sum to total_power x power_scaling_factor', s, want_tot,
                   tol, row='total', col='Power')
    return _finish(r, c, V, ck.cells, len(rx.z), 'power')


# ======================================================================
# 3. CoolantFlowTable  (C12)
FLOW_FAMS = {'CTD': ('CTD', 'CTD', 'CTD'), 'UCTD': ('UCTD', 'UCTD', 'UCTD'), 'NOV': ('NOV', 'NOV', 'MIT')}
FLOW_RE = {'lam': 300.0, 'trans': 3000.0, 'turb': 50000.0}
FLOW_GRID = {'corr': 'REH', 'solidity': 0.3, 'axial_positions': [0.03, 0.07]}


def cases_flow(tier):
    out = []
    i = 0
    ringset = (2,) if tier == 'quick' else (2, 3)
    for rings in ringset:
        for fam in ('CTD', 'UCTD', 'NOV'):
            for wire in (True, False):
                if fam == 'NOV' and not wire:
                    continue            # Novendstern: wire-wrapped bundles only
                for grid in (False, True):
                    for ducts in (1, 2):
                        regs = [('lam',), ('trans',), ('turb',), ('lam', 'turb', 'trans'), ('turb', 'trans', 'lam')]
                        if tier == 'quick':
                            regs = regs[:4] if (i % 2) else regs[:3] + regs[4:]
                        for rg in regs:
                            for (L, T, M) in ([units_of(i)] if tier == 'quick' else
                                              [(L_, UT[(i + k) % 3], M_) for k, L_ in enumerate(UL) for M_ in UM]):
                                out.append({'probe': 'report-flow', 'rings': rings, 'fam': fam, 'wire': wire, 'grid': grid,
                                            'ducts': ducts, 'regimes': ','.join(rg), 'L': L, 'T': T, 'M': M})
                            i += 1
    # temperature-dependent coolant (tabulated sodium, ~200 K rise): the notes of the table promise values
    # "for coolant at inlet temperature"
    for k, (L, M) in enumerate((('m', 'kg/s'), ('cm', 'lb/min')) if tier == 'quick' else
                               [(L_, M_) for L_ in UL for M_ in UM]):
        for rg in (('turb',), ('trans', 'turb', 'lam')):
            out.append({'probe': 'report-flow', 'rings': 2, 'fam': 'CTD', 'wire': True, 'grid': False, 'ducts': 1 + k % 2,
                        'regimes': ','.join(rg), 'L': L, 'T': UT[k % 3], 'M': M, 'coolant': 'sodium'})
    return out


def _flow_length(c):
    # the table does not depend on the height; laminar double-duct bundles need sub-millimetre steps
    return 0.02 if 'lam' in c['regimes'] else 0.1


def _flow_design(c):
    Lc = _flow_length(c)
    grid = dict(FLOW_GRID, axial_positions=[round(0.3 * Lc, 6), round(0.7 * Lc, 6)])
    return S.design(c['rings'], ducts=c['ducts'], wire=c['wire'], clearance='tight' if c['wire'] else 'mid',
                    oftf=round(0.026 + 0.012 * c['rings'] + 0.012 * (c['ducts'] - 1), 6), corr=FLOW_FAMS[c['fam']],
                    duct_t=[0.002, 0.003] if c['ducts'] == 2 else 0.0025, byp_t=0.0022,
                    bypass_fraction=0.06 if c['ducts'] > 1 else None, spacer=grid if c['grid'] else None)


def _flow_scenario(c, only=None):
    """only=None: the core of the case; only=k: stand-alone twin of its k-th assembly"""
    dsn = _flow_design(c)
    g = own_geometry(dsn)
    mu = float(_material(COOLANT, T_IN).viscosity)
    bf = dsn.get('bypass_gap_flow_fraction') or 0.0
    cool = c.get('coolant') or COOLANT
    dT = 40.0 if cool == COOLANT else 200.0
    regs = c['regimes'].split(',')
    pos = S.core_positions(2)
    Lc = _flow_length(c)
    assign, pw, flows = [], {}, []
    for i, rg_name in enumerate(regs):
        m_int = FLOW_RE[rg_name] * (1.0 + 0.07 * i) * mu * g['A_b'] / g['De_b']
        flow = float('%.6g' % (m_int / (1.0 - bf)))
        flows.append(flow)
        if only is not None and i != only:
            continue
        rg, p = pos[0] if only is not None else pos[i]
        assign.append(['FA', rg, p, {'flowrate': flow}])
        pw[str(S.asm_id(rg, p) + 1)] = {'rings': c['rings'], 'nduct': c['ducts'], 'cells': [0.0, round(Lc / 2, 6), Lc],
                                        'q': flow * 1272.0 * dT / (g['npin'] * Lc), 'pins': 'tilt',
                                        'axial': ['up', 'down'], 'seed': i}
    scn = {'setup': {}, 'core': {'inlet': T_IN, 'length': Lc, 'pitch': round(max(dsn['duct_ftf']) + 0.004, 6),
                                 'gap_model': 'none', 'bypass_fraction': 0.0, 'coolant': cool},
           'types': {'FA': dsn}, 'assign': assign, 'power': {'asm': pw}}
    return scn, dsn, g, flows


def _flow_state(a):
    ar = a.rodded
    p = ar.coolant_int_params
    st = {'vel': float(p['vel']), 'fs': [float(x) for x in p['fs']], 'swirl': float(p['swirl'][1]),
          'Re': float(p['Re']), 'ff': float(p['ff']), 'eddy': float(p['eddy']), 'byp': None}
    if hasattr(ar, 'coolant_byp_params'):
        st['byp'] = float(ar.coolant_byp_params['vel'][0])
    return st


def run_flow(c):
    r = new_result()
    V = r['violations']
    scn, dsn, g, flows = _flow_scenario(c)
    L, T, M = c['L'], c['T'], c['M']
    out = execute(to_units(scn, L, T, M), c, V, snapshot=lambda rx: [_flow_state(a) for a in rx.assemblies])
    if out is None:
        r['outcome'] = 'rejected'
        return r
    rx = out['rx']
    meta, head, body = get_table(out, c, V, 'flow')
    if body is None:
        r['outcome'] = 'violation'
        return r
    ck = Checker(c, meta, V)
    fm = meta['fmt']
    nasm = len(flows)
    hdr = split_cells(head[-1], meta) if head else []
    want = ['Asm.', 'Name', 'Pos.', 'Avg.', 'Int.', 'Edge', 'Corner', 'Bypass', 'Swirl', 'RE', 'Factor', '(%s^2/s)' % L]
    ck.cells += 1
    if hdr != [w_[:meta['w']] for w_ in want]:
        ck.bad('header', 'column headings', hdr, want, row='header')
    ck.cells += 1
    if not head or ('(%s/s)' % L) not in head[-2]:
        ck.bad('header', 'velocity unit label', head[-2] if head else None, '(%s/s)' % L, row='header')
    rows = [x for x in body if x is not None and x != 'RULE']
    if len(rows) != nasm:
        ck.bad('rows', 'number of rows', len(rows), nasm, row='count')
        return _finish(r, c, V, ck.cells, len(rx.z), 'flow')
    cool = c.get('coolant') or COOLANT
    mat = _material(cool, T_IN)
    rho, mu = float(mat.density), float(mat.viscosity)
    # own velocities / Reynolds numbers use the properties at the INLET temperature (what the notes of the
    # table promise); with a temperature-dependent coolant a mismatch gets its own kind
    const = cool == COOLANT
    kv, kr, km = ('velocity', 'reynolds', 'mass') if const else ('inlet-temperature',) * 3
    # references: the stand-alone twin (its state after set-up is the state at the inlet temperature) and, for
    # the constant-property coolant, also the state this Reactor held when it wrote the table
    srcs = ('stand-alone twin', 'state after set-up') if const else ('stand-alone twin',)
    bf = dsn.get('bypass_gap_flow_fraction') or 0.0
    N, A = g['N'], g['A']
    lu = LEN[L]
    states = 0
    for i in range(nasm):
        row = rows[i]
        rg, p = scn['assign'][i][1], scn['assign'][i][2]
        f = dict(asm=i, regime=c['regimes'].split(',')[i])
        # twin: the same assembly alone in a core (no output written): its correlated state after set-up
        tscn = _flow_scenario(c, only=i)[0]
        with S.Built(tscn) as bt:
            twin = _flow_state(bt.reactor().assemblies[0])
        states += 1
        snap = out['snap'][i]
        m_int = flows[i] * (1.0 - bf)
        v_own = m_int / rho / g['A_b']
        re_own = m_int * g['De_b'] / g['A_b'] / mu
        ck.text(row[0], str(i + 1), 'row label', row=i, col='Asm.')
        ck.text(row[1], 'FA', 'assembly name', row=i, col='Name')
        ck.text(row[2], '(%2d,%2d)' % (rg, p), 'ring / position', row=i, col='Pos.')
        pv = [ck.num(row[3], v_own / lu, fm['f3'], 'average velocity of assembly %d is not its own interior flow / '
                     '(density at inlet temperature x bundle area) (unit %s/s)' % (i + 1, L), kind=kv, row=i, col='Avg.', **f)]
        for k, nm in enumerate(('Int.', 'Edge', 'Corner')):
            for src, st in zip(srcs, (twin, snap)):
                x = ck.num(row[4 + k], v_own * st['fs'][k] / lu, fm['f3'],
                           '%s velocity of assembly %d is not average velocity x its own flow split (%s)'
                           % (nm, i + 1, src), kind='flowsplit' if const else kv, row=i, col=nm, **f)
            pv.append(x)
        if c['ducts'] > 1:
            vb = flows[i] * bf / rho / g['byp_A'][0]['total']
            ck.num(row[7], vb / lu, fm['f3'], 'bypass velocity of assembly %d is not its own bypass flow / (density x '
                   'gap area)' % (i + 1), kind=kv, row=i, col='Bypass', **f)
        else:
            ck.text(row[7], meta['omit'], 'bypass placeholder', kind='placeholder', row=i, col='Bypass')
        for src, st in zip(srcs, (twin, snap)):
            ck.num(row[8], st['swirl'] / lu, fm['f3'], 'swirl velocity of assembly %d (%s)' % (i + 1, src),
                   kind='swirl' if const else kv, row=i, col='Swirl', **f)
            ck.num(row[10], st['ff'], fm['E'], 'friction factor of assembly %d (%s)' % (i + 1, src),
                   kind='friction', row=i, col='Factor', **f)
            ck.num(row[11], st['eddy'] / lu ** 2, fm['f5'], 'eddy diffusivity of assembly %d (%s, unit %s^2/s)'
                   % (i + 1, src, L), kind='eddy' if const else kv, row=i, col='Eddy Df.', **f)
        ck.num(row[9], re_own, fm['f0'], 'bundle Reynolds number of assembly %d is not its own flow x De / (A x '
               'viscosity at inlet temperature)' % (i + 1), kind=kr, row=i, col='RE', **f)
        # printed numbers: area-weighted mean of the printed flow split is one; subchannel flows sum to the bundle flow
        if all(x is not None for x in pv):
            h = 0.5 * 10.0 ** (-_fmt_info(fm['f3'])[0])
            w_ = [N[k] * A[k] for k in range(3)]
            lhs = sum(w_[k] * pv[1 + k] for k in range(3))
            tol = (sum(w_) + g['A_b']) * h
            ck.cells += 1
            if abs(lhs - g['A_b'] * pv[0]) > tol + REL * lhs:
                ck.bad('split-mean', 'area-weighted mean of the printed subchannel velocities != printed average velocity '
                       '(mean flow split %.6f)' % (lhs / (g['A_b'] * pv[0]) if pv[0] else float('nan')),
                       lhs / g['A_b'], pv[0], (tol + REL * lhs) / g['A_b'], row=i, col='flow split', **f)
            mass = rho * lhs * lu
            tolm = rho * sum(w_) * h * lu
            ck.cells += 1
            if abs(mass - m_int) > tolm + REL * m_int:
                ck.bad(km, 'density x sum(N_i A_i v_i printed) != interior flow of assembly %d' % (i + 1), mass, m_int,
                       tolm + REL * m_int, row=i, col='mass', **f)
    return _finish(r, c, V, ck.cells, len(rx.z) + states, 'flow')


# ======================================================================
# recorders shared by the energy-balance and the inter-assembly tables
def own_gap_lengths(core):
    """wetted length of every (assembly, local gap cell) from the published cell
    boundaries by the harness's own interval arithmetic, and the split of every local
    cell over the six hexagon faces: a cell that contains a hexagon vertex is shared by
    the two faces meeting there in proportion to the lengths it covers on each of them
    (= the corner half-lengths of the two faces' own meshes)."""
    hs = core.duct_oftf / SQ3
    per = 6.0 * hs
    nasm = int(core.n_asm)
    wp = np.zeros(core._asm_sc_adj.shape)
    share = np.zeros((nasm, core._asm_sc_adj.shape[1], 6))
    corner_ratio = []
    for a in range(nasm):
        idx = np.where(core._asm_sc_adj[a] > 0)[0]
        xb = [float(x) for x in core._asm_sc_xbnds[a][idx]]
        n = len(idx)
        ratios = []
        for j in range(n):
            x0 = xb[j]
            x1 = xb[j + 1] if j < n - 1 else per + xb[0]
            wp[a, idx[j]] = x1 - x0
            k = int(math.floor(x0 / hs + 1e-9)) + 1          # first vertex at or beyond x0 (+)
            v = k * hs
            if x0 + 1e-12 < v < x1 - 1e-12:
                share[a, idx[j], (k - 1) % 6] = (v - x0) / (x1 - x0)
                share[a, idx[j], k % 6] = (x1 - v) / (x1 - x0)
                ratios.append((v - x0) / (x1 - x0))
            else:
                share[a, idx[j], int(math.floor(0.5 * (x0 + x1) / hs)) % 6] = 1.0
        corner_ratio.append(ratios)
    return wp, share, corner_ratio


class Tally(object):
    """independent accumulation over the sweep.  Per assembly (vf.observe.Recorder wrapped
    round Assembly.calculate): heat generated in the coolant (A), in the duct (B), heat
    through the innermost wall into the bundle coolant (C, film coefficient x wetted length x
    (surface - coolant)), heat from both walls into the bypass coolant (D), heat leaving the
    outer duct on the duct mesh.  Per gap cell (wrapper round Core.calculate_gap_temperatures):
    heat credited by each assembly on the gap mesh with the harness's own wetted lengths."""

    def __init__(self, rx):
        self.rx = rx
        n = len(rx.assemblies)
        self.A = [0.0] * n
        self.B = [0.0] * n
        self.C = [0.0] * n
        self.D = [0.0] * n
        self.Qout = [0.0] * n
        self.scale = [0.0] * n         # accumulated per-step scales (round-off / recomputation reference)
        self.steps = [0] * n
        self.finite = True
        self.rec = O.Recorder(rx, on_record=self._on)
        self.rec.records = _Sink()     # nothing is kept per step
        core = rx.core
        self.gap = core.model is not None
        if self.gap:
            self.wp, self.share, self.corner_ratio = own_gap_lengths(core)
            self.credit = np.zeros(core._asm_sc_adj.shape)
            self.credit_abs = np.zeros(core._asm_sc_adj.shape)
            self.cp_gap = core.gap_coolant.clone()
            orig = core.calculate_gap_temperatures
            me = self

            def calc(dz, t_duct):
                Tg0 = core.coolant_gap_temp.copy()
                td = np.array(t_duct, dtype=float, copy=True)
                orig(dz, t_duct)
                adj = core._asm_sc_adj
                h = core.coolant_gap_params['htc']
                ix = np.maximum(adj, 1) - 1
                cr = np.where(adj > 0, h[ix] * me.wp * dz * (td - Tg0[ix]), 0.0)
                me.credit += cr
                # reference scale: film conductance x 1 K (temperature differences carry round-off ~1e-13 K)
                me.credit_abs += np.maximum(np.abs(cr), np.where(adj > 0, h[ix] * me.wp * dz, 0.0))
                if not np.all(np.isfinite(core.coolant_gap_temp)):
                    me.finite = False
            core.calculate_gap_temperatures = calc

    def _on(self, sr):
        ai = sr['asm']
        q = self.rec._last_power.get(ai) or {}
        self.A[ai] += sr['Qgen']
        if q.get('duct') is not None:
            self.B[ai] += float(np.sum(q['duct'])) * sr['dz']
        self.C[ai] += sr['Qw_int']
        sc = sr['scale']
        for b in sr['byp']:
            self.D[ai] += b['qin'] + b['qout']
            sc += b.get('scale', abs(b['qin']) + abs(b['qout']))
        self.Qout[ai] += sr['Q_out']
        self.scale[ai] += sc + abs(sr['Q_out'])
        self.steps[ai] += 1
        if not sr['finite']:
            self.finite = False


class _Sink(list):
    def append(self, x):
        pass


# core used by both tables: 7 positions, letters -> types with one outer flat-to-flat
CORE_OFTF = 0.05
CORE_L = 0.1


def _core_types(names):
    t = {}
    for nm in names:
        if nm == 'A':
            t[nm] = S.design(2, oftf=CORE_OFTF)
        elif nm == 'B':
            t[nm] = S.design(3, oftf=CORE_OFTF, pd=1.15)
        elif nm == 'C':
            t[nm] = S.design(4, oftf=CORE_OFTF, pd=1.25, clearance='mid')
        elif nm == 'D':
            t[nm] = S.design(2, oftf=CORE_OFTF, ducts=2, duct_t=[0.0015, 0.002], byp_t=0.002, bypass_fraction=0.08)
        elif nm == 'E':
            t[nm] = S.design(3, oftf=CORE_OFTF, ducts=2, duct_t=[0.0015, 0.002], byp_t=0.002, bypass_fraction=0.08)
        elif nm == 'R':
            # the bundle of A between two un-rodded regions (heat crosses the wall in all three)
            t[nm] = S.design(2, oftf=CORE_OFTF, regions={
                'lower': {'z_lo': 0.0, 'z_hi': round(0.3 * CORE_L, 6), 'vf_coolant': 0.3},
                'upper': {'z_lo': round(0.7 * CORE_L, 6), 'z_hi': CORE_L, 'vf_coolant': 0.35, 'model': '6node'}})
        else:
            raise ValueError(nm)
    return t


def _core_scenario(c):
    """c['layout']: letters / '-' per position (centre, then ring 2 [, ring 3]); c['gap'], c['bf']"""
    names = c['layout'].split()
    nring = {1: 1, 7: 2, 19: 3}[len(names)]
    pos = S.core_positions(nring)
    types = _core_types([x for x in dict.fromkeys(names) if x != '-'])
    assign, pw, fulls = [], {}, []
    for i, (nm, (rg, p)) in enumerate(zip(names, pos)):
        if nm == '-':
            continue
        d = types[nm]
        rings, nd = d['num_rings'], len(d['duct_ftf']) // 2
        flow = round(0.45 * (0.8 + 0.09 * (i % 7)), 6)
        # very different powers so that heat really crosses the gap: the position decides the level
        lvl = (2.2, 0.3, 1.4, 0.1, 1.0, 0.5, 1.8)[i % 7]
        spec = {'rings': rings, 'nduct': nd, 'cells': [0.0, round(0.4 * CORE_L, 6), CORE_L],
                'q': 45000.0 * lvl * 7 / S.n_pins(rings), 'pins': ('asym', 'tilt')[i % 2], 'duct': 'asym', 'cool': 'uniform',
                'axial': [('up', 'mid'), ('mid', 'down')][i % 2], 'seed': i, 'order': 2}
        full = S.expand_power(spec, rings, nd)
        fulls.append(full)
        pw[str(S.asm_id(rg, p) + 1)] = full
        assign.append([nm, rg, p, {'flowrate': flow}])
    gm = c.get('gap', 'flow')
    scn = {'setup': {'calc_energy_balance': bool(c.get('ebal', True))},
           'core': {'inlet': T_IN, 'length': CORE_L, 'pitch': round(CORE_OFTF + 0.004, 6), 'gap_model': gm,
                    'bypass_fraction': c.get('bf', 0.05) if gm != 'none' else 0.0, 'coolant': COOLANT},
           'types': types, 'assign': assign, 'power': {'asm': pw}}
    if c.get('dumpgap'):
        # csv dumps of the gap and duct temperatures at every plane (reporting only)
        scn['setup']['Dump'] = {'gap': True, 'duct': True}
    return scn, fulls


# ======================================================================
# 4. AssemblyEnergyBalanceTable  (C01)
EBAL_LAYOUTS_Q = ['A', 'B', 'D', 'E',
                  'A A A A A A A', 'A B A B A A B', 'B A - A D A A', 'D D A - A B A', 'E A A E - A A', 'R A B R A - R']
EBAL_LAYOUTS_T = EBAL_LAYOUTS_Q + ['C', 'C A B A B A B', 'A - - D - - B', '- A A A A A A', 'B B B B B B B',
                                   'A A B - D E C A A B B A - A A D A B A']


def cases_ebal(tier):
    out = []
    i = 0
    lays = EBAL_LAYOUTS_Q if tier == 'quick' else EBAL_LAYOUTS_T
    for lay in lays:
        single = len(lay.split()) == 1
        for gap in (('none', 'flow') if single or tier != 'quick' else ('flow',)):
            for rep in range(3 if tier == 'quick' else 1):
                for (L, T, M) in ([units_of(i)] if tier == 'quick' else all_units()[::2] if not single else all_units()):
                    out.append({'probe': 'report-ebal', 'layout': lay, 'gap': gap, 'bf': 0.05, 'ebal': True,
                                'L': L, 'T': T, 'M': M})
                i += 1
    if tier != 'quick':
        for lay in ('A', 'A B A B A A B'):
            out.append({'probe': 'report-ebal', 'layout': lay, 'gap': 'flow', 'bf': 0.05, 'ebal': False,
                        'L': 'cm', 'T': 'celsius', 'M': 'lb/min'})
    return out


def run_ebal(c):
    r = new_result()
    V = r['violations']
    scn, fulls = _core_scenario(c)
    out = execute(to_units(scn, c['L'], c['T'], c['M']), c, V, record=Tally)
    if out is None:
        r['outcome'] = 'rejected'
        return r
    rx, tl = out['rx'], out['rec']
    meta, head, body = get_table(out, c, V, 'ebal')
    if body is None:
        r['outcome'] = 'violation'
        return r
    ck = Checker(c, meta, V)
    fE = meta['fmt']['E']
    omit = meta['omit']
    nasm = len(rx.assemblies)
    nstep = len(rx.z) - 1
    if not tl.finite or any(s != nstep for s in tl.steps):
        ck.bad('harness', 'recorder saw %s steps of %d / non-finite values' % (tl.steps, nstep))
        return _finish(r, c, V, ck.cells, len(rx.z), 'ebal')
    cp = float(_material(COOLANT, T_IN).heat_capacity)
    hdr = split_cells(head[-1], meta) if head else []
    ck.cells += 1
    if hdr != ['Asm.', 'A', 'B', 'C', 'D', 'E', 'F', 'G', 'SUM', 'ERROR']:
        ck.bad('header', 'column headings', hdr, None, row='header')
    rows = [x for x in body if x is not None]
    labels = [x if x == 'RULE' else x[0] for x in rows]
    want_labels = [str(i + 1) for i in range(nasm)] + ['RULE'] + (['GAP'] if c['ebal'] else []) + ['CORE']
    if labels != want_labels:
        ck.bad('rows', 'row labels', labels, want_labels, row='labels')
        return _finish(r, c, V, ck.cells, len(rx.z), 'ebal')
    comp = [_component_integrals(f) for f in fulls]
    flows = [a[3]['flowrate'] for a in scn['assign']]
    printed = []

    def consistency(row, lab, kind_core=False):
        """SUM and ERROR from the PRINTED columns of the same row"""
        vals, halves = [], []
        for k in range(1, 10):
            x, h = parse_num(row[k], fE)
            if x is None:
                if row[k] == omit:
                    x, h = 0.0, 0.0
                else:
                    return
            vals.append(x)
            halves.append(h)
        if kind_core:
            def fsum(v):
                return v[0] + v[1] - v[4] * v[5] * v[6] - v[7]
        elif lab == 'GAP':
            def fsum(v):
                return v[3] - v[4] * v[5] * v[6] - v[7]
        else:
            def fsum(v):
                return v[0] + v[2] + v[3] - v[4] * v[5] * v[6] - v[7]
        f0, tol = propagated(fsum, vals, halves)
        ck.cells += 1
        if abs(f0) > tol:
            ck.bad('sum-inconsistent', 'row %s: printed SUM is not the balance of the printed columns' % lab, vals[7],
                   vals[7] + f0, tol, row=lab, col='SUM')
        den = vals[3] if lab == 'GAP' else vals[0] + vals[1]
        if den != 0.0:
            def ferr(v):
                d_ = v[3] if lab == 'GAP' else v[0] + v[1]
                return v[7] / d_ - v[8]
            f0, tol = propagated(ferr, vals, halves)
            ck.cells += 1
            if abs(f0) > tol:
                ck.bad('error-inconsistent', 'row %s: printed ERROR is not printed SUM / printed %s'
                       % (lab, 'D' if lab == 'GAP' else '(A + B)'), vals[8], vals[8] + f0, tol, row=lab, col='ERROR')
        return vals

    totA = totB = 0.0
    mdT = 0.0
    for i in range(nasm):
        row = rows[i]
        a = rx.assemblies[i]
        f = dict(asm=i, type=a.name, ducts=int(a.rodded.n_duct))
        ref = tl.scale[i]
        own = {'A': tl.A[i], 'B': tl.B[i], 'C': tl.C[i], 'D': tl.D[i], 'E': flows[i], 'F': cp}
        tm, mt = O.mixed_mean(a.active_region)
        own['G'] = tm - T_IN
        # A, B against the independent accumulation of the recorder, and against the exact integrals of the input
        for k, col in enumerate('ABCDEFG'):
            if not c['ebal'] and col in 'CD':
                ck.text(row[1 + k], omit, 'placeholder without calc_energy_balance', kind='placeholder', row=i, col=col)
                continue
            ro = REL * ref if col in 'ABCD' else (64 * EPS * nstep * (T_IN + abs(own['G'])) if col == 'G' else 0.0)
            ck.num(row[1 + k], own[col], fE, 'column %s of assembly %d is not the independently accumulated value'
                   % (col, i + 1), kind='col-' + col, extra_abs=ro, row=i, col=col, **f)
        exA = float(comp[i]['pins'] + comp[i]['cool'])
        exB = float(comp[i]['duct'])
        if len(a.region) > 1:
            # un-rodded regions book all the power of their planes (wall heating included) with the coolant: the
            # split between A and B is then the recorder's (checked above); what the input fixes is the sum
            exA, exB = float(own['A']), float(own['B'])
            tot_in = float(comp[i]['pins'] + comp[i]['cool'] + comp[i]['duct'])
            ck.cells += 1
            if abs(exA + exB - tot_in) > 1e-9 * abs(tot_in):
                ck.bad('col-AB-input', 'A + B of assembly %d is not the exact integral of its power profiles' % (i + 1),
                       exA + exB, tot_in, 1e-9 * abs(tot_in), row=i, col='A+B', **f)
        else:
            ck.num(row[1], exA, fE, 'column A of assembly %d is not the exact integral of its pin + coolant power profile'
                   % (i + 1), kind='col-A-input', row=i, col='A', **f)
            ck.num(row[2], exB, fE, 'column B of assembly %d is not the exact integral of its duct power profile' % (i + 1),
                   kind='col-B-input', row=i, col='B', **f)
        totA += exA
        totB += exB
        mdT += flows[i] * own['G']
        if not c['ebal']:
            for k, col in ((8, 'SUM'), (9, 'ERROR')):
                ck.text(row[k], omit, 'placeholder without calc_energy_balance', kind='placeholder', row=i, col=col)
            continue
        vals = consistency(row, str(i + 1))
        # the assembly balance closes to round-off for the constant-property coolant: every axial step rounds
        # temperatures of size T (eps T each) carried by m cp, and the tallies add n terms of the size of the heat
        # exchanged per step
        x, _ = parse_num(row[8], fE)
        bound = 4.0 * nstep * EPS * (flows[i] * cp * (T_IN + abs(own['G'])) + abs(own['A']) + abs(own['B'])
                                     + tl.scale[i] / max(nstep, 1))
        ck.cells += 1
        if x is not None and abs(x) > bound:
            ck.bad('imbalance', 'printed SUM of assembly %d exceeds the round-off bound of a closed balance' % (i + 1),
                   row[8], 0.0, bound, row=i, col='SUM', **f)
        own_sum = own['A'] + own['C'] + own['D'] - own['E'] * own['F'] * own['G']
        ck.cells += 1
        if abs(own_sum) > REL * ref:
            ck.bad('own-imbalance', 'independently accumulated A + C + D - E F G of assembly %d does not close'
                   % (i + 1), own_sum, 0.0, REL * ref, row=i, col='SUM', **f)
        printed.append(vals)
    core = rx.core
    bf = scn['core']['bypass_fraction']
    gflow_own = sum(flows) * bf / (1.0 - bf)
    Ggap = 0.0
    if tl.gap:
        area = np.asarray(core.gap_params['area'], dtype=float)
        Ggap = float(np.dot(core.coolant_gap_temp, area) / np.sum(area)) - T_IN
    if c['ebal']:
        row = rows[nasm + 1]
        if tl.gap:
            D_own = float(np.sum(tl.credit))
            D_ref = float(np.sum(tl.credit_abs))
        else:
            D_own, D_ref = 0.0, 0.0
        own = [0.0, 0.0, 0.0, D_own, gflow_own, cp, Ggap]
        for k, col in enumerate('ABCDEFG'):
            ro = REL * D_ref if col == 'D' else (64 * EPS * nstep * (T_IN + abs(Ggap)) if col == 'G' else 0.0)
            ck.num(row[1 + k], own[k], fE, 'GAP row, column %s' % col, kind='gap-' + col, extra_abs=ro, row='GAP', col=col)
        consistency(row, 'GAP')
        if core.model == 'flow':
            x, _ = parse_num(row[8], fE)
            bound = 4.0 * nstep * EPS * (gflow_own * cp * (T_IN + abs(Ggap)) + D_ref / max(nstep, 1)) * max(1, core.n_sc) ** 0.5
            ck.cells += 1
            if x is not None and abs(x) > bound + REL * D_ref:
                ck.bad('imbalance', 'printed SUM of the gap exceeds the bound of a closed balance', row[8], 0.0,
                       bound + REL * D_ref, row='GAP', col='SUM')
    row = rows[-1]
    tot_flow = sum(flows) / (1.0 - bf)
    ck.num(row[1], totA, fE, 'CORE row: A is not the sum of the assemblies', kind='core-A', row='CORE', col='A')
    ck.num(row[2], totB, fE, 'CORE row: B is not the sum of the assemblies', kind='core-B', row='CORE', col='B')
    ck.text(row[3], omit, 'CORE row placeholder', kind='placeholder', row='CORE', col='C')
    ck.text(row[4], omit, 'CORE row placeholder', kind='placeholder', row='CORE', col='D')
    ck.num(row[5], tot_flow, fE, 'CORE row: E is not the core flow (assemblies / (1 - bypass fraction))',
           kind='core-E', row='CORE', col='E')
    ck.num(row[6], cp, fE, 'CORE row: F', kind='core-F', row='CORE', col='F')
    flowing = core.model == 'flow'
    Gc = (mdT + (gflow_own * Ggap if flowing else 0.0)) / (sum(flows) + (gflow_own if flowing else 0.0))
    ck.num(row[7], Gc, fE, 'CORE row: G is not the flow-weighted temperature rise', kind='core-G',
           extra_abs=64 * EPS * nstep * T_IN, row='CORE', col='G')
    consistency(row, 'CORE', kind_core=True)
    return _finish(r, c, V, ck.cells, len(rx.z) * nasm, 'ebal')


# ======================================================================
# 5. InterasmEnergyXferTable  (C02 / C10)
# axial hexagon coordinates (integers): e1 = 3 o'clock, e2 = 1 o'clock
_DIR6 = [(-1, 1), (-1, 0), (0, -1), (1, -1), (1, 0), (0, 1)]      # walking a ring counterclockwise from 3 o'clock
# face k (1..6) looks towards (2k - 1) o'clock: 1, 3, 5, 7, 9, 11
_FACE = [(0, 1), (1, 0), (1, -1), (0, -1), (-1, 0), (-1, 1)]


def hex_coords(ring, pos):
    """axial coordinates of (ring, position), base 1: position 1 of every ring lies at
    3 o'clock of the centre, positions run counterclockwise"""
    if ring == 1:
        return (0, 0)
    q, s = ring - 1, 0
    k = pos - 1
    side, off = divmod(k, ring - 1)
    for sd in range(side):
        q += _DIR6[sd][0] * (ring - 1)
        s += _DIR6[sd][1] * (ring - 1)
    return (q + _DIR6[side][0] * off, s + _DIR6[side][1] * off)


def own_adjacency(assign):
    """per assembly (input order): row number (base 1) of the neighbour across each of the six
    faces, or None"""
    at = {}
    for i, a in enumerate(assign):
        at[hex_coords(a[1], a[2])] = i + 1
    out = []
    for a in assign:
        q, s = hex_coords(a[1], a[2])
        out.append([at.get((q + dq, s + ds)) for dq, ds in _FACE])
    return out


IA_LAYOUTS_Q = [('A A A A A A A', 'flow'), ('A B A B A A B', 'flow'), ('B A - A D A A', 'flow'), ('D D A - A B A', 'flow'),
                ('B A B - - A A', 'flow'), ('A B - - - - -', 'flow'), ('- A B A - B A', 'flow'), ('E A A E - A A', 'flow'),
                ('A B A B A A B', 'no_flow'), ('B A - A D A A', 'duct_average')]
IA_LAYOUTS_T = IA_LAYOUTS_Q + [('C A B A B A B', 'flow'), ('A C - B - A B', 'flow'), ('A', 'flow'), ('B', 'flow'),
                               ('A A B - D E C A A B B A - A A D A B A', 'flow'), ('B A - A D A A', 'no_flow'),
                               ('D D A - A B A', 'duct_average')]


def _rot(lay, k):
    names = lay.split()
    if len(names) != 7 or not k:
        return lay
    ring = names[1:]
    k = k % 6
    return ' '.join([names[0]] + ring[-k:] + ring[:-k])


def cases_interasm(tier):
    out = []
    i = 0
    if tier == 'quick':
        for lay, gm in IA_LAYOUTS_Q:
            for rot in (range(6) if gm == 'flow' and len(set(lay.split())) > 1 else (0, 1)):
                L, T, M = units_of(i)
                out.append({'probe': 'report-interasm', 'layout': _rot(lay, rot), 'gap': gm, 'bf': 0.05, 'ebal': True,
                            'L': L, 'T': T, 'M': M})
                i += 1
    else:
        for lay, gm in IA_LAYOUTS_T:
            for rot in (range(6) if len(lay.split()) == 7 else (0,)):
                for bf in ((0.05, 0.01) if gm == 'flow' and len(lay.split()) == 7 else (0.05,)):
                    for L in UL:
                        out.append({'probe': 'report-interasm', 'layout': _rot(lay, rot), 'gap': gm, 'bf': bf,
                                    'ebal': True, 'L': L, 'T': UT[i % 3], 'M': UM[i % 2]})
                        i += 1
    # the same with the gap temperatures dumped at every plane
    for lay, gm in (IA_LAYOUTS_Q if tier == 'quick' else IA_LAYOUTS_T):
        if gm == 'flow' and len(set(lay.split()) - {'-'}) > 1:
            L, T, M = units_of(i)
            out.append({'probe': 'report-interasm', 'layout': lay, 'gap': gm, 'bf': 0.05, 'ebal': True,
                        'L': L, 'T': T, 'M': M, 'dumpgap': True})
            i += 1
    return out


def run_interasm(c):
    r = new_result()
    V = r['violations']
    scn, fulls = _core_scenario(c)
    out = execute(to_units(scn, c['L'], c['T'], c['M']), c, V, record=Tally)
    if out is None:
        r['outcome'] = 'rejected'
        return r
    rx, tl = out['rx'], out['rec']
    meta, head, body = get_table(out, c, V, 'interasm')
    if body is None:
        r['outcome'] = 'violation'
        return r
    ck = Checker(c, meta, V)
    fE, fP = meta['fmt']['E'], meta['fmt']['P']
    nasm = len(rx.assemblies)
    nstep = len(rx.z) - 1
    if not tl.finite or any(s != nstep for s in tl.steps) or not tl.gap:
        ck.bad('harness', 'recorder saw %s steps of %d / non-finite values / no gap' % (tl.steps, nstep))
        return _finish(r, c, V, ck.cells, len(rx.z), 'interasm')
    hdr = split_cells(head[-1], meta) if head else []
    ck.cells += 1
    if hdr != ['Asm.', 'Power (W)'] + ['Face %d' % k for k in range(1, 7)]:
        ck.bad('header', 'column headings', hdr, None, row='header')
    rows = [x for x in body if x is not None and x != 'RULE']
    if [x[0] for x in rows] != [str(i + 1) for i in range(nasm)]:
        ck.bad('rows', 'row labels', [x[0] for x in rows], nasm, row='labels')
        return _finish(r, c, V, ck.cells, len(rx.z), 'interasm')
    adj = own_adjacency(scn['assign'])
    # the harness's own positions must be those DASSH publishes for the assemblies (trusted base of the face key)
    xy = rx.core.map_assembly_xy()
    for i, a in enumerate(scn['assign']):
        q, s = hex_coords(a[1], a[2])
        mine = (rx.core.asm_pitch * (q + 0.5 * s), rx.core.asm_pitch * SQ3 / 2.0 * s)
        if math.hypot(mine[0] - xy[i][0], mine[1] - xy[i][1]) > 1e-9:
            ck.bad('harness', 'own hexagon coordinates differ from Core.map_assembly_xy for assembly %d' % (i + 1),
                   list(xy[i]), list(mine))
    P_own, _ = own_powers(fulls, None, None)
    # own perimeter integration: heat gained by the assembly through each face = - credit to the gap
    face_own = -np.einsum('aj,ajk->ak', tl.credit, tl.share)
    face_ref = np.einsum('aj,ajk->ak', tl.credit_abs, tl.share)
    mixed = 0
    tot_printed, tot_half = 0.0, 0.0
    for i in range(nasm):
        row = rows[i]
        a = rx.assemblies[i]
        uneven = any(abs(x - 0.5) > 1e-6 for x in tl.corner_ratio[i])
        mixed += int(uneven)
        f = dict(asm=i, type=a.name, uneven_corners=uneven)
        ck.num(row[1], P_own[i], fP, 'power of assembly %d is not the exact integral of its power profile' % (i + 1),
               kind='power', row=i, col='Power', **f)
        s_print, s_half = 0.0, 0.0
        ok = True
        for k in range(6):
            m = re.match(r'^(\S+) \((\d{3}|%s)\)$' % re.escape(meta['omit']), row[2 + k])
            ck.cells += 1
            if not m:
                ck.bad('format', 'face cell is not "<value> (<id>)"', row[2 + k], None, row=i, col='Face %d' % (k + 1), **f)
                ok = False
                continue
            want_id = meta['omit'] if adj[i][k] is None else '%03d' % adj[i][k]
            if m.group(2) != want_id:
                ck.bad('adjacent-id', 'assembly %d, face %d (%d o\'clock): the adjacent assembly printed is not the one '
                       'that sits there' % (i + 1, k + 1, 2 * k + 1), m.group(2), want_id, None, row=i,
                       col='Face %d' % (k + 1), **f)
            x = ck.num(m.group(1), float(face_own[i, k]), fE, 'assembly %d, face %d: printed power is not the heat '
                       'received through that face (own integration over the gap cells of the face, corner cells shared '
                       'by the corner half-lengths of the two faces)' % (i + 1, k + 1), kind='face',
                       extra_abs=REL * float(face_ref[i, k]), row=i, col='Face %d' % (k + 1), **f)
            if x is None:
                ok = False
            else:
                s_print += x
                s_half += parse_num(m.group(1), fE)[1]
        if ok:
            # face total = - heat lost through the outer duct, accumulated on the DUCT mesh by the assembly recorder
            tol = s_half + REL * tl.scale[i]
            ck.cells += 1
            if abs(s_print + tl.Qout[i]) > tol:
                ck.bad('face-total', 'assembly %d: the six printed face powers do not add up to the heat that crossed its '
                       'outer duct wall (duct-mesh integration)' % (i + 1), s_print, -tl.Qout[i], tol, row=i, col='total', **f)
            tot_printed += s_print
            tot_half += s_half
        else:
            tot_half = None
            break
    # cross-table: all printed face powers = - heat received by the gap coolant (GAP row, column D of the balance table)
    if tot_half is not None:
        em = table_meta('ebal')
        sec = section(out['text'], em['title'])
        body_e = table_rows(sec, em)[1] if sec else None
        gap_row = [x for x in (body_e or []) if x not in (None, 'RULE') and x[0] == 'GAP']
        if gap_row:
            x, h = parse_num(gap_row[0][4], em['fmt']['E'])
            ck.cells += 1
            if x is None or abs(tot_printed + x) > tot_half + h + REL * float(np.sum(tl.credit_abs)):
                ck.bad('gap-total', 'sum of all printed face powers != - heat received by the gap coolant printed in the '
                       'energy-balance table (GAP, D)', tot_printed, None if x is None else -x,
                       None if x is None else tot_half + h, row='total', col='total')
        if rx.core.model == 'flow':
            # gap coolant enthalpy rise = heat credited by all ducts (conduction between gap cells only moves heat)
            core = rx.core
            cpg = float(_material(COOLANT, T_IN).heat_capacity)
            area = np.asarray(core.gap_params['area'], dtype=float)
            dH = float(core.gap_flow_rate) * cpg * (float(np.dot(core.coolant_gap_temp, area) / np.sum(area)) - T_IN)
            ref = float(np.sum(tl.credit_abs))
            ck.cells += 1
            if abs(dH - float(np.sum(tl.credit))) > REL * ref + 64 * EPS * nstep * float(core.gap_flow_rate) * cpg * T_IN:
                ck.bad('gap-enthalpy', 'heat credited to the gap by all faces != enthalpy rise of the gap coolant',
                       float(np.sum(tl.credit)), dH, REL * ref, row='total', col='gap')
    r = _finish(r, c, V, ck.cells, len(rx.z) * nasm, 'interasm')
    r['extra']['assemblies_with_uneven_corner_shares'] = mixed
    r['extra']['layouts_with_vacancy'] = int('-' in c['layout'].split())
    return r


# ======================================================================
# 6. csv dumps of the sweep ([Setup][[Dump]])  (C01 / C11 / C13 / C02 / C14 / C15)
USYS = (('m', 'kelvin', 'kg/s'), ('cm', 'celsius', 'kg/s'), ('in', 'fahrenheit', 'lb/min'))
DUMP_FLAGS = ('coolant', 'duct', 'pins', 'gap', 'gap_fine', 'average', 'maximum', 'pressure_drop')
DUMP_L = 0.1
FUELMODEL = {'clad_material': 'ht9_se2anl_425', 'gap_material': 'sodium_se2anl_425', 'gap_thickness': 0.0,
             'r_frac': [0.0, 0.33333, 0.66667], 'pu_frac': [0.2, 0.2, 0.2], 'zr_frac': [0.1, 0.1, 0.1],
             'porosity': [0.1, 0.1, 0.1]}
PINMODEL = {'clad_material': 'ht9_se2anl_425', 'r_frac': [0.0, 0.33333, 0.66667],
            'pin_material': ['ox1', 'ox2', 'ox3'], 'gap_material': 'sodium_se2anl_425', 'gap_thickness': 0.0001}
PINMATS = {'ox1': {'thermal_conductivity': 3.0}, 'ox2': {'thermal_conductivity': 4.0},
           'ox3': {'thermal_conductivity': 5.0}}
# pin table columns as documented in region_rodded.make / dassh.plot._pin_cols
PINCOL = {'coolant_pin': 3, 'clad_od': 4, 'clad_mw': 5, 'clad_id': 6, 'fuel_od': 7, 'fuel_cl': 8}
INTERVALS = {'none': None, 'odd': 0.013, 'big': 0.25}


def _dump_types(names):
    """F: 2 rings + FuelModel; Q: 3 rings + PinModel (other duct mesh); D: double duct, flowing bypass;
    M: un-rodded regions below (simple) and above (6-node) a 2-ring bundle; P: plain 3-ring bundle"""
    t = {}
    for nm in names:
        if nm == 'F':
            t[nm] = S.design(2, oftf=CORE_OFTF, fuelmodel=copy.deepcopy(FUELMODEL))
        elif nm == 'Q':
            t[nm] = S.design(3, oftf=CORE_OFTF, pd=1.15, pinmodel=copy.deepcopy(PINMODEL))
        elif nm == 'D':
            t[nm] = S.design(2, oftf=CORE_OFTF, ducts=2, duct_t=[0.0015, 0.002], byp_t=0.002, bypass_fraction=0.08)
        elif nm == 'M':
            t[nm] = S.design(2, oftf=CORE_OFTF,
                             regions={'lower': {'z_lo': 0.0, 'z_hi': 0.025, 'vf_coolant': 0.3},
                                      'upper': {'z_lo': 0.075, 'z_hi': DUMP_L, 'vf_coolant': 0.35, 'model': '6node'}})
        elif nm == 'P':
            t[nm] = S.design(3, oftf=CORE_OFTF, pd=1.25)
        else:
            raise ValueError(nm)
    return t


def _dump_scenario(c, tables=None):
    names = c['layout'].split()
    nring = {1: 1, 7: 2}[len(names)]
    pos = S.core_positions(nring)
    types = _dump_types([x for x in dict.fromkeys(names) if x != '-'])
    assign, pw = [], {}
    cells = [0.0, 0.04, DUMP_L]
    for i, (nm, (rg, p)) in enumerate(zip(names, pos)):
        if nm == '-':
            continue
        d = types[nm]
        rings, nd = d['num_rings'], len(d['duct_ftf']) // 2
        lvl = (1.6, 0.4, 1.2, 0.2, 1.0, 0.6, 1.4)[i % 7]
        assign.append([nm, rg, p, {'flowrate': round(0.4 + 0.03 * i, 6)}])
        pw[str(S.asm_id(rg, p) + 1)] = {'rings': rings, 'nduct': nd, 'cells': cells,
                                        'q': 30000.0 * lvl * 7 / S.n_pins(rings), 'pins': 'asym', 'duct': 'uniform',
                                        'cool': 'uniform', 'axial': ['up', 'mid'], 'seed': i, 'order': 2}
    setup = {}
    if c.get('flags') is not None:
        dump = {}
        if c['flags'] == 'all':
            dump['all'] = True
        else:
            for k in c['flags'].split(','):
                dump[k] = True
        if INTERVALS[c.get('interval', 'none')] is not None:
            dump['interval'] = INTERVALS[c['interval']]
        setup['Dump'] = dump
    if c.get('planes'):
        setup['axial_plane'] = [float(x) for x in c['planes'].split(',')]
    if tables:
        setup['AssemblyTables'] = tables
    gm = c.get('gap', 'flow')
    scn = {'setup': setup, 'materials': copy.deepcopy(PINMATS) if 'Q' in types else None,
           'core': {'inlet': T_IN, 'length': DUMP_L, 'pitch': round(CORE_OFTF + 0.004, 6), 'gap_model': gm,
                    'bypass_fraction': 0.05 if gm != 'none' else 0.0, 'coolant': COOLANT},
           'types': types, 'assign': assign, 'power': {'asm': pw}}
    bounds = set(cells)
    for d in types.values():
        for reg in (d.get('AxialRegion') or {}).values():
            bounds.update([reg['z_lo'], reg['z_hi']])
    bounds.update(setup.get('axial_plane') or [])
    return scn, sorted(bounds)


class FieldRecorder(object):
    """copies the in-memory fields of every assembly after every Assembly.calculate and the gap
    coolant field after every Core.calculate_gap_temperatures (one entry per axial plane)"""

    def __init__(self, rx):
        self.rx = rx
        self.asm = [[] for _ in rx.assemblies]
        self.gap = []
        self.inlet = []
        for ai, a in enumerate(rx.assemblies):
            self.inlet.append(self._fields(a, None))
            self._wrap(ai, a)
        core = rx.core
        if core.model is not None:
            orig = core.calculate_gap_temperatures
            me = self

            def calc(dz, t_duct):
                orig(dz, t_duct)
                me.gap.append(np.array(core.coolant_gap_temp, dtype=float, copy=True))
            core.calculate_gap_temperatures = calc

    @staticmethod
    def _fields(a, t_gap):
        reg = a.active_region
        f = {'z': float(a.z), 'ridx': int(a.active_region_idx), 'rodded': bool(reg.is_rodded),
             'cool': np.array(reg.temp['coolant_int'], dtype=float, copy=True),
             'duct': np.array(reg.temp['duct_mw'], dtype=float, copy=True),
             'byp': np.array(reg.temp['coolant_byp'], dtype=float, copy=True) if 'coolant_byp' in reg.temp else None,
             'pins': None, 't_gap': None if t_gap is None else np.array(t_gap, dtype=float, copy=True)}
        if hasattr(reg, 'pin_model'):
            p = np.array(reg.pin_temps, dtype=float, copy=True)
            p[:, 1] = f['z']                 # the height column is filled in on access in dassh
            f['pins'] = p
        # own averages: mass-flow weighted coolant (areas x flow split), area weighted duct walls
        if reg.is_rodded:
            m = O.sc_mass_flows(reg)
            f['avg_int'] = float(np.dot(m, f['cool']) / np.sum(m))
            f['nsc'] = len(m)
        else:
            f['avg_int'] = float(np.mean(f['cool']))
            f['nsc'] = len(f['cool'])
        f['avg_all'] = float(O.mixed_mean(reg)[0])
        f['avg_byp'] = None
        if f['byp'] is not None and reg.is_rodded and np.sum(reg.byp_flow_rate) > 0:
            mb = O.byp_mass_flows(reg)
            f['avg_byp'] = [float(np.dot(mb[i], f['byp'][i]) / np.sum(mb[i])) for i in range(len(mb))]
        aw = np.asarray(reg.area['duct_mw'], dtype=float)
        f['avg_duct'] = [float(np.dot(f['duct'][i], aw[i]) / np.sum(aw[i])) for i in range(f['duct'].shape[0])]
        f['dp'] = float(sum(float(x.pressure_drop) for x in a.region))
        f['dp_parts'] = {k: float(sum(float(x._pressure_drop.get(k, 0.0)) for x in a.region))
                         for k in ('friction', 'spacer_grid', 'gravity')}
        return f

    def _wrap(self, ai, a):
        orig = a.calculate
        me = self

        def calc(dz, t_gap, h_gap, *args, **kw):
            orig(dz, t_gap, h_gap, *args, **kw)
            me.asm[ai].append(me._fields(a, t_gap))
        a.calculate = calc


def expected_dump_planes(zs, interval, bounds):
    """plane indices (1-based along zs[1:]) the interval rule promises: every plane without an interval;
    otherwise the first plane at which the distance swept since the last interval dump reaches the interval
    (9 decimals, as documented by the rounding in the code), and every mandatory plane (power-cell and
    region boundaries, requested axial planes, core end)"""
    out = []
    acc = 0.0
    bset = [round(b, 12) for b in bounds]
    for k in range(1, len(zs)):
        acc += zs[k] - zs[k - 1]
        if interval is None:
            out.append(k)
        elif round(acc, 9) >= interval:
            out.append(k)
            acc = 0.0
        elif any(abs(zs[k] - b) <= 1e-12 for b in bset):
            out.append(k)
    return out


def parse_csv(text):
    rows = []
    for ln in text.split('\n'):
        if ln.strip() == '':
            continue
        rows.append([float(x) for x in ln.split(',')])
    return rows


DUMP_FILES = {'coolant': ['temp_coolant_int.csv'], 'duct': ['temp_duct_mw.csv'], 'pins': ['temp_pin.csv'],
              'gap': ['temp_coolant_gap.csv'], 'gap_fine': ['temp_coolant_gap_finemesh.csv'],
              'average': ['temp_average.csv'], 'maximum': ['temp_maximum.csv'], 'pressure_drop': ['pressure_drop.csv']}
DUMP_PROP = {'temp_coolant_int.csv': 'C01', 'temp_coolant_byp.csv': 'C01', 'temp_duct_mw.csv': 'C11',
             'temp_pin.csv': 'C13', 'temp_coolant_gap.csv': 'C02', 'temp_coolant_gap_finemesh.csv': 'C02',
             'temp_coolant_gap_fine.csv': 'C02', 'temp_average.csv': 'C15', 'temp_maximum.csv': 'C15',
             'pressure_drop.csv': 'C14'}


class CsvChecker(object):
    def __init__(self, c, V):
        self.c = c
        self.V = V
        self.cells = 0
        self.seen = set()

    def bad(self, kind, fname, what, obs=None, exp=None, tol=None, site='assembly.py:Assembly.write', **fields):
        key = (kind, fname)
        if key in self.seen:
            return
        self.seen.add(key)
        self.V.append(violation('report-dumps-' + kind, dict(self.c, file=fname, prop=DUMP_PROP.get(fname, 'C15'), **fields),
                                '%s: %s' % (fname, what), obs, exp, tol, site=site))

    def rows(self, fname, got, want, labels, kind='row', tol=None, site='assembly.py:Assembly.write'):
        """got / want: lists of float rows in file order; labels: (plane, asm, ...) per expected row"""
        if len(got) != len(want):
            self.bad(kind + '-count', fname, 'number of rows', len(got), len(want), site=site)
        for i in range(min(len(got), len(want))):
            g, w = got[i], want[i]
            self.cells += len(w)
            if len(g) != len(w):
                self.bad(kind + '-width', fname, 'row %d %s: number of columns' % (i, labels[i]), len(g), len(w), site=site)
                return
            for j in range(len(w)):
                t = 0.0 if tol is None else tol[i][j]
                if not (abs(g[j] - w[j]) <= t):
                    what = {0: 'assembly id', 1: 'height', 2: 'region index'}.get(j, 'value')
                    self.bad(kind + ('-id' if j == 0 else '-height' if j == 1 else ''), fname,
                             'row %d %s, column %d (%s) is not the recorded %s of that assembly at that plane'
                             % (i, labels[i], j, what, what), g[j], w[j], t, site=site, column=j)
                    return


def cases_dumps(tier):
    out = []
    single = ['F', 'Q', 'D', 'M']
    cores = ['F Q D M - F Q', 'Q - D F M P -', 'P P P P P P P']
    i = 0

    def add(layout, flags, interval, planes=None, gap='flow'):
        L, T, M = USYS[len(out) % 3]
        out.append({'probe': 'report-dumps', 'layout': layout, 'flags': flags, 'interval': interval, 'planes': planes,
                    'gap': gap, 'L': L, 'T': T, 'M': M})
    if tier == 'quick':
        for lay in single + cores[:2]:
            for iv in ('none', 'odd', 'big'):
                add(lay, 'all', iv, '0.0333' if iv != 'none' else None)
        for k, fl in enumerate(DUMP_FLAGS):
            add(single[k % 4], fl, ('none', 'odd')[k % 2])
            add(cores[k % 2], fl, ('odd', 'none', 'big')[k % 3], '0.0333,0.0612')
        add('F', ','.join(DUMP_FLAGS), 'none')
        add(cores[0], ','.join(DUMP_FLAGS), 'odd', '0.05')
        add('F', 'all', 'odd', None, 'none')
        add(cores[2], 'coolant,average', 'none')
    else:
        for lay in single + cores:
            for iv in INTERVALS:
                for planes in (None, '0.0333', '0.0333,0.0612'):
                    for u in range(3):
                        add(lay, 'all', iv, planes)
                        out[-1]['L'], out[-1]['T'], out[-1]['M'] = USYS[u]
        for fl in DUMP_FLAGS + (','.join(DUMP_FLAGS), 'coolant,pins', 'duct,gap', 'average,maximum'):
            for lay in single + cores[:2]:
                for iv in INTERVALS:
                    add(lay, fl, iv, '0.0333')
        for lay in ('F', cores[0]):
            for iv in INTERVALS:
                add(lay, 'all', iv, None, 'none')
    return out


def _pad(vals, width):
    return list(vals) + [0.0] * (width - len(vals))


def run_dumps(c):
    import dassh
    r = new_result()
    V = r['violations']
    scn, bounds = _dump_scenario(c)
    out = execute(to_units(scn, c['L'], c['T'], c['M']), c, V, record=FieldRecorder, keep_csv=True)
    if out is None or out.get('aborted'):
        r['outcome'] = 'rejected'
        return r
    rx, rec, files = out['rx'], out['rec'], out['csv']
    ck = CsvChecker(c, V)
    nasm = len(rx.assemblies)
    zs = [float(x) for x in rx.z]
    nstep = len(zs) - 1
    if any(len(x) != nstep for x in rec.asm) or (rx.core.model is not None and len(rec.gap) != nstep):
        ck.bad('harness', '-', 'recorder saw %s planes of %d' % ([len(x) for x in rec.asm], nstep))
        return _finish(r, c, V, 0, nstep, 'dumps')
    flags = list(DUMP_FLAGS) if c['flags'] == 'all' else c['flags'].split(',')
    interval = INTERVALS[c['interval']]
    planes = expected_dump_planes(zs, interval, bounds)
    ids = [S.asm_id(a[1], a[2]) for a in scn['assign']]
    any_byp = any(len(d['duct_ftf']) > 2 for d in scn['types'].values())
    # ---- the set of files
    want_files = []
    for fl in flags:
        want_files += DUMP_FILES[fl]
        if fl == 'coolant' and any_byp:
            want_files.append('temp_coolant_byp.csv')
    if 'gap_fine' in flags and 'temp_coolant_gap_finemesh.csv' not in files and 'temp_coolant_gap_fine.csv' in files:
        msg = [m for m in out['log'] if 'fine mesh' in m]
        ck.bad('file-name', 'temp_coolant_gap_fine.csv', 'the run announces "temp_coolant_gap_finemesh.csv" for the '
               'fine-mesh gap temperatures but writes another file name', 'temp_coolant_gap_fine.csv',
               msg[0] if msg else 'temp_coolant_gap_finemesh.csv', site='reactor.py:_data_setup')
        want_files[want_files.index('temp_coolant_gap_finemesh.csv')] = 'temp_coolant_gap_fine.csv'
    got_files = sorted(files)
    ck.cells += len(want_files)
    if got_files != sorted(want_files):
        ck.bad('file-set', '-', 'csv files written are not those the [[Dump]] flags ask for', got_files, sorted(want_files),
               site='reactor.py:_data_setup')
    tz = 1e-12        # plane heights are rounded to 12 decimals by the solver

    def tols(rows, rel_from=None):
        out_ = []
        for w in rows:
            t = [0.0] * len(w)
            t[1] = tz
            if rel_from is not None:
                for j in range(rel_from, len(w)):
                    t[j] = 256 * EPS * abs(w[j])      # own averages: sums of <= 64 products (4 n eps)
            out_.append(t)
        return out_

    def per_asm(build, width):
        want, labels = [], []
        for k in planes:
            for ai in range(nasm):
                f = rec.asm[ai][k - 1]
                for sub, vals in build(ai, f, k):
                    want.append(_pad([float(ids[ai]), zs[k], float(f['ridx'])] + vals, width))
                    labels.append('(plane %d z=%.6f, assembly %d%s)' % (k, zs[k], ai + 1, sub))
        return want, labels
    allf = [f for x in rec.asm for f in x]
    # ---- interior coolant
    if 'temp_coolant_int.csv' in files:
        w = 3 + max(len(f['cool']) for f in allf)
        want, lab = per_asm(lambda ai, f, k: [('', [float(x) for x in f['cool']])], w)
        ck.rows('temp_coolant_int.csv', parse_csv(files['temp_coolant_int.csv']), want, lab, tol=tols(want))
    if 'temp_duct_mw.csv' in files:
        w = 4 + max(f['duct'].shape[1] for f in allf)
        want, lab = per_asm(lambda ai, f, k: [(' wall %d' % i, [float(i)] + [float(x) for x in f['duct'][i]])
                                              for i in range(f['duct'].shape[0])], w)
        ck.rows('temp_duct_mw.csv', parse_csv(files['temp_duct_mw.csv']), want, lab, tol=tols(want))
    if 'temp_coolant_byp.csv' in files:
        w = 4 + max([f['byp'].shape[1] for f in allf if f['byp'] is not None] or [0])
        want, lab = per_asm(lambda ai, f, k: [] if f['byp'] is None else
                            [(' gap %d' % i, [float(i)] + [float(x) for x in f['byp'][i]])
                             for i in range(f['byp'].shape[0])], w)
        ck.rows('temp_coolant_byp.csv', parse_csv(files['temp_coolant_byp.csv']), want, lab, tol=tols(want))
    if 'temp_pin.csv' in files:
        want, lab = [], []
        for k in planes:
            for ai in range(nasm):
                f = rec.asm[ai][k - 1]
                if f['pins'] is None:
                    continue
                for row in f['pins']:
                    rw = [float(x) for x in row]
                    rw[0], rw[1] = float(ids[ai]), zs[k]
                    want.append(rw)
                    lab.append('(plane %d z=%.6f, assembly %d, pin %d)' % (k, zs[k], ai + 1, int(row[2])))
                if any(float(x) != float(ids[ai]) for x in f['pins'][:, 0]):
                    ck.bad('row-id', 'temp_pin.csv', 'pin table of assembly %d in memory carries another id' % (ai + 1),
                           float(f['pins'][0, 0]), float(ids[ai]), site='assembly.py:Assembly.clone')
        ck.rows('temp_pin.csv', parse_csv(files['temp_pin.csv']), want, lab, tol=tols(want), site='assembly.py:pin_temp_array')
    if 'temp_average.csv' in files:
        def avg(ai, f, k):
            v = [f['avg_int'], 0.0 if f['avg_byp'] is None else f['avg_byp'][0], f['avg_all'], f['avg_duct'][0],
                 f['avg_duct'][-1], 0.0, 0.0]
            if f['pins'] is not None:
                v[5] = float(np.mean(f['pins'][:, PINCOL['clad_mw']]))
                v[6] = float(np.mean(f['pins'][:, PINCOL['fuel_cl']]))
            return [('', v)]
        want, lab = per_asm(avg, 10)
        got = parse_csv(files['temp_average.csv'])
        # classify two column-specific mismatches before the generic comparison
        for g, w_, lb in zip(got, want, lab):
            if len(g) == 10 and w_[4] != 0.0 and g[4] == 0.0:
                ck.bad('average-bypass-empty', 'temp_average.csv', 'row %s: column 4 (between the interior-coolant and '
                       'the overall coolant average) is 0 although the assembly has a flowing bypass gap' % lb, g[4], w_[4])
                for w2 in want:
                    w2[4] = 0.0
                break
        for g, w_, lb in zip(got, want, lab):
            if len(g) == 10 and w_[8] != 0.0 and abs(g[8] - w_[8]) > 256 * EPS * w_[8]:
                ai = int(lb.split('assembly ')[1].rstrip(')')) - 1
                k = int(lb.split('plane ')[1].split()[0])
                f = rec.asm[ai][k - 1]
                alt = {nm: float(np.mean(f['pins'][:, col])) for nm, col in PINCOL.items()}
                hit = [nm for nm, x in alt.items() if abs(g[8] - x) <= 256 * EPS * x]
                ck.bad('average-clad-column', 'temp_average.csv', 'row %s: column 8 is documented in Assembly.write as the '
                       'average clad MID-WALL temperature; it equals the mean of %s' % (lb, hit or 'no pin column'),
                       g[8], w_[8], 256 * EPS * w_[8], pin_column=(hit or ['?'])[0])
                if hit:
                    for w2, lb2 in zip(want, lab):
                        a2 = int(lb2.split('assembly ')[1].rstrip(')')) - 1
                        k2 = int(lb2.split('plane ')[1].split()[0])
                        f2 = rec.asm[a2][k2 - 1]
                        if f2['pins'] is not None:
                            w2[8] = float(np.mean(f2['pins'][:, PINCOL[hit[0]]]))
                break
        ck.rows('temp_average.csv', got, want, lab, kind='average', tol=tols(want, 3))
    if 'temp_maximum.csv' in files:
        def mx(ai, f, k):
            v = [float(np.max(f['cool'])), float(np.max(f['duct'])), 0.0, 0.0]
            if f['pins'] is not None:
                v[2] = float(np.max(f['pins'][:, PINCOL['clad_mw']]))
                v[3] = float(np.max(f['pins'][:, PINCOL['fuel_cl']]))
            return [('', v)]
        want, lab = per_asm(mx, 7)
        got = parse_csv(files['temp_maximum.csv'])
        for g, w_, lb in zip(got, want, lab):
            ai = int(lb.split('assembly ')[1].rstrip(')')) - 1
            k = int(lb.split('plane ')[1].split()[0])
            f = rec.asm[ai][k - 1]
            if len(g) == 7 and g[4] != w_[4] and g[4] == float(np.max(f['duct'][0])):
                ck.bad('maximum-duct-inner-wall-only', 'temp_maximum.csv', 'row %s: the duct column holds the maximum of the '
                       'innermost wall only; another wall of the assembly is hotter' % lb, g[4], w_[4])
                for w2, lb2 in zip(want, lab):
                    a2 = int(lb2.split('assembly ')[1].rstrip(')')) - 1
                    k2 = int(lb2.split('plane ')[1].split()[0])
                    w2[4] = float(np.max(rec.asm[a2][k2 - 1]['duct'][0]))
                break
        for g, w_, lb in zip(got, want, lab):
            ai = int(lb.split('assembly ')[1].rstrip(')')) - 1
            k = int(lb.split('plane ')[1].split()[0])
            f = rec.asm[ai][k - 1]
            if len(g) == 7 and f['pins'] is not None and g[5] != w_[5]:
                hit = [nm for nm, col in PINCOL.items() if g[5] == float(np.max(f['pins'][:, col]))]
                ck.bad('maximum-clad-column', 'temp_maximum.csv', 'row %s: column 5 is documented in Assembly.write as the '
                       'maximum clad MID-WALL temperature; it equals the maximum of %s' % (lb, hit or 'no pin column'),
                       g[5], w_[5], 0.0, pin_column=(hit or ['?'])[0])
                if hit:
                    for w2, lb2 in zip(want, lab):
                        a2 = int(lb2.split('assembly ')[1].rstrip(')')) - 1
                        k2 = int(lb2.split('plane ')[1].split()[0])
                        f2 = rec.asm[a2][k2 - 1]
                        if f2['pins'] is not None:
                            w2[5] = float(np.max(f2['pins'][:, PINCOL[hit[0]]]))
                break
        ck.rows('temp_maximum.csv', got, want, lab, kind='maximum', tol=tols(want))
    if 'pressure_drop.csv' in files:
        want, lab = per_asm(lambda ai, f, k: [('', [f['dp'], f['dp_parts']['friction'], f['dp_parts']['spacer_grid'],
                                                    f['dp_parts']['gravity']])], 7)
        got = parse_csv(files['pressure_drop.csv'])
        ck.rows('pressure_drop.csv', got, want, lab, kind='pressure', tol=tols(want, 3))
        for g, lb in zip(got, lab):
            if len(g) == 7 and abs(g[3] - (g[4] + g[5] + g[6])) > 256 * EPS * abs(g[3]):
                ck.bad('pressure-parts', 'pressure_drop.csv', 'row %s: friction + spacer grid + gravity != total' % lb,
                       g[4] + g[5] + g[6], g[3], 256 * EPS * abs(g[3]))
                break
    core = rx.core
    if core.model is not None:
        fine = 'temp_coolant_gap_finemesh.csv' if 'temp_coolant_gap_finemesh.csv' in files else 'temp_coolant_gap_fine.csv'
        if fine in files:
            want = [[zs[k]] + [float(x) for x in rec.gap[k - 1]] for k in planes]
            lab = ['(plane %d z=%.6f)' % (k, zs[k]) for k in planes]
            tl_ = [[tz] + [0.0] * (len(w_) - 1) for w_ in want]
            got = parse_csv(files[fine])
            # the height is column 0 in this file
            ck.rows(fine, [[0.0] + g for g in got], [[0.0] + w_ for w_ in want], lab, kind='gapfine',
                    tol=[[0.0] + t for t in tl_], site='reactor.py:axial_step')
        if 'temp_coolant_gap.csv' in files:
            mf = dassh.mesh_functions
            h = np.asarray(core.coolant_gap_params['htc'], dtype=float)

            def on_duct_mesh(ai, Tg, f):
                reg = rx.assemblies[ai].region[f['ridx']]
                adj = core._asm_sc_adj[ai]
                hh = h[adj - 1].flatten()
                tt = np.asarray(Tg)[adj - 1].flatten()
                num = mf.map_across_gap(hh * tt, reg._map['gap2duct'])
                den = mf.map_across_gap(hh, reg._map['gap2duct'])
                return [float(x) for x in num / den]
            w = 3 + max(f['duct'].shape[1] for f in allf)
            uniform = [np.full(core.n_sc, T_IN)]
            now, lab = per_asm(lambda ai, f, k: [('', on_duct_mesh(ai, rec.gap[k - 1], f))], w)
            below, _ = per_asm(lambda ai, f, k: [('', on_duct_mesh(ai, (uniform + rec.gap)[k - 1], f))], w)
            got = parse_csv(files['temp_coolant_gap.csv'])
            tl_ = [[0.0, tz, 0.0] + [1e-12 * abs(x) for x in w_[3:]] for w_ in now]     # mapping arithmetic
            n_now = sum(1 for g, w_, t in zip(got, now, tl_) if len(g) == len(w_)
                        and all(abs(a_ - b_) <= t_ for a_, b_, t_ in zip(g, w_, t)))
            n_bel = sum(1 for g, w_, t in zip(got, below, tl_) if len(g) == len(w_)
                        and all(abs(a_ - b_) <= t_ for a_, b_, t_ in zip(g, w_, t)))
            if len(got) == len(now) and n_bel == len(got) and n_now < len(got):
                ck.cells += sum(len(w_) for w_ in now)
                ck.bad('gap-one-plane-below', 'temp_coolant_gap.csv', 'every row carries the height of plane k but the gap '
                       'coolant temperatures of plane k-1 (the boundary condition handed to Assembly.calculate); '
                       'temp_coolant_gap_fine*.csv has the temperatures of plane k at the same height',
                       [round(x, 6) for x in got[-1][3:6]], [round(x, 6) for x in now[-1][3:6]],
                       site='reactor.py:_calculate_asm_temperatures', rows_matching_plane_k=n_now,
                       rows_matching_plane_below=n_bel)
            else:
                ck.rows('temp_coolant_gap.csv', got, now, lab, kind='gap', tol=tl_,
                        site='reactor.py:_calculate_asm_temperatures')
    r = _finish(r, c, V, ck.cells, nstep * nasm, 'dumps')
    r['extra']['dump_planes'] = {('all' if len(planes) == nstep else 'some'): 1}
    r['info']['planes_dumped'] = len(planes)
    r['info']['planes'] = nstep
    return r


# ======================================================================
# 7. [Setup][[AssemblyTables]]  (C15)
TABLE_TYPES = ('coolant_subchannel', 'duct_mw', 'coolant_bypass', 'coolant_pin', 'clad_od', 'clad_mw', 'clad_id',
               'fuel_od', 'fuel_cl')
# axial position sets (m): mandatory planes (power-cell boundary, requested plane, core end), between planes,
# the inlet plane, the core end
ZSETS = {'planes': [0.04, 0.0333], 'between': [0.05, 0.0777], 'zero': [0.0], 'top': [DUMP_L],
         'mixed': [0.0612, 0.04, 0.0123]}
ASM_CORE = 'F Q D M - F Q'


def cases_asmtables(tier):
    out = []

    def add(layout, types, asms, zset, interval='none'):
        L, T, M = USYS[len(out) % 3]
        out.append({'probe': 'report-asmtables', 'layout': layout, 'types': types, 'asms': asms, 'zset': zset,
                    'interval': interval, 'planes': '0.0333', 'gap': 'flow', 'flags': None, 'L': L, 'T': T, 'M': M})
    pin_types = ','.join(TABLE_TYPES[3:])
    if tier == 'quick':
        for zs_ in ZSETS:
            for tp in TABLE_TYPES:
                add('F', tp, '1', zs_)
            add('D', 'coolant_subchannel,duct_mw,coolant_bypass', '1', zs_)
            add('M', 'coolant_subchannel,duct_mw', '1', zs_)
            add(ASM_CORE, 'coolant_subchannel,duct_mw', '1,2', zs_)
            add(ASM_CORE, 'coolant_subchannel,duct_mw', '3,4', zs_)
            add(ASM_CORE, 'coolant_subchannel,duct_mw,' + pin_types, '6,7', zs_)
            add(ASM_CORE, pin_types, '1,2', zs_, 'odd')
        add(ASM_CORE, 'coolant_subchannel,duct_mw', '6', 'planes')       # the id after the vacancy that is still a list index
        add(ASM_CORE, 'coolant_subchannel,duct_mw', '4,2', 'planes')     # assemblies listed in descending order
        add('F', ','.join(TABLE_TYPES), '1', 'between', 'odd')
        add('F', ','.join(TABLE_TYPES), '1', 'mixed', 'big')
    else:
        for zs_ in ZSETS:
            for iv in INTERVALS:
                for u in range(3):
                    for lay, asms in (('F', '1'), ('Q', '1'), ('D', '1'), ('M', '1'), (ASM_CORE, '1,2'), (ASM_CORE, '3,4'),
                                      (ASM_CORE, '6,7'), (ASM_CORE, '7,1,4'), ('Q - D F M P -', '3,4,5,6')):
                        add(lay, ','.join(TABLE_TYPES), asms, zs_, iv)
                        out[-1]['L'], out[-1]['T'], out[-1]['M'] = USYS[u]
                    for tp in TABLE_TYPES:
                        add('F', tp, '1', zs_, iv)
                        out[-1]['L'], out[-1]['T'], out[-1]['M'] = USYS[u]
    return out


def _interp_fields(rec_planes, inlet, zs, dumped, z, key):
    """field `key` of one assembly at height z: the dumped plane itself if z is one (1e-12), the last
    dumped plane if z lies above it, else the linear interpolation between the dumped planes that bracket z
    (the inlet plane z = 0 brackets from below).  Returns (array, tolerance array, (k1, k2))"""
    hs = [zs[k] for k in dumped]
    for i, k in enumerate(dumped):
        if abs(zs[k] - z) <= 1e-12:
            v = np.atleast_1d(np.asarray(key(rec_planes[k - 1]), dtype=float))
            tol = 8 * EPS * np.abs(v)
            # a requested height that differs from the plane by the rounding of the unit conversion (<= 1e-12 m)
            # is interpolated with a weight of that size towards the neighbouring dumped plane
            for k2 in ([dumped[i - 1]] if i > 0 else []) + ([dumped[i + 1]] if i + 1 < len(dumped) else []):
                v2 = np.atleast_1d(np.asarray(key(rec_planes[k2 - 1]), dtype=float))
                if v2.shape == v.shape:
                    tol = np.maximum(tol, 8 * EPS * np.abs(v) + 2e-12 / abs(zs[k2] - zs[k]) * np.abs(v2 - v))
            return v, tol, (k, k)
    if z > hs[-1]:
        v = np.atleast_1d(np.asarray(key(rec_planes[dumped[-1] - 1]), dtype=float))
        return v, 8 * EPS * np.abs(v), (dumped[-1], dumped[-1])
    hi = min(k for k in dumped if zs[k] > z)
    lo_c = [k for k in dumped if zs[k] < z]
    if lo_c:
        lo = max(lo_c)
        z1, f1 = zs[lo], rec_planes[lo - 1]
    else:
        lo, z1, f1 = 0, 0.0, inlet
    z2, f2 = zs[hi], rec_planes[hi - 1]
    a1 = np.atleast_1d(np.asarray(key(f1), dtype=float))
    a2 = np.atleast_1d(np.asarray(key(f2), dtype=float))
    if a1.shape != a2.shape:
        return None, None, (lo, hi)
    x = (z2 - z) / (z2 - z1)
    v = a1 * x + a2 * (1.0 - x)
    tol = 8 * EPS * np.abs(v) + 2e-12 / (z2 - z1) * np.abs(a2 - a1)
    return v, tol, (lo, hi)


def _read_table(text):
    return [ln.split(',') for ln in text.split('\n') if ln.strip() != '']


def run_asmtables(c):
    r = new_result()
    V = r['violations']
    types = c['types'].split(',')
    asms = [int(x) for x in c['asms'].split(',')]
    zreq = list(ZSETS[c['zset']])
    tables = {}
    for i, tp in enumerate(types):
        tables['tab%d' % i] = {'type': tp, 'assemblies': list(asms), 'axial_positions': list(zreq)}
    cc = dict(c)
    if c['interval'] != 'none':
        cc['flags'] = 'average'          # a [[Dump]] section is needed to carry the interval
    scn, bounds = _dump_scenario(cc, tables=tables)
    out = execute(to_units(scn, c['L'], c['T'], c['M']), c, V, record=FieldRecorder, keep_csv=True)
    if out is None:
        r['outcome'] = 'rejected'
        return r
    if out.get('aborted'):
        V[-1]['kind'] = V[-1]['kind'].replace('report-run-', 'report-asmtables-')
        V[-1]['scenario'] = dict(c, prop='C15', below_first_plane=min(zreq) == 0.0,
                                 id_after_vacancy=any(a_ > 5 for a_ in asms) and '-' in c['layout'].split())
        r['outcome'] = 'aborted'
        return _finish(r, c, V, 0, 0, 'asmtables')
    rx, rec, files = out['rx'], out['rec'], out['csv']
    ck = CsvChecker(c, V)
    site = 'reactor.py:write_assembly_data_tables'
    zs = [float(x) for x in rx.z]
    nstep = len(zs) - 1
    dumped = expected_dump_planes(zs, INTERVALS[c['interval']], bounds)
    pos_ids = [S.asm_id(a[1], a[2]) + 1 for a in scn['assign']]        # ids as in the input (position ids, base 1)
    zsorted = sorted(zreq)
    ncell = 0

    def bad(kind, fname, what, obs=None, exp=None, tol=None, **f):
        ck.bad(kind, fname, what, obs, exp, tol, site=site, **f)
        V[-1]['kind'] = V[-1]['kind'].replace('report-dumps-', 'report-asmtables-')

    def check_head(fname, tab, ncol0, lab0, lab1):
        hdr = tab[0]
        if hdr[:ncol0] != lab0 or tab[1][:ncol0] != lab1:
            bad('labels', fname, 'label cells of the first two rows', [hdr[:ncol0], tab[1][:ncol0]], [lab0, lab1])
        zz = [float(x) for x in hdr[ncol0:]]
        cols = []
        for z in zsorted:
            hit = [j for j, x in enumerate(zz) if abs(x - z) <= 1e-12]
            if not hit:
                bad('heights', fname, 'heights of the columns are not the requested axial positions in metres, ascending',
                    zz, zsorted, 1e-12)
                return None
            cols.append(hit[0])
        if len(zz) != len(zsorted):
            bad('heights-duplicated', fname, 'every requested height appears %d times (once per requested assembly)'
                % (len(zz) // max(len(zsorted), 1)), zz, zsorted, 1e-12, n_assemblies=len(asms))
        return cols

    def check_col(fname, got, want, tol, what, kind_sfx='', **f):
        nonlocal ncell
        ncell += len(want)
        if len(got) != len(want):
            bad('shape', fname, '%s: number of rows' % what, len(got), len(want), **f)
            return
        for j in range(len(want)):
            if not (abs(got[j] - want[j]) <= tol[j]):
                bad('value' + kind_sfx, fname, '%s, row %d: not the recorded field of the requested assembly at that height'
                    % (what, j), got[j], float(want[j]), float(tol[j]), **f)
                return

    want_files = set()
    unchecked = 0

    def table_of(fname, alt=None):
        want_files.add(fname)
        if fname in files:
            return fname, _read_table(files[fname])
        if alt and alt in files:
            bad('file-name', alt, 'table of wall %s of a multi-duct assembly is written under a name that chains the '
                'names of the inner walls' % fname.split('duct=')[1][0], alt, fname)
            want_files.discard(fname)
            want_files.add(alt)
            return alt, _read_table(files[alt])
        return fname, None

    for tp in types:
        for aid in asms:
            if aid not in pos_ids:
                continue
            ai = pos_ids.index(aid)
            a = rx.assemblies[ai]
            name = scn['assign'][ai][0]
            planes = rec.asm[ai]
            inlet = rec.inlet[ai]
            f0 = dict(asm_id=aid, asm_type=name, table_type=tp)

            def sfx(br):
                return '-below-first-plane' if br[0] == 0 and br[1] != 0 else ''
            if tp == 'coolant_bypass':
                continue            # accepted by the input template, announced as "not yet implemented": no file
            if tp in PINCOL:
                if name not in ('F', 'Q'):
                    continue        # no pin model: the request is dropped with a warning
                fname, tab = table_of('temp_%s_a=%d.csv' % (tp, aid))
                if tab is None:
                    continue
                cols = check_head(fname, tab, 2, ['---', 'z (m)'], ['x (m)', 'y (m) \\ avg'])
                if cols is None:
                    continue
                xy = np.asarray(a.rodded.pin_lattice.xy, dtype=float)
                got_xy = [[float(row[0]), float(row[1])] for row in tab[2:]]
                if len(got_xy) != len(xy) or np.max(np.abs(np.asarray(got_xy) - xy)) > 0.0:
                    bad('xy', fname, 'pin positions', got_xy[:2], xy[:2].tolist(), **f0)
                for j, z in enumerate(zsorted):
                    if z < zs[dumped[0]] - 1e-12:
                        unchecked += 1      # pin temperatures are not defined on the inlet plane: no own value
                        continue
                    v, tol, br = _interp_fields(planes, inlet, zs, dumped, z,
                                                lambda f, _c=PINCOL[tp]: f['pins'][:, _c])
                    got = [float(row[2 + cols[j]]) for row in tab[2:]]
                    check_col(fname, got, v, tol, 'z=%.6f (planes %s)' % (z, br), z=z, **f0)
                    ga = float(tab[1][2 + cols[j]])
                    ncell += 1
                    if abs(ga - float(np.mean(v))) > 64 * EPS * abs(ga) + float(np.max(tol)):
                        bad('average', fname, 'z=%.6f: average cell is not the mean of the column' % z, ga,
                            float(np.mean(v)), **f0)
            elif tp == 'coolant_subchannel':
                fname, tab = table_of('temp_coolant_subchannel_a=%d.csv' % aid)
                if tab is None:
                    continue
                cols = check_head(fname, tab, 3, ['---', '---', 'z (m)'], ['x (m)', 'y (m)', 'average'])
                if cols is None:
                    continue
                nsc = a.rodded.subchannel.n_sc['coolant']['total']
                xy = np.asarray(a.rodded.subchannel.xy[:nsc], dtype=float)
                got_xy = np.asarray([[float(row[0]), float(row[1])] for row in tab[2:]])
                kinds = [['interior', 'edge', 'corner'][t] for t in a.rodded.subchannel.type[:nsc]]
                if got_xy.shape != xy.shape or np.max(np.abs(got_xy - xy)) > 0.0 or [row[2] for row in tab[2:]] != kinds:
                    bad('xy', fname, 'subchannel positions / kinds', None, None, **f0)
                for j, z in enumerate(zsorted):
                    va, tola, br = _interp_fields(planes, inlet, zs, dumped, z, lambda f: f['avg_int'])
                    ncell += 1
                    ga = float(tab[1][3 + cols[j]])
                    if va is not None and abs(ga - va[0]) > tola[0] + 256 * EPS * abs(va[0]):
                        bad('average' + sfx(br), fname, 'z=%.6f (planes %s): average cell is not the flow-weighted mean '
                            'interior coolant temperature at that height' % (z, br), ga, float(va[0]), float(tola[0]),
                            z=z, **f0)
                    # the bundle's subchannel rows stay empty (0) where the assembly is not a pin bundle
                    v, tol, br = _interp_fields(planes, inlet, zs, dumped, z,
                                                lambda f: f['cool'] if f['rodded'] else np.zeros(nsc))
                    if v is None:
                        continue
                    got = [float(row[3 + cols[j]]) for row in tab[2:]]
                    lo_f = inlet if br[0] == 0 else planes[br[0] - 1]
                    hi_f = planes[br[1] - 1]
                    nn = max([len(f_['cool']) for f_ in (lo_f, hi_f) if not f_['rodded']] or [0])
                    alt = None
                    if nn > 1:
                        alt = _interp_fields(planes, inlet, zs, dumped, z, lambda f: f['cool'] if f['rodded'] else
                                             np.concatenate([f['cool'], np.zeros(nsc - len(f['cool']))]))
                    if alt is not None and alt[0] is not None and len(got) == nsc \
                            and np.all(np.abs(np.asarray(got) - alt[0]) <= alt[1]) \
                            and np.any(np.abs(np.asarray(got) - v) > tol):
                        bad('lowfi-nodes-in-subchannel-rows', fname, 'z=%.6f lies in an un-rodded region with %d coolant '
                            'nodes: their temperatures are written into the rows of the first %d pin-bundle subchannels '
                            '(the code documents "no subchannel data for low-fidelity regions")'
                            % (z, nn, nn), got[:7], [float(x) for x in v[:7]], z=z, **f0)
                        continue
                    check_col(fname, got, v, tol, 'z=%.6f (planes %s)' % (z, br), z=z, kind_sfx=sfx(br), **f0)
            elif tp == 'duct_mw':
                nd = a.rodded.n_duct
                ncell_d = a.rodded.subchannel.n_sc['duct']['total']
                chain = 'temp_duct_mw_a=%d' % aid
                for d in range(nd):
                    chain += '_duct=%d.csv' % (d + 1)
                    if nd == 1:
                        fname, tab = table_of('temp_duct_mw_a=%d.csv' % aid)
                    else:
                        fname, tab = table_of('temp_duct_mw_a=%d_duct=%d.csv' % (aid, d + 1), alt=chain)
                    if tab is None:
                        continue
                    cols = check_head(fname, tab, 3, ['---', '---', 'z (m)'], ['x (m)', 'y (m)', 'average'])
                    if cols is None:
                        continue
                    for j, z in enumerate(zsorted):
                        def wall(f, _d=d):
                            if f['duct'].shape[0] == nd and f['duct'].shape[1] == ncell_d:
                                return f['duct'][_d]
                            # un-rodded region: one wall, six values written to the corner cells of the bundle mesh
                            full = np.zeros(ncell_d)
                            if _d == 0:
                                full.reshape(6, -1)[:, -1] = f['duct'][0]
                            return full
                        v, tol, br = _interp_fields(planes, inlet, zs, dumped, z, wall)
                        if br[0] != br[1] and br[0] > 0 and \
                                planes[br[0] - 1]['duct'].shape != planes[br[1] - 1]['duct'].shape:
                            # the two dumped planes that bracket z carry different duct meshes (pin bundle /
                            # un-rodded region): no own value is defined between them
                            unchecked += 1
                            continue
                        got = [float(row[3 + cols[j]]) for row in tab[2:]]
                        check_col(fname, got, v, tol, 'wall %d, z=%.6f (planes %s)' % (d + 1, z, br), z=z, wall=d,
                                  kind_sfx=sfx(br), **f0)
                        if d in (0, nd - 1):
                            va, tola, _ = _interp_fields(planes, inlet, zs, dumped, z,
                                                         lambda f, _d=d: f['avg_duct'][0 if _d == 0 else -1])
                            ga = float(tab[1][3 + cols[j]])
                            ncell += 1
                            if abs(ga - va[0]) > tola[0] + 256 * EPS * abs(va[0]):
                                k_ = 'duct-average' + sfx(br)
                                if ga == 0.0 and d == nd - 1 and nd > 1:
                                    k_ = 'duct-average-outer-wall-empty'
                                bad(k_, fname, 'wall %d, z=%.6f: average cell is not the area-weighted mean '
                                    'mid-wall temperature of that wall' % (d + 1, z), ga, float(va[0]), float(tola[0]),
                                    z=z, wall=d, **f0)
    got_tables = sorted(fn for fn in files if '_a=' in fn)
    if got_tables != sorted(want_files):
        bad('file-set', '-', 'assembly tables written are not those requested', got_tables, sorted(want_files))
    r = _finish(r, c, V, ck.cells + ncell, nstep * len(rx.assemblies), 'asmtables')
    r['info']['tables'] = len(got_tables)
    r['extra']['asmtable_columns_without_own_value'] = unchecked
    return r


# ======================================================================
PROBES = {'report-geometry': (cases_geometry, run_geometry, 'C08'),
          'report-power': (cases_power, run_power, 'C03'),
          'report-flow': (cases_flow, run_flow, 'C12'),
          'report-ebal': (cases_ebal, run_ebal, 'C01'),
          'report-interasm': (cases_interasm, run_interasm, 'C02'),
          'report-dumps': (cases_dumps, run_dumps, 'C15'),
          'report-asmtables': (cases_asmtables, run_asmtables, 'C15')}


def run_case(c):
    return PROBES[c['probe']][1](c)


def replay(body):
    c = {k: v for k, v in body['scenario'].items() if k in ('probe', 'rings', 'ducts', 'wire', 'se2geo', 'rings2',
                                                            'ducts2', 'wire2', 'L', 'T', 'M', 'n_asm', 'total',
                                                            'scaling', 'bc', 'ntypes', 'gap', 'fam', 'grid', 'regimes',
                                                            'layout', 'bf', 'ebal', 'coolant', 'flags', 'interval', 'planes',
                                                            'types', 'asms', 'zset')}
    prop = PROBES[c['probe']][2]
    r = guarded(run_case, c, 900)
    for v in r['violations']:
        print('VIOLATION property=%s replay=(inline) kind=%s site=%s %s'
              % (v['scenario'].get('prop', prop), v['kind'], v.get('site'), v['what']))
        print('  observed=%s expected=%s tol=%s where=%s'
              % (str(v.get('observed'))[:300], str(v.get('expected'))[:300], v.get('tolerance'),
                 {k: x for k, x in v['scenario'].items() if k not in c}))
    print('outcome', r['outcome'], r.get('info'))
    return 1 if r['violations'] else 0




# ----------------------------------------------------------------------
# per-property views of the dump probe (hooked into the property checks by their main()).
# Not reported: behaviour of the output files that no property statement covers - the clad column of
# temp_average / temp_maximum being the clad inner surface, temp_coolant_gap.csv being one plane behind,
# the empty bypass column, the duct column of temp_maximum looking at the inner wall only, the file name
# announced in the log, the set of files written (DESIGN.md 11.5).  Everything else the probe compares is
# the field of the property in question: every row of the dump of that field must be the recorded field of
# that assembly at that plane.
DUMP_OUTSIDE = ('report-dumps-average-clad-column', 'report-dumps-maximum-clad-column',
                'report-dumps-gap-one-plane-below', 'report-dumps-average-bypass-empty',
                'report-dumps-maximum-duct-inner-wall-only', 'report-dumps-file-name', 'report-dumps-file-set')


def _dumps_view(c, prop):
    r = run_dumps(c)
    keep = []
    for v in r['violations']:
        sc = v.get('scenario') or {}
        if v['kind'] in DUMP_OUTSIDE:
            continue
        if v['kind'].startswith('report-run-') or sc.get('prop') == prop:
            keep.append(v)
    r['violations'] = keep
    r['outcome'] = 'ok' if not keep else 'violation'
    return r


def run_dumps_C01(c):
    return _dumps_view(c, 'C01')


def run_dumps_C02(c):
    return _dumps_view(c, 'C02')


def run_dumps_C11(c):
    return _dumps_view(c, 'C11')


def run_dumps_C13(c):
    return _dumps_view(c, 'C13')


def run_dumps_C14(c):
    return _dumps_view(c, 'C14')


def run_dumps_C15(c):
    return _dumps_view(c, 'C15')


# kinds of the asmtables probe that fail on the unchanged tree for reasons outside the twenty properties (DESIGN 11.5)
ASMT_OUTSIDE = ('report-asmtables-duct-average-outer-wall-empty', 'report-asmtables-file-name',
                'report-asmtables-heights-duplicated', 'report-asmtables-lowfi-nodes-in-subchannel-rows',
                'report-asmtables-aborted', 'report-asmtables-heights')


def run_asmtables_C06(c):
    """view for C06: a per-assembly table holds the values of the assembly it is named after (everything the probe
    compares except the kinds listed in ASMT_OUTSIDE)"""
    r = run_asmtables(c)
    keep = [v for v in r['violations'] if v['kind'] not in ASMT_OUTSIDE]
    r['violations'] = keep
    r['outcome'] = 'ok' if not keep else 'violation'
    return r


def run_asmtables_C18(c):
    """view for C18: an accepted AssemblyTables request must not end in an unhandled exception (the contents
    of the tables are outside the twenty properties: DESIGN.md 11.5)"""
    r = run_asmtables(c)
    keep = [v for v in r['violations'] if 'crashed' in v['kind']]
    r['violations'] = keep
    r['outcome'] = 'ok' if not keep else 'violation'
    return r
