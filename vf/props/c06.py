"""C06  Assemblies interact only through duct-wall heat transfer.

Metamorphic pairs on the real Reactor (adiabatic option, identical axial planes
forced by a user step below every limit):
  company   the target assembly at the core centre, alone vs. in company
            (same/other types, 1..6 neighbours, unrodded neighbours, shared
            template used by 1, 2 or 7 assemblies): coolant, duct, bypass, pin
            temperatures and pressure drop must be bitwise identical at every
            axial plane.
  order     every permutation of the assignment lines of a 3-assembly core
            gives bitwise identical per-assembly results.
  schedule  every order of the three per-assembly updates inside each axial
            step (driven through Reactor._calculate_asm_temperatures) gives
            bitwise identical states at every step.
  isolation stepping one assembly leaves every other assembly's Material
            state, correlated parameters and temperatures untouched; clones
            hold no common Material object.
"""
import itertools

import numpy as np

from ..run import new_result, violation, site_of
from .. import scenario as S
from .. import observe as O

OFTF = 0.060
L = 0.12


def tdesign(kind):
    if kind == 'single':
        return S.design(3, oftf=OFTF, clearance='mid')
    if kind == 'bypass':
        return S.design(3, oftf=OFTF, clearance='mid', ducts=2, byp_t=0.002, bypass_fraction=0.1)
    if kind == 'pins':
        return S.design(3, oftf=OFTF, clearance='mid',
                        fuelmodel={'clad_material': 'ht9', 'r_frac': [0.0, 0.5], 'pu_frac': [0.2, 0.2],
                                   'zr_frac': [0.1, 0.1], 'porosity': [0.2, 0.2]})
    if kind == 'multi':
        return S.design(3, oftf=OFTF, clearance='mid',
                        regions={'lower': {'z_lo': 0.0, 'z_hi': L / 4, 'vf_coolant': 0.3},
                                 'upper': {'z_lo': 3 * L / 4, 'z_hi': L, 'vf_coolant': 0.3, 'model': '6node'}})
    if kind == 'lowfi':
        return S.design(3, oftf=OFTF, clearance='mid', lowfi={'model': 'simple'})
    if kind == 'other':
        return S.design(2, pd=1.3, oftf=OFTF, clearance='loose')
    raise ValueError(kind)


def pspec(kind, i, seed):
    nd = 2 if kind == 'bypass' else 1
    rings = 2 if kind == 'other' else 3
    return {'rings': rings, 'nduct': nd, 'cells': [0.0, L / 2, L], 'q': 9000.0 * (1.0 + 0.35 * i),
            'pins': 'asym', 'duct': 'asym', 'cool': 'asym', 'axial': ['up', 'mid'], 'seed': (seed + i) % 4}


COMPANY = {
    'alone': [],
    'plus1-same': [('T', 2, 1)],
    'plus1-other': [('other', 2, 1)],
    'six-same': [('T', 2, p) for p in range(1, 7)],
    'six-mixed': [('T', 2, 1), ('other', 2, 2), ('T', 2, 3), ('lowfi', 2, 4), ('other', 2, 5), ('T', 2, 6)],
    'unrodded': [('lowfi', 2, p) for p in (1, 3, 5)],
    'two-same': [('T', 2, 2), ('T', 2, 5)],
    # a very-low-flow assembly of the same type earlier / later in position order
    'lowflow-same': [('T', 2, 4, 0.02), ('T', 2, 6, 0.02)],
    'lowflow-other': [('other', 2, 4, 0.01), ('other', 2, 6, 0.01)],
}


TPOS = {'centre': (1, 1), 'ring2': (2, 4)}


def build(c, company, dz=None, line_order=None):
    kind = c['target']
    types = {'T': tdesign(kind)}
    tr, tp = TPOS[c.get('tpos', 'centre')]
    assign = [['T', tr, tp, {'flowrate': c.get('flow', 1.6)}]]
    power = {str(S.asm_id(tr, tp) + 1): pspec(kind, 0, c.get('seed', 0))}
    for i, ent in enumerate(company):
        ty, ring, pos = ent[0], ent[1], ent[2]
        if (ring, pos) == (tr, tp):
            ring, pos = 1, 1            # the target sits elsewhere: its neighbour takes the centre
        name = 'T' if ty == 'T' else ty
        if name not in types:
            types[name] = tdesign(name)
        fl = ent[3] if len(ent) > 3 else round(1.0 + 0.23 * i, 4)
        assign.append([name, ring, pos, {'flowrate': fl}])
        sp = pspec(kind if ty == 'T' else ty, i + 1, c.get('seed', 0))
        if len(ent) > 3:
            sp['q'] *= fl / 1.3          # keep the temperature rise of low-flow neighbours moderate
        power[str(S.asm_id(ring, pos) + 1)] = sp
    if line_order is not None:
        assign = [assign[k] for k in line_order]
    setup = {}
    if dz is not None:
        setup['axial_mesh_size'] = dz
    if c.get('tol'):
        setup['param_update_tol'] = c['tol']
    if c.get('conv_approx'):
        setup['conv_approx'] = True
        setup['conv_approx_dz_cutoff'] = c.get('cutoff', 0.004)
    return {'setup': setup,
            'core': {'inlet': 623.15, 'length': L, 'pitch': 0.064, 'gap_model': 'none',
                     'bypass_fraction': 0.0, 'coolant': c.get('coolant', 'sodium_se2anl_425')},
            'types': types, 'assign': assign, 'power': {'asm': power}}


LABELS = {}       # first pin record labelled with another assembly's id seen by trace() in this case


def snapshot(a):
    reg = a.active_region
    parts = [reg.temp['coolant_int'].ravel(), reg.temp['duct_mw'].ravel(), reg.temp['duct_surf'].ravel()]
    if 'coolant_byp' in reg.temp:
        parts.append(reg.temp['coolant_byp'].ravel())
    if hasattr(reg, 'pin_model') and hasattr(reg, 'pin_temps'):
        parts.append(reg.pin_temps[:, 3:].ravel())
    parts.append(np.array([float(a.pressure_drop), float(a.active_region_idx)]))
    return np.concatenate(parts).copy()


def trace(scn, ids=None, order=None):
    """sweep and return {asm id: [snapshot per plane]}, planes"""
    with S.Built(scn) as b:
        rx = b.reactor()
        out = {a.id: [] for a in rx.assemblies if ids is None or a.id in ids}
        rx._data_setup()
        rx._data_open()
        rx.axial_step0()
        n = len(rx.z)
        for i in range(1, n):
            z, dz = rx.z[i], rx.dz[i - 1]
            if order is None:
                rx.axial_step(z, dz, i)
            else:
                # one axial step with the per-assembly updates in a chosen order
                dump = rx._determine_whether_to_dump_data(z, dz)
                for ai in order:
                    rx._calculate_asm_temperatures(rx.assemblies[ai], ai, z, dz, dump)
                nxt = i + 1
                if nxt < rx.z.size:
                    for ai in range(len(rx.assemblies)):
                        if rx.assemblies[ai].check_region_update(rx.z[nxt]):
                            rx.assemblies[ai].update_region(rx.z[nxt], rx.core.adjacent_coolant_gap_temp(ai),
                                                            rx.core.adjacent_coolant_gap_htc(ai), rx._is_adiabatic)
            for a in rx.assemblies:
                if a.id in out:
                    out[a.id].append(snapshot(a))
                # the pin records an assembly keeps are labelled with ITS id (column 0 of pin_temps is what
                # temp_pin.csv files them under)
                reg = a.active_region
                if hasattr(reg, 'pin_model') and hasattr(reg, 'pin_temps') and not LABELS.get('bad'):
                    lab = np.asarray(reg.pin_temps[:, 0])
                    if np.any(lab != a.id):
                        LABELS['bad'] = (int(a.id), float(lab[0]), i)
        return out, np.array(rx.z), float(rx.req_dz), [a.id for a in rx.assemblies]


def first_diff(A, B):
    for i, (x, y) in enumerate(zip(A, B)):
        if x.shape != y.shape or not np.array_equal(x, y):
            d = float(np.max(np.abs(x - y))) if x.shape == y.shape else float('nan')
            return i, d
    if len(A) != len(B):
        return min(len(A), len(B)), float('nan')
    return None


def common_step(c, scns):
    lim = []
    for s in scns:
        with S.Built(s) as b:
            lim.append(float(b.reactor().req_dz))
    return float('%.2g' % (0.5 * min(lim)))


# ----------------------------------------------------------------------
def run_company(c):
    r = new_result()
    V = r['violations']
    comp = COMPANY[c['company']]
    dz = common_step(c, [build(c, []), build(c, comp)])
    tid = S.asm_id(*TPOS[c.get('tpos', 'centre')])
    LABELS.clear()
    ref, zr, _, _ = trace(build(c, [], dz), ids={tid})
    got, zg, _, _ = trace(build(c, comp, dz), ids={tid})
    if LABELS.get('bad'):
        V.append(violation('records-labelled-with-another-id', c, 'pin records of assembly %d carry the id %g '
                           '(plane %d): clones of a type keep the label of their template'
                           % LABELS['bad'], LABELS['bad'][1], LABELS['bad'][0], 0.0,
                           site='assembly.py:Assembly.clone'))
    if not np.array_equal(zr, zg):
        V.append(violation('harness-planes-differ', c, 'twin runs do not share the axial planes'))
        return r
    d = first_diff(ref[tid], got[tid])
    r['states'] = len(zr) * 2
    r['transitions'] = (len(zr) - 1) * (1 + len(comp) + 1)
    r['traces'] = 2
    r['nontrivial'] = len(comp) > 0
    if d is not None:
        V.append(violation('depends-on-company', c,
                           'centre assembly differs from its stand-alone twin from plane %d on (adiabatic core, '
                           'company=%s)' % (d[0] + 1, c['company']), d[1], 0.0, 0.0))
    r['info'] = {'planes': len(zr), 'dz': dz, 'first_diff': d}
    r['outcome'] = 'ok' if not V else 'violation'
    return r


# ----------------------------------------------------------------------
# part `hotspot`: the hot-spot results of an assembly do not depend on who shares its type
HS_FUEL = {'clad_material': 'ht9_se2anl_425', 'gap_material': 'sodium_se2anl_425', 'gap_thickness': 0.0,
           'r_frac': [0.0, 0.33333, 0.66667], 'pu_frac': [0.2, 0.2, 0.2], 'zr_frac': [0.1, 0.1, 0.1],
           'porosity': [0.1, 0.1, 0.1], 'htc_params_clad': [0.023, 0.8, 0.4, 7.0]}
HS_BLOCK = {'hs_cool': {'temperature': 'coolant', 'subfactors': 'crbr_fuel_clad_mw', 'input_sigma': 3, 'output_sigma': 2},
            'hs_clad': {'temperature': 'clad_mw', 'subfactors': 'crbr_fuel_clad_mw'},
            'hs_fuel': {'temperature': 'fuel_cl', 'subfactors': 'fftf_fuel_cl'}}


def hotspot_cases(tier):
    out = []
    for sib in (['zero'], ['half'], ['zero', 'full'], ['full', 'zero', 'half']):
        out.append({'part': 'hotspot', 'siblings': sib})
    return out


def run_hotspot(c):
    """adiabatic core: the hot-spot temperatures (hotspot.analyze) of the centre assembly with siblings of its own type
    (unpowered / half power / full power) equal those of the same assembly alone"""
    from dassh import hotspot
    r = new_result()
    V = r['violations']
    dsn = S.design(2, fuelmodel=dict(HS_FUEL), hotspot={k: dict(v) for k, v in HS_BLOCK.items()})
    L = 0.3

    def scn_for(sibs):
        pos = S.core_positions(2)
        assign = [['A', 1, 1, {'flowrate': 0.4}]]
        pw = {'1': {'rings': 2, 'cells': [0.0, L], 'q': 9000.0, 'pins': 'tilt', 'seed': 1}}
        for k_, kind in enumerate(sibs):
            rg, ps = pos[k_ + 1]
            assign.append(['A', rg, ps, {'flowrate': 0.4}])
            lvl = {'zero': 0.0, 'half': 0.5, 'full': 1.0}[kind]
            pw[str(S.asm_id(rg, ps) + 1)] = {'rings': 2, 'cells': [0.0, L], 'q': 9000.0 * lvl,
                                             'pins': 'zero' if lvl == 0.0 else 'tilt', 'seed': 2 + k_}
        return {'setup': {'axial_mesh_size': 0.01},
                'core': {'inlet': 623.15, 'length': L, 'pitch': round(max(dsn['duct_ftf']) + 0.004, 9),
                         'gap_model': 'none', 'bypass_fraction': 0.0},
                'types': {'A': dict(dsn)}, 'assign': assign, 'power': {'asm': pw}}

    def results(sibs):
        with S.Built(scn_for(sibs)) as b:
            rx = b.reactor()
            rx.temperature_sweep()
            temps, ids = hotspot.analyze(rx)
            out = {}
            for key in sorted(temps):
                idl = [int(x) for x in ids[key]] if isinstance(ids, dict) else [int(x) for x in ids]
                out[key] = np.array(temps[key], dtype=float)[idl.index(0)].copy()
            return out, len(rx.z)
    try:
        ref, n = results([])
        got, _ = results(c['siblings'])
    except (Exception, SystemExit) as e:
        V.append(violation('hotspot-exception', c, '%s: %s' % (type(e).__name__, str(e)[:200]), site=site_of(e)))
        r['outcome'] = 'violation'
        return r
    r['states'] = 2 * n
    r['transitions'] = 2 * (n - 1)
    r['traces'] = 2
    r['nontrivial'] = True
    for key in sorted(ref):
        dev = float(np.max(np.abs(ref[key] - got[key])))
        if not dev <= 1e-9:
            V.append(violation('hotspot-depends-on-company', dict(c, key=str(key)),
                               'hot-spot temperatures %s of the centre assembly differ from those of the same assembly '
                               'alone when assemblies of its type (%s) are loaded next to it' % (key, ', '.join(c['siblings'])),
                               dev, 0.0, 1e-9, site='hotspot.py:analyze'))
            break
    r['outcome'] = 'ok' if not V else 'violation'
    return r


def run_order(c):
    r = new_result()
    V = r['violations']
    comp = COMPANY[c['company']][:2]
    base = build(c, comp)
    dz = common_step(c, [base])
    n = len(base['assign'])
    ref = None
    for perm in itertools.permutations(range(n)):
        tr, z, _, ids = trace(build(c, comp, dz, line_order=list(perm)))
        r['traces'] += 1
        r['states'] += len(z)
        r['transitions'] += (len(z) - 1) * n
        if ref is None:
            ref = tr
            continue
        for k in sorted(ref):
            d = first_diff(ref[k], tr[k])
            if d is not None:
                V.append(violation('depends-on-assignment-order', dict(c, perm=list(perm)),
                                   'assembly %d differs when the assignment lines are permuted (%s)' % (k, perm),
                                   d[1], 0.0, 0.0))
                break
        if V:
            break
    r['nontrivial'] = True
    r['outcome'] = 'ok' if not V else 'violation'
    return r


def run_schedule(c):
    r = new_result()
    V = r['violations']
    comp = COMPANY[c['company']][:2]
    base = build(c, comp)
    dz = common_step(c, [base])
    ref = None
    for perm in itertools.permutations(range(3)):
        tr, z, _, ids = trace(build(c, comp, dz), order=list(perm))
        r['traces'] += 1
        r['states'] += len(z)
        r['transitions'] += (len(z) - 1) * 3
        if ref is None:
            # the hand-driven step must reproduce the real axial_step
            real, _, _, _ = trace(build(c, comp, dz))
            for k in sorted(real):
                d = first_diff(real[k], tr[k])
                if d is not None:
                    V.append(violation('harness-step-differs', c, 'hand-driven step differs from Reactor.axial_step'))
            ref = tr
            continue
        for k in sorted(ref):
            d = first_diff(ref[k], tr[k])
            if d is not None:
                V.append(violation('depends-on-update-order', dict(c, perm=list(perm)),
                                   'assembly %d differs when the per-assembly updates of a step run in order %s '
                                   '(first at plane %d)' % (k, perm, d[0] + 1), d[1], 0.0, 0.0))
                break
        if V:
            break
    r['nontrivial'] = True
    r['outcome'] = 'ok' if not V else 'violation'
    return r


def run_rangeline(c):
    """six assemblies of one type assigned by ONE range line vs. one line per position, in the unit
    system given: every assembly must come out bitwise identical"""
    r = new_result()
    V = r['violations']
    kind = c['target']
    units = c['units']
    flow_si = 1.3
    ffac = {'kg/s': 1.0, 'lb/s': 1.0 / 0.45359237, 'kg/min': 60.0, 'lb/hr': 3600.0 / 0.45359237}[units['mass_flow_rate']]
    tin = {'kelvin': 623.15, 'celsius': 350.0, 'fahrenheit': 662.0}[units['temperature']]

    def scn(mode, dz):
        types = {'T': tdesign(kind), 'other': tdesign('other')}
        assign = [['other', 1, 1, {'flowrate': 0.9 * ffac}]]
        if mode == 'range':
            assign.append(['T', 2, 1, {'flowrate': flow_si * ffac}, 6])
        else:
            for p in range(1, 7):
                assign.append(['T', 2, p, {'flowrate': flow_si * ffac}])
        power = {'1': pspec('other', 0, c.get('seed', 0))}
        for p in range(1, 7):
            power[str(S.asm_id(2, p) + 1)] = pspec(kind, p, c.get('seed', 0))
        setup = {'axial_mesh_size': dz} if dz else {}
        return {'setup': setup, 'units': units,
                'core': {'inlet': tin, 'length': L, 'pitch': 0.064, 'gap_model': 'none', 'bypass_fraction': 0.0,
                         'coolant': c.get('coolant', 'sodium_se2anl_425')},
                'types': types, 'assign': assign, 'power': {'asm': power}}
    dz = common_step(c, [scn('lines', None)])
    a, za, _, _ = trace(scn('lines', dz))
    b, zb, _, _ = trace(scn('range', dz))
    r['traces'] = 2
    r['states'] = 2 * len(za)
    r['transitions'] = 14 * (len(za) - 1)
    if not np.array_equal(za, zb):
        V.append(violation('depends-on-assignment-form', c, 'axial mesh differs between a range line and one line per position'))
    else:
        for k in sorted(a):
            d = first_diff(a[k], b[k])
            if d is not None:
                V.append(violation('depends-on-assignment-form', c,
                                   'assembly %d differs when its six positions are assigned by one range line instead '
                                   'of one line each (units %s)' % (k, units), d[1], 0.0, 0.0))
                break
    r['nontrivial'] = True
    r['outcome'] = 'ok' if not V else 'violation'
    return r


def mat_state(m):
    return (float(m.temperature),) + tuple(float(getattr(m, k)) for k in
                                           ('density', 'viscosity', 'heat_capacity', 'thermal_conductivity')
                                           if hasattr(m, k) and getattr(m, k) is not None)


def asm_state(a):
    out = []
    for reg in a.region:
        out.append(tuple(reg.temp[k].tobytes() for k in sorted(reg.temp)))
        out.append(mat_state(reg.coolant))
        out.append(mat_state(reg.duct))
        if reg.is_rodded:
            out.append(tuple((k, np.asarray(v, dtype=float).tobytes()) for k, v in sorted(reg.coolant_int_params.items())))
            if reg.n_bypass:
                out.append(tuple((k, np.asarray(v, dtype=float).tobytes()) for k, v in sorted(reg.coolant_byp_params.items())))
        else:
            out.append(tuple((k, float(v)) for k, v in sorted(reg.coolant_params.items())))
    out.append(float(a.pressure_drop))
    return tuple(out)


def run_isolation(c):
    r = new_result()
    V = r['violations']
    comp = COMPANY[c['company']]
    scn = build(c, comp)
    with S.Built(scn) as b:
        rx = b.reactor()
        # structural: no two assemblies hold the same Material object
        seen = {}
        for a in rx.assemblies:
            for ri, reg in enumerate(a.region):
                for nm in ('coolant', 'duct'):
                    m = getattr(reg, nm, None)
                    if m is None:
                        continue
                    if id(m) in seen and seen[id(m)] != a.id:
                        V.append(violation('shared-material', dict(c, attr=nm),
                                           'assemblies %d and %d hold the same %s Material object'
                                           % (seen[id(m)], a.id, nm)))
                    seen.setdefault(id(m), a.id)
                eq = getattr(reg, '_rr_equiv', None)
                if eq is not None and getattr(eq, 'coolant', None) is not None:
                    m = eq.coolant
                    if id(m) in seen and seen[id(m)] != a.id:
                        V.append(violation('shared-material', dict(c, attr='rr_equiv.coolant'),
                                           'assemblies %d and %d share the coolant of a rod-bundle equivalent'
                                           % (seen[id(m)], a.id)))
                    seen.setdefault(id(m), a.id)
            if V:
                break
        # behavioural: advancing one assembly leaves all the others untouched
        rx.axial_step0()
        nst = min(len(rx.z) - 1, 6)
        for i in range(1, nst + 1):
            z, dz = rx.z[i], rx.dz[i - 1]
            for ai, a in enumerate(rx.assemblies):
                before = [asm_state(o) for o in rx.assemblies]
                rx._calculate_asm_temperatures(a, ai, z, dz, False)
                after = [asm_state(o) for o in rx.assemblies]
                r['transitions'] += 1
                for oi in range(len(rx.assemblies)):
                    if oi != ai and before[oi] != after[oi]:
                        V.append(violation('step-touches-other-assembly', c,
                                           'advancing assembly %d changed the state (material / correlated '
                                           'parameters / temperatures) of assembly %d' % (ai, oi)))
                        break
                if V:
                    break
            if V:
                break
        r['states'] = nst * len(rx.assemblies)
    r['traces'] = 1
    r['nontrivial'] = len(comp) > 0
    r['outcome'] = 'ok' if not V else 'violation'
    return r


# ----------------------------------------------------------------------
def cases(tier):
    comp, order, sched, iso = [], [], [], []
    targets = ['single', 'bypass', 'pins', 'multi'] if tier == 'quick' else ['single', 'bypass', 'pins', 'multi', 'lowfi']
    coolants = ['sodium_se2anl_425', 'sodium']
    tols = [0.0, 0.01]
    for t in targets:
        for cool in coolants:
            for tol in tols:
                if tol and cool != 'sodium':
                    continue
                for k in COMPANY:
                    if k == 'alone':
                        continue
                    if tier == 'quick' and tol and k not in ('plus1-same', 'six-same', 'six-mixed'):
                        continue
                    if k.startswith('lowflow'):
                        # low-flow neighbours before and after the target in position order, with the
                        # low-flow convection approximation requested
                        for ca in (False, True):
                            comp.append(dict(target=t, coolant=cool, company=k, tol=tol, tpos='ring2',
                                             conv_approx=ca))
                        continue
                    comp.append(dict(target=t, coolant=cool, company=k, tol=tol))
                    if k in ('six-mixed', 'two-same') and (tier != 'quick' or t in ('single', 'bypass')):
                        comp.append(dict(target=t, coolant=cool, company=k, tol=tol, tpos='ring2'))
                for k in (('six-mixed',) if tier == 'quick' else ('six-mixed', 'two-same', 'six-same')):
                    if tol == 0.0:
                        order.append(dict(target=t, coolant=cool, company=k))
                        sched.append(dict(target=t, coolant=cool, company=k))
                for k in ('six-mixed', 'six-same', 'unrodded'):
                    if tol == 0.0:
                        iso.append(dict(target=t, coolant=cool, company=k))
    if tier == 'quick':
        # a low-fidelity type (bundle-equivalent correlations) among clones of itself
        for cool in coolants:
            for k in ('plus1-same', 'six-mixed'):
                comp.append(dict(target='lowfi', coolant=cool, company=k, tol=0.0))
        order.append(dict(target='lowfi', coolant='sodium', company='six-mixed'))
        sched.append(dict(target='lowfi', coolant='sodium', company='six-mixed'))
    if tier != 'quick':
        for t in targets:
            for cool in coolants:
                for flow in (0.2, 6.0):
                    for k in ('six-same', 'six-mixed'):
                        comp.append(dict(target=t, coolant=cool, company=k, tol=0.0, flow=flow))
    return comp, order, sched, iso


def cases_rangeline(tier):
    out = []
    ul = [{'temperature': 'kelvin', 'length': 'm', 'mass_flow_rate': 'kg/s'},
          {'temperature': 'celsius', 'length': 'm', 'mass_flow_rate': 'lb/s'},
          {'temperature': 'fahrenheit', 'length': 'm', 'mass_flow_rate': 'lb/hr'},
          {'temperature': 'kelvin', 'length': 'm', 'mass_flow_rate': 'kg/min'}]
    for t in (('single', 'bypass') if tier == 'quick' else ('single', 'bypass', 'pins', 'multi')):
        for u in ul:
            out.append(dict(target=t, units=u))
    return out


def main(run):
    run.rule = ('target type x coolant x company (+ update tolerance, flow) full product; all 6 permutations of the '
                'assignment lines and all 6 orders of the per-assembly updates in every step of 3-assembly cores; '
                'non-trivial = target has at least one neighbour')
    run.assumptions = ['adiabatic option; identical planes forced by a user axial step below every limit',
                       'bitwise comparison (==) of all temperature arrays and the pressure drop']
    comp, order, sched, iso = cases(run.tier)
    for lst in (comp, order, sched, iso):
        for c in lst:
            c['seed'] = run.seed % 4
    run.check_determinism(run_company, comp[0], project=lambda r: (r['outcome'], r['states'], str(r.get('info'))))
    run.explore('company', comp, run_company, budget_s=300)
    run.explore('order', order, run_order, budget_s=600)
    run.explore('schedule', sched, run_schedule, budget_s=600)
    run.explore('isolation', iso, run_isolation, budget_s=300)
    rl = cases_rangeline(run.tier)
    for c in rl:
        c['seed'] = run.seed % 4
    run.explore('rangeline', rl, run_rangeline, budget_s=300)
    run.explore('hotspot', hotspot_cases(run.tier), run_hotspot, budget_s=300, chunksize=1)
    # what is stored and printed per assembly is that assembly's own: energy-balance table of cores with several
    # positions of one type (vf/props/reports.py)
    from . import reports
    run.explore('report-ebal', [c_ for c_ in reports.cases_ebal(run.tier) if len(c_['layout'].split()) > 1],
                reports.run_ebal, budget_s=300)
    # per-assembly tables (AssemblyTables) of cores: each file holds the values of the assembly it is named after
    run.explore('report-asmtables', [c_ for c_ in reports.cases_asmtables(run.tier) if len(c_['layout'].split()) > 1],
                reports.run_asmtables_C06, budget_s=600)


def replay(body):
    from ..run import guarded
    if str((body.get('scenario') or {}).get('probe', '')).startswith('report-'):
        from . import reports
        return reports.replay(body)
    fn = {'company': run_company, 'order': run_order, 'schedule': run_schedule,
          'isolation': run_isolation, 'rangeline': run_rangeline, 'hotspot': run_hotspot}[body.get('part') or 'company']
    c = {k: v for k, v in body['scenario'].items() if k not in ('perm', 'attr', 'key')}
    r = guarded(fn, c, 900)
    for v in r['violations']:
        print('VIOLATION property=C06 replay=(inline) kind=%s %s observed=%s' % (v['kind'], v['what'], v.get('observed')))
    print('outcome', r['outcome'], r.get('info'))
    return 1 if r['violations'] else 0
