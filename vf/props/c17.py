"""C17  Results do not depend on the unit system of the input.

Alphabet: 5 length units x 3 temperature units x 6 mass-flow units = 90 unit
systems x input families (each family is ONE physical problem defined in SI).
For every (system, family) the harness writes the input text in the target
units with its own converter (exact factors, written here, never dassh's),
parses it with the real `DASSH_Input`, and compares EVERY leaf of
`DASSH_Input.data` with the leaf of the SI twin (same family written in
m / kelvin / kg/s, where dassh calls no converter at all).

Further parts: every accepted spelling (alias) of every unit once; the scalar
converters of `dassh.utils` for every ordered pair of units (round trip and
value); a swept subset (Reactor built and swept; mesh and temperatures against
the SI twin).

Tiers: quick = 90 systems x 17 data families (1530 parses; `full_a` + `full_b`
alone contain every dimensional key of input_template.txt, the others isolate
one section each) + every spelling once + scalar pairs + 5 swept systems that
together use every unit that parses; thorough = the same data part + every
mass x time x separator spelling + 90 systems x 2 swept families.

Tolerances (derived, not tuned)
* data leaves: |obs - ref| <= 1e-12 |ref| + 1e-12.  The harness conversion
  SI->unit and dassh's conversion unit->SI are each a handful of correctly
  rounded operations (<= 4 each, <= 0.5 ulp = 1.1e-16 relative per operation;
  temperature offsets act on magnitudes < 2e3 so the absolute error is
  < 1e-12), i.e. < 1e-15 relative; the smallest wrong factor that can occur
  (lb truncated to 6 digits) is 8e-7, every other fault is >= 4e-2.
* round trip: 8 ulp of the largest magnitude that occurs in the chain
  (<= 4 operations per direction, 0.5 ulp each).
* sweep: mesh 1e-12 (dassh rounds region boundaries to 1e-12 itself);
  temperatures 1e-9 K: inputs agree to ~1e-15 relative, the marching scheme
  is a smooth map of them with O(1) condition on a O(1e2 K) rise, plus
  round-off accumulated over <= 1e3 steps of O(1e-13 K) each.
"""
import copy
import math
import os
import traceback

import numpy as np

from ..run import new_result, violation, site_of, guarded
from .. import scenario as S

# ----------------------------------------------------------------------
# independent unit tables (exact definitions; harness side only)
LEN = {'m': 1.0, 'cm': 0.01, 'mm': 0.001, 'in': 0.0254, 'ft': 0.3048}      # metres per unit
TEMPS = ('kelvin', 'celsius', 'fahrenheit')
MASS = {'kg': 1.0, 'lb': 0.45359237}                                         # kg per unit
TIME = {'s': 1.0, 'min': 60.0, 'hr': 3600.0}                                 # s per unit
MFRS = tuple('%s/%s' % (m, t) for m in ('kg', 'lb') for t in ('s', 'min', 'hr'))
SI = ('m', 'kelvin', 'kg/s')
LB_DASSH = 0.453592            # the truncated constant in dassh/utils.py (only used to LABEL a difference)

# accepted spellings as documented in dassh/utils.py (harness copy; drift is checked)
ALIAS = {
    'length': {'cm': ['cm', 'centimeter', 'centimeters'], 'mm': ['mm', 'millimeter', 'millimeters'],
               'm': ['m', 'meter', 'meters'], 'in': ['in', 'inch', 'inches'], 'ft': ['ft', 'foot', 'feet']},
    'temperature': {'celsius': ['c', 'degc', 'celsius'], 'fahrenheit': ['f', 'degf', 'fahrenheit'],
                    'kelvin': ['k', 'degk', 'kelvin']},
    'mass': {'lb': ['lb', 'lbs', 'pound', 'pounds'], 'kg': ['kg', 'kgs', 'kilogram', 'kilograms']},
    'time': {'s': ['s', 'sec', 'secs', 'second', 'seconds'], 'min': ['m', 'min', 'mins', 'minute', 'minutes'],
             'hr': ['h', 'hr', 'hrs', 'hour', 'hours']},
}
DASSH_LISTS = {'length': {'cm': '_cm', 'mm': '_mm', 'm': '_m', 'in': '_in', 'ft': '_ft'},
               'temperature': {'celsius': '_degC', 'fahrenheit': '_degF', 'kelvin': '_degK'},
               'mass': {'lb': '_lb', 'kg': '_kg'},
               'time': {'s': '_sec', 'min': '_min', 'hr': '_hr'}}


def mfr_factor(u):
    """kg/s per one unit of u"""
    m, t = u.split('/')
    return MASS[m] / TIME[t]


def from_si(kind, x, L, T, M):
    """SI value -> number to be written in the (L, T, M) system.  kind in
    'L' length, 'T' absolute temperature, 'D' temperature difference, 'M' mass flow"""
    if kind == 'L':
        return x if L == 'm' else x / LEN[L]
    if kind == 'T':
        if T == 'kelvin':
            return x
        if T == 'celsius':
            return x - 273.15
        return x * 9.0 / 5.0 - 459.67
    if kind == 'D':
        return x * 9.0 / 5.0 if T == 'fahrenheit' else x
    if kind == 'M':
        return x if M == 'kg/s' else x / mfr_factor(M)
    raise ValueError(kind)


def to_si(kind, y, L, T, M):
    """exact definition of the inverse (used by the scalar part and for labelling)"""
    if kind == 'L':
        return y * LEN[L]
    if kind == 'T':
        if T == 'kelvin':
            return y
        if T == 'celsius':
            return y + 273.15
        return (y + 459.67) * 5.0 / 9.0
    if kind == 'D':
        return y * 5.0 / 9.0 if T == 'fahrenheit' else y
    if kind == 'M':
        return y * mfr_factor(M)
    raise ValueError(kind)


# ----------------------------------------------------------------------
# dimensional keys of input_template.txt (harness reading of the template)
SETUP_L = ('axial_mesh_size', 'conv_approx_dz_cutoff')
TYPE_L = ('pin_pitch', 'pin_diameter', 'clad_thickness', 'wire_pitch', 'wire_diameter')
REGION_L = ('z_lo', 'z_hi', 'hydraulic_diameter', 'epsilon')
PINMODEL_L = ('gap_thickness', 'fcgap_thickness')
BC_KIND = {'flowrate': 'M', 'outlet_temp': 'T', 'delta_temp': 'D'}

# every dimensional INPUT key (what the families together must contain)
ALL_INPUT_KEYS = sorted(
    ['Setup/' + k for k in SETUP_L] + ['Setup/axial_plane', 'Setup/Dump/interval',
                                        'Setup/AssemblyTables/*/axial_positions']
    + ['Core/length', 'Core/assembly_pitch', 'Core/coolant_inlet_temp']
    + ['Assembly/*/' + k for k in TYPE_L] + ['Assembly/*/duct_ftf']
    + ['Assembly/*/AxialRegion/*/' + k for k in REGION_L]
    + ['Assembly/*/SpacerGrid/axial_positions']
    + ['Assembly/*/FuelModel/' + k for k in PINMODEL_L]
    + ['Assembly/*/PinModel/' + k for k in PINMODEL_L]
    + ['Assignment/' + k for k in BC_KIND]
    + ['Orificing/bulk_coolant_temp'])

# dimensional leaves of DASSH_Input.data (generic path -> kind)
DIM_LEAVES = {
    'Setup/axial_mesh_size': 'L', 'Setup/conv_approx_dz_cutoff': 'L', 'Setup/axial_plane/*': 'L',
    'Setup/Dump/interval': 'L', 'Setup/AssemblyTables/*/axial_positions/*': 'L',
    'Core/length': 'L', 'Core/assembly_pitch': 'L', 'Core/coolant_inlet_temp': 'T',
    'Assembly/*/duct_ftf/*': 'L', 'Assembly/*/SpacerGrid/axial_positions/*': 'L',
    'Assembly/*/FuelModel/gap_thickness': 'L', 'Assembly/*/PinModel/gap_thickness': 'L',
    'Assignment/ByPosition/*/2/flowrate': 'M', 'Assignment/ByPosition/*/2/outlet_temp': 'T',
    'Orificing/bulk_coolant_temp': 'T',
}
for _k in TYPE_L:
    DIM_LEAVES['Assembly/*/' + _k] = 'L'
for _k in REGION_L:
    DIM_LEAVES['Assembly/*/AxialRegion/*/' + _k] = 'L'


def convert_scenario(scn, L, T, M, used=None):
    """Deep copy of an SI scenario with every dimensional value rewritten in the
    target system.  `used` (set) collects the dimensional input keys met."""
    used = set() if used is None else used
    s = copy.deepcopy(scn)

    def cl(x):
        return from_si('L', x, L, T, M)

    st = s.get('setup') or {}
    for k in SETUP_L:
        if st.get(k) is not None:
            st[k] = cl(st[k])
            used.add('Setup/' + k)
    if st.get('axial_plane') is not None:
        st['axial_plane'] = [cl(x) for x in st['axial_plane']]
        used.add('Setup/axial_plane')
    if (st.get('Dump') or {}).get('interval') is not None:
        st['Dump']['interval'] = cl(st['Dump']['interval'])
        used.add('Setup/Dump/interval')
    for t in (st.get('AssemblyTables') or {}).values():
        t['axial_positions'] = [cl(x) for x in t['axial_positions']]
        used.add('Setup/AssemblyTables/*/axial_positions')
    c = s['core']
    c['inlet'] = from_si('T', c.get('inlet', 623.15), L, T, M)
    c['length'] = cl(c['length'])
    c['pitch'] = cl(c['pitch'])
    used.update(['Core/length', 'Core/assembly_pitch', 'Core/coolant_inlet_temp'])
    for d in s['types'].values():
        for k in TYPE_L:
            d[k] = cl(d[k])
            used.add('Assembly/*/' + k)
        d['duct_ftf'] = [cl(x) for x in d['duct_ftf']]
        used.add('Assembly/*/duct_ftf')
        for reg in (d.get('AxialRegion') or {}).values():
            for k in REGION_L:
                if k in reg:
                    reg[k] = cl(reg[k])
                    used.add('Assembly/*/AxialRegion/*/' + k)
        if (d.get('SpacerGrid') or {}).get('axial_positions') is not None:
            d['SpacerGrid']['axial_positions'] = [cl(x) for x in d['SpacerGrid']['axial_positions']]
            used.add('Assembly/*/SpacerGrid/axial_positions')
        for mdl in ('FuelModel', 'PinModel'):
            for k in PINMODEL_L:
                if k in (d.get(mdl) or {}):
                    d[mdl][k] = cl(d[mdl][k])
                    used.add('Assembly/*/%s/%s' % (mdl, k))
    for a in s['assign']:
        for k in list(a[3]):
            a[3][k] = from_si(BC_KIND[k], a[3][k], L, T, M)
            used.add('Assignment/' + k)
    o = s.get('orificing')
    if o and o.get('bulk_coolant_temp') is not None:
        o['bulk_coolant_temp'] = from_si('T', o['bulk_coolant_temp'], L, T, M)
        used.add('Orificing/bulk_coolant_temp')
    s['units'] = {'temperature': T, 'length': L, 'mass_flow_rate': M}
    return s


# ----------------------------------------------------------------------
# input families: ONE physical problem each, in SI
_REG2 = {'lower': {'z_lo': 0.0, 'z_hi': 0.1, 'vf_coolant': 0.3, 'hydraulic_diameter': 0.004,
                   'epsilon': 1e-5},
         'upper': {'z_lo': 0.3, 'z_hi': 0.4, 'vf_coolant': 0.35, 'hydraulic_diameter': 0.0055,
                   'epsilon': 2.5e-5}}
_REG_NOEPS = {'lower': {'z_lo': 0.0, 'z_hi': 0.125, 'vf_coolant': 0.3, 'hydraulic_diameter': 0.004},
              'upper': {'z_lo': 0.275, 'z_hi': 0.4, 'vf_coolant': 0.35, 'hydraulic_diameter': 0.0055}}
_FUEL = {'clad_material': 'ht9', 'gap_material': 'sodium', 'r_frac': [0.0, 0.33333, 0.66667],
         'pu_frac': [0.2, 0.2, 0.2], 'zr_frac': [0.1, 0.1, 0.1], 'porosity': [0.25, 0.25, 0.25]}
_PIN = {'clad_material': 'ht9', 'gap_material': 'sodium', 'r_frac': [0.0, 0.5],
        'pin_material': ['ss316', 'ss316']}
_PW2 = {'rings': 2, 'cells': [0.0, 0.2, 0.4], 'q': 5000.0, 'pins': 'tilt', 'axial': ['up', 'down']}
_PW2D = dict(_PW2, nduct=2, duct='uniform')


def _core7(bcs):
    """seven assemblies: centre + ring 2; bcs = list of (type name, bc dict) per position"""
    pos = S.core_positions(2)
    return [[bcs[i][0], pos[i][0], pos[i][1], dict(bcs[i][1])] for i in range(7)]


def families():
    F = {}
    # -- full_a: everything that can be given is given --------------------
    A = S.design(2, regions=_REG2, spacer={'corr': 'REH', 'axial_positions': [0.15, 0.2, 0.25], 'solidity': 0.2},
                 fuelmodel=dict(_FUEL, gap_thickness=6e-5))
    B = S.design(2, ducts=2, oftf=0.06, pinmodel=dict(_PIN, fcgap_thickness=4e-5),
                 regions={'shield': {'z_lo': 0.0, 'z_hi': 0.05, 'vf_coolant': 0.4,
                                     'hydraulic_diameter': 0.003, 'epsilon': 5e-6}})
    bcs = [('A', {'flowrate': 0.5})] + [('B', {'outlet_temp': 773.15})] * 2 + [('B', {'flowrate': 0.3})] \
        + [('A', {'delta_temp': 120.0})] * 2 + [('A', {'outlet_temp': 803.15})]
    pw = {'asm': {str(i + 1): (_PW2 if bcs[i][0] == 'A' else _PW2D) for i in range(7)}}
    F['full_a'] = {
        'setup': {'axial_mesh_size': 0.005, 'axial_plane': [0.05, 0.125, 0.33], 'conv_approx': True,
                  'conv_approx_dz_cutoff': 0.002,
                  'Dump': {'coolant': True, 'interval': 0.02},
                  'AssemblyTables': {'t1': {'type': 'coolant_subchannel', 'assemblies': [1, 2],
                                            'axial_positions': [0.15, 0.25]},
                                     't2': {'type': 'duct_mw', 'assemblies': [3], 'axial_positions': [0.2]},
                                     't3': {'type': 'clad_od', 'assemblies': [1], 'axial_positions': [0.175, 0.225]}}},
        'core': {'inlet': 623.15, 'length': 0.4, 'pitch': 0.064, 'gap_model': 'flow', 'bypass_fraction': 0.01,
                 'coolant': 'sodium_se2anl_425'},
        'types': {'A': A, 'B': B}, 'assign': _core7(bcs), 'power': pw,
        'orificing': {'assemblies_to_group': ['A'], 'n_groups': 2, 'value_to_optimize': 'peak coolant temp',
                      'bulk_coolant_temp': 783.15, 'pressure_drop_limit': 0.5}}
    # -- full_b: defaults everywhere (no Setup keys), the alternative spellings ----
    A = S.design(2, regions=_REG_NOEPS, fuelmodel=dict(_FUEL, fcgap_thickness=5e-5))
    B = S.design(2, pinmodel=dict(_PIN, gap_thickness=3e-5))
    bcs = [('A', {'outlet_temp': 783.15})] + [('B', {'delta_temp': 150.0})] * 3 + [('A', {'flowrate': 0.45})] * 3
    F['full_b'] = {
        'setup': {},
        'core': {'inlet': 628.15, 'length': 0.4, 'pitch': 0.0645, 'gap_model': 'no_flow',
                 'coolant': 'sodium'},
        'types': {'A': A, 'B': B}, 'assign': _core7(bcs),
        'power': {'asm': {str(i + 1): _PW2 for i in range(7)}}}
    # -- narrow families (one section each) -------------------------------
    P = S.design(2)
    F['core_min'] = S.single(P, 0.5, power=_PW2)
    F['setup'] = S.single(P, 0.5, power=_PW2, setup=copy.deepcopy(F['full_a']['setup']))
    F['setup']['setup']['AssemblyTables'] = {'t1': {'type': 'coolant_subchannel', 'assemblies': [1],
                                                    'axial_positions': [0.1, 0.3]}}
    # every optional dimensional Setup key ALONE (a conversion must not depend on another key being given)
    F['setup_mesh'] = S.single(P, 0.5, power=_PW2, setup={'axial_mesh_size': 0.005})
    F['setup_plane'] = S.single(P, 0.5, power=_PW2, setup={'axial_plane': [0.05, 0.125, 0.33]})
    F['setup_dump'] = S.single(P, 0.5, power=_PW2, setup={'Dump': {'coolant': True, 'interval': 0.02}})
    # a flow at which the cutoff decides (requirement 0.9 mm without, 3.7 mm with the low-flow wall treatment)
    F['setup_cutoff'] = S.single(P, 0.05, power=_PW2, gap_model='no_flow',
                                 setup={'conv_approx': True, 'conv_approx_dz_cutoff': 0.002})
    # a very low but valid flow rate (0.4 g/s)
    F['tiny_flow'] = S.single(P, 4.0e-4, power=_PW2)
    F['setup_tables'] = S.single(P, 0.5, power=_PW2, setup={'AssemblyTables': {
        't1': {'type': 'coolant_subchannel', 'assemblies': [1], 'axial_positions': [0.1, 0.3]}}})
    F['regions'] = S.single(S.design(2, regions=_REG2), 0.5, power=_PW2)
    F['regions_noeps'] = S.single(S.design(2, regions=_REG_NOEPS), 0.5, power=_PW2)
    F['spacer'] = S.single(S.design(2, wire=False, corr=('CTD', 'CTD', 'CTD'),
                                    spacer={'corr': 'CDD', 'axial_positions': [0.1, 0.2, 0.3]}), 0.5, power=_PW2)
    F['spacer_sol'] = S.single(S.design(2, wire=False, corr=('CTD', 'CTD', 'CTD'),
                                        spacer={'corr': 'CDD', 'axial_positions': [0.1, 0.2, 0.3], 'solidity': 0.25}),
                               0.5, power=_PW2)
    F['spacer_k'] = S.single(S.design(2, wire=False, corr=('CTD', 'CTD', 'CTD'),
                                      spacer={'loss_coeff': 1.5, 'axial_positions': [0.1, 0.2, 0.3]}), 0.5, power=_PW2)
    F['fuelmodel'] = S.single(S.design(2, fuelmodel=dict(_FUEL, gap_thickness=6e-5)), 0.5, power=_PW2)
    F['fuelmodel_fc'] = S.single(S.design(2, fuelmodel=dict(_FUEL, fcgap_thickness=6e-5)), 0.5, power=_PW2)
    F['pinmodel'] = S.single(S.design(2, pinmodel=dict(_PIN, gap_thickness=3e-5)), 0.5, power=_PW2)
    F['pinmodel_fc'] = S.single(S.design(2, pinmodel=dict(_PIN, fcgap_thickness=3e-5)), 0.5, power=_PW2)
    F['bc_outlet'] = S.single(P, 0.5, power=_PW2)
    F['bc_outlet']['assign'][0][3] = {'outlet_temp': 793.15}
    F['bc_delta'] = S.single(P, 0.5, power=_PW2)
    F['bc_delta']['assign'][0][3] = {'delta_temp': 135.0}
    # ring 2 assigned by ONE assignment line spanning six positions
    for nm, bc in (('range_flow', {'flowrate': 0.45}), ('range_outlet', {'outlet_temp': 793.15}),
                   ('range_delta', {'delta_temp': 135.0})):
        Fr = S.single(P, 0.5, power=_PW2)
        Fr['assign'] = [['A', 1, 1, {'flowrate': 0.5}], ['A', 2, 1, dict(bc), 6]]
        Fr['power'] = {'asm': {str(i + 1): dict(_PW2) for i in range(7)}}
        F[nm] = Fr
    # cores with empty positions (the position list is longer than the list of assemblies): every
    # assembly's boundary condition must still be converted, wherever the holes are
    for nm, bc, holes in (('holes_flow', {'flowrate': 0.45}, (3,)), ('holes_outlet', {'outlet_temp': 793.15}, (0, 4)),
                          ('holes_delta', {'delta_temp': 135.0}, (1, 2, 5))):
        Fh = S.single(P, 0.5, power=_PW2)
        pos = S.core_positions(2)
        Fh['assign'] = [['A', rg, pp, dict(bc)] for i, (rg, pp) in enumerate(pos) if i not in holes]
        Fh['power'] = {'asm': {str(i + 1): dict(_PW2) for i in range(7) if i not in holes}}
        F[nm] = Fh
    F['orificing'] = S.single(P, 0.5, power=_PW2)
    F['orificing']['orificing'] = dict(F['full_a']['orificing'])
    F['multiduct'] = S.single(S.design(2, ducts=2, oftf=0.07), 0.5, power=_PW2D)
    # NaK below 0 degC (liquid down to -12.6 degC): every number positive in kelvin
    # and fahrenheit, the inlet temperature negative in celsius
    F['cold_nak'] = S.single(P, 0.5, power=_PW2, coolant='nak', inlet=268.15)
    # -- swept families ---------------------------------------------------
    # (region boundaries 0.125 / 0.275 m: not all unit round trips reproduce them bit for bit)
    reg = copy.deepcopy(_REG_NOEPS)
    reg['lower']['epsilon'] = 1e-5
    reg['upper']['epsilon'] = 2.5e-5
    F['sw_single'] = S.single(S.design(3, regions=reg), 1.2, coolant='sodium',
                              power={'rings': 3, 'cells': [0.0, 0.2, 0.4], 'q': 9000.0, 'pins': 'tilt',
                                     'duct': 'uniform', 'axial': ['up', 'down']},
                              setup={'axial_plane': [0.15, 0.27]})
    # the low-flow wall treatment with its cutoff given in the input unit, at a flow where the cutoff decides
    F['sw_cutoff'] = copy.deepcopy(F['setup_cutoff'])
    A = S.design(2, regions=_REG_NOEPS)
    B = S.design(2, ducts=2, oftf=0.06)
    bcs = [('A', {'flowrate': 0.5})] + [('B', {'outlet_temp': 773.15})] * 2 + [('B', {'flowrate': 0.45})] \
        + [('A', {'delta_temp': 120.0})] * 2 + [('A', {'outlet_temp': 803.15})]
    pa, pb = dict(_PW2, q=30000.0), dict(_PW2D, q=30000.0)
    F['sw_core7'] = {
        'setup': {'axial_mesh_size': 0.004},
        'core': {'inlet': 623.15, 'length': 0.4, 'pitch': 0.064, 'gap_model': 'flow', 'bypass_fraction': 0.05,
                 'coolant': 'sodium_se2anl_425'},
        'types': {'A': A, 'B': B}, 'assign': _core7(bcs),
        'power': {'asm': {str(i + 1): (pa if bcs[i][0] == 'A' else pb) for i in range(7)}}}
    return F


DATA_FAMILIES = ('full_a', 'full_b', 'core_min', 'setup', 'regions', 'regions_noeps', 'spacer', 'spacer_sol', 'fuelmodel',
                 'fuelmodel_fc', 'pinmodel', 'pinmodel_fc', 'bc_outlet', 'bc_delta', 'orificing', 'multiduct', 'cold_nak',
                 'range_flow', 'range_outlet', 'range_delta',
                 'setup_mesh', 'setup_plane', 'setup_dump', 'setup_cutoff', 'setup_tables', 'tiny_flow',
                 'holes_flow', 'holes_outlet', 'holes_delta', 'spacer_k')
SWEEP_FAMILIES = ('sw_single', 'sw_core7', 'sw_cutoff')
QUICK_SWEEPS = (('cm', 'celsius', 'kg/s'), ('mm', 'fahrenheit', 'lb/min'), ('in', 'kelvin', 'lb/hr'),
                ('ft', 'celsius', 'kg/s'), ('m', 'fahrenheit', 'kg/s'))
_FAM = None


def fam(name):
    global _FAM
    if _FAM is None:
        _FAM = families()
    return _FAM[name]


# ----------------------------------------------------------------------
# walking DASSH_Input.data
SKIP = ('Setup/Units/', 'Power/user_power')
WILD_AFTER = ('Assembly', 'AxialRegion', 'AssemblyTables', 'Hotspot', 'Materials', 'Plot')


def generic(path):
    """assembly / region / table names and list indices -> '*' (the index inside
    one assignment entry, ByPosition/<i>/<k>, is kept)"""
    parts = path.split('/')
    out = []
    for i, p in enumerate(parts):
        if i > 0 and parts[i - 1] in WILD_AFTER:
            out.append('*')
        elif p.isdigit() and not (i >= 2 and parts[i - 2] == 'ByPosition'):
            out.append('*')
        else:
            out.append(p)
    return '/'.join(out)


def leaves(data):
    """flat {path: leaf}; containers become paths; numpy scalars -> python"""
    out = {}

    def walk(o, p):
        if any((p + '/').startswith(s) or p.startswith(s) for s in SKIP):
            return
        if isinstance(o, dict):
            if not o:
                out[p] = '{}'
            for k in sorted(o, key=str):
                walk(o[k], (p + '/' if p else '') + str(k))
        elif isinstance(o, np.ndarray):
            walk(o.tolist(), p)
        elif isinstance(o, (list, tuple)):
            seq = list(o)
            if p == 'Setup/axial_plane':
                # dassh builds this list with list(set(...)): the order carries no meaning
                seq = sorted(seq, key=lambda v: (not isinstance(v, (int, float)), v if isinstance(v, (int, float)) else str(v)))
            if not seq:
                out[p] = '[]'
            for i, x in enumerate(seq):
                walk(x, '%s/%d' % (p, i))
        elif isinstance(o, (bool, np.bool_)):
            out[p] = bool(o)
        elif isinstance(o, (int, np.integer)):
            out[p] = int(o)
        elif isinstance(o, (float, np.floating)):
            out[p] = float(o)
        elif o is None or isinstance(o, str):
            out[p] = o
        else:
            out[p] = 'OBJ:' + type(o).__name__
    walk(data, '')
    return out


def is_num(v):
    return isinstance(v, (int, float)) and not isinstance(v, bool)


def near(a, b, rel=1e-9):
    return abs(a - b) <= rel * max(abs(a), abs(b)) + 1e-300


def classify(obs, ref, L, T, M):
    """label a numeric difference: returns (kind, text)"""
    f = LEN[L]
    g = mfr_factor(M)
    m, t = M.split('/')
    ratio = obs / ref if ref != 0 else float('inf')
    off = obs - ref
    txt = 'factor %.12g, offset %.12g' % (ratio, off)
    if ref != 0:
        if m == 'lb' and near(ratio, LB_DASSH / MASS['lb'], 1e-12):
            return 'lb-factor-truncated', txt + ' (= 0.453592 / 0.45359237)'
        if f != 1.0:
            if near(ratio, 1.0 / f):
                return 'leaf-not-converted', txt + ' (length left in %s)' % L
            if near(ratio, f):
                return 'leaf-converted-twice', txt + ' (length factor applied twice)'
            if near(ratio, 1.0 / f ** 2):
                return 'leaf-converted-backwards', txt + ' (length factor inverted)'
        if g != 1.0:
            if near(ratio, 1.0 / g):
                return 'leaf-not-converted', txt + ' (mass flow left in %s)' % M
            if near(ratio, g):
                return 'leaf-converted-twice', txt + ' (mass-flow factor applied twice)'
            if near(ratio, 1.0 / g ** 2):
                return 'leaf-converted-backwards', txt + ' (mass-flow factor inverted)'
            if MASS[m] != 1.0 and (near(ratio, 1.0 / MASS[m]) or near(ratio, MASS[m])):
                return 'leaf-partially-converted', txt + ' (mass part only)'
            if TIME[t] != 1.0 and (near(ratio, TIME[t]) or near(ratio, 1.0 / TIME[t])):
                return 'leaf-partially-converted', txt + ' (time part only)'
    if T == 'celsius':
        if near(off, -273.15):
            return 'leaf-not-converted', txt + ' (temperature left in celsius)'
        if near(off, 273.15):
            return 'offset-applied-twice', txt + ' (+273.15: delta treated as absolute, or converted twice)'
    if T == 'fahrenheit':
        if near(obs, ref * 1.8 - 459.67):
            return 'leaf-not-converted', txt + ' (temperature left in fahrenheit)'
        if near(off, 459.67 * 5.0 / 9.0):
            return 'offset-applied-twice', txt + ' (+459.67*5/9: delta treated as absolute)'
        if near(obs, (ref + 459.67) * 5.0 / 9.0):
            return 'leaf-converted-twice', txt + ' (fahrenheit conversion applied twice)'
        if ref != 0 and (near(ratio, 1.8) or near(ratio, 5.0 / 9.0)):
            return 'leaf-differs', txt + ' (fahrenheit scale only)'
    return 'leaf-differs', txt


def exit_site(e):
    """innermost frame of read_input.py (else innermost dassh frame), the logger
    excluded (SystemExit comes from LoggedClass.log)"""
    inner = None
    rd = None
    for fr in traceback.extract_tb(e.__traceback__):
        if os.sep + 'dassh' + os.sep in fr.filename and '/verif/' not in fr.filename and fr.name != 'log':
            inner = fr
            if os.path.basename(fr.filename) == 'read_input.py':
                rd = fr
    inner = rd or inner
    if inner is None:
        return site_of(e)
    return '%s@%s:%s' % (type(e).__name__, os.path.basename(inner.filename), inner.name)


def tb_has(e, fn):
    return any(fr.name == fn for fr in traceback.extract_tb(e.__traceback__))


# ----------------------------------------------------------------------
_SI_CACHE = {}


def si_leaves(family):
    """leaves of the SI twin (parsed by the real DASSH_Input; cached per worker);
    ('ok', leaves) or ('raises', site, text)"""
    if family not in _SI_CACHE:
        scn = convert_scenario(fam(family), *SI)
        scn['units'] = None          # the SI twin leaves the Units block at its defaults
        try:
            with S.Built(scn) as b:
                _SI_CACHE[family] = ('ok', leaves(b.inp().data))
        except (Exception, SystemExit) as e:
            _SI_CACHE[family] = ('raises', exit_site(e), '%s: %s' % (type(e).__name__, str(e)[:200]))
    return _SI_CACHE[family]


def vio(V, kind, c, what, obs=None, exp=None, tol=None, site=None, **fields):
    sc = dict(c)
    sc.update(fields)
    V.append(violation(kind, sc, what, obs, exp, tol, site=site))


def parse_target(c, scn, r, units_override=None):
    """write + parse the target input; returns leaves or None (violation appended)"""
    V = r['violations']
    if units_override:
        scn['units'] = units_override
    try:
        with S.Built(scn) as b:
            inp = b.inp()
        r['transitions'] += 1
        return leaves(inp.data)
    except SystemExit as e:
        vio(V, 'unit-input-rejected', c, 'input accepted in SI is rejected in %s/%s/%s'
            % (c['length_unit'], c['temp_unit'], c['mfr_unit']), site=exit_site(e), leaf='-')
        r['outcome'] = 'rejected'
    except ValueError as e:
        if 'Cannot convert unit to itself' in str(e) and tb_has(e, 'convert_mass_flow_rate'):
            vio(V, 'mfr-identity-conversion', c,
                'ValueError: %s (convert_mass_flow_rate asks for the kg->kg or s->s converter)' % e,
                site='ValueError@read_input.py:convert_mass_flow_rate', leaf='Assignment/ByPosition/*/2/flowrate')
            r['outcome'] = 'mfr-raises'
        else:
            vio(V, 'parse-exception', c, 'ValueError: %s' % str(e)[:200], site=exit_site(e), leaf='-')
            r['outcome'] = 'exception'
    except Exception as e:
        vio(V, 'parse-exception', c, '%s: %s' % (type(e).__name__, str(e)[:200]), site=exit_site(e), leaf='-')
        r['outcome'] = 'exception'
    return None


def compare_leaves(c, got, ref, r):
    """every leaf against the SI twin; one violation per (kind, generic leaf)"""
    V = r['violations']
    L, T, M = c['length_unit'], c['temp_unit'], c['mfr_unit']
    seen = {}
    dim = {}

    def add(kind, path, what, obs, exp, tol=None):
        gp = generic(path)
        key = (kind, gp)
        if key in seen:
            seen[key]['n'] += 1
            return
        seen[key] = {'n': 1, 'kind': kind, 'gp': gp, 'path': path, 'what': what, 'obs': obs, 'exp': exp, 'tol': tol}

    for p in sorted(set(got) | set(ref)):
        r['states'] += 1
        if p not in got:
            add('leaf-missing', p, 'leaf present in the SI twin is absent', None, ref[p])
            continue
        if p not in ref:
            add('leaf-extra', p, 'leaf absent in the SI twin', got[p], None)
            continue
        a, b = got[p], ref[p]
        gp = generic(p)
        if is_num(a) and is_num(b):
            if gp in DIM_LEAVES and b != 0:
                dim[gp] = dim.get(gp, 0) + 1
            tol = 1e-12 * abs(b) + 1e-12
            if not (abs(a - b) <= tol):       # also catches NaN
                kind, txt = classify(float(a), float(b), L, T, M)
                add(kind, p, txt, a, b, tol)
        elif a != b or type(a) is not type(b):
            if (a is None) != (b is None) and (is_num(a) or is_num(b)):
                add('default-depends-on-units', p, 'value %r where the SI twin has %r' % (a, b), a, b)
            else:
                add('leaf-differs', p, 'non-numeric leaf %r where the SI twin has %r' % (a, b), a, b)
    for key in sorted(seen):
        s = seen[key]
        vio(V, s['kind'], c, '%s: %s%s' % (s['path'], s['what'], ' (%d leaves of this key)' % s['n'] if s['n'] > 1 else ''),
            s['obs'], s['exp'], s['tol'], site=s['gp'], leaf=s['gp'])
    return dim, sorted(set(k for k, _ in seen))


def run_data(c):
    r = new_result()
    L, T, M = c['length_unit'], c['temp_unit'], c['mfr_unit']
    used = set()
    scn = convert_scenario(fam(c['family']), L, T, M, used)
    twin = si_leaves(c['family'])
    r['transitions'] += 1
    r['nontrivial'] = (L, T, M) != SI
    r['extra'] = {'input_keys': {k: 1 for k in sorted(used)}}
    got = parse_target(c, scn, r, c.get('units_as_written'))
    if twin[0] != 'ok':
        # the SI spelling of the problem does not parse: the behaviour depends on
        # the unit system whenever another spelling of the same problem does
        if got is not None:
            vio(r['violations'], 'si-twin-raises', c,
                'the problem parses in %s/%s/%s but its SI spelling raises %s' % (L, T, M, twin[2]),
                'parsed', twin[2], site=twin[1], leaf='-')
            r['outcome'] = 'si-twin-raises'
        return r
    ref = twin[1]
    if got is None:
        return r
    dim, kinds = compare_leaves(c, got, ref, r)
    r['traces'] = 1
    r['extra']['dim_leaves'] = dim
    r['outcome'] = 'equal' if not kinds else 'differs:' + '+'.join(kinds)
    r['info'] = {'leaves': len(ref), 'dimensional_nonzero': int(sum(dim.values()))}
    return r


# ----------------------------------------------------------------------
def _swept(scn):
    with S.Built(scn) as b:
        inp = b.inp()
        lv = leaves(inp.data)
        rx = b.reactor(inp)
        rx.temperature_sweep()
    out = {'z': np.array(rx.z, dtype=float), 'asm': []}
    for a in rx.assemblies:
        d = {'flow': float(a.flow_rate), 'avg_out': float(a.avg_coolant_temp),
             'peak_cool': float(a._peak['cool'][0]), 'peak_cool_z': float(a._peak['cool'][1]),
             'peak_duct': [float(x[0]) for x in a._peak['duct']],
             'cool_out': np.array(a.temp_coolant, dtype=float).ravel(),
             'duct_out': np.array(a.temp_duct_mw, dtype=float).ravel()}
        out['asm'].append(d)
    return lv, out


_SI_SWEEP = {}


def run_sweep(c):
    r = new_result()
    V = r['violations']
    L, T, M = c['length_unit'], c['temp_unit'], c['mfr_unit']
    r['nontrivial'] = (L, T, M) != SI
    if c['family'] not in _SI_SWEEP:
        s0 = convert_scenario(fam(c['family']), *SI)
        s0['units'] = None
        _SI_SWEEP[c['family']] = _swept(s0)
    lv0, ref = _SI_SWEEP[c['family']]
    scn = convert_scenario(fam(c['family']), L, T, M)     # the power CSV stays in metres (power._from_file)
    try:
        lv, got = _swept(scn)
    except SystemExit as e:
        vio(V, 'unit-input-rejected', c, 'input that runs in SI is rejected in %s/%s/%s' % (L, T, M),
            site=exit_site(e), leaf='-')
        r['outcome'] = 'rejected'
        return r
    except ValueError as e:
        if 'Cannot convert unit to itself' in str(e) and tb_has(e, 'convert_mass_flow_rate'):
            vio(V, 'mfr-identity-conversion', c, 'ValueError: %s' % e,
                site='ValueError@read_input.py:convert_mass_flow_rate', leaf='Assignment/ByPosition/*/2/flowrate')
            r['outcome'] = 'mfr-raises'
            return r
        raise
    r['transitions'] = 2 * len(ref['z'])
    r['states'] = len(got['z']) * len(got['asm'])
    r['traces'] = 1
    # which data leaves differ (reported by the data part; here only to attribute the sweep difference)
    dd = set()
    ulp = 0
    for p in lv0:
        a, b = lv.get(p), lv0[p]
        if is_num(a) and is_num(b) and not abs(a - b) <= 1e-12 * abs(b) + 1e-12:
            dd.add(classify(float(a), float(b), L, T, M)[0] + ':' + generic(p).split('/')[-1])
        elif is_num(a) and is_num(b) and a < b and generic(p).split('/')[-1] in ('z_lo', 'z_hi'):
            ulp += 1          # equal to round-off, but a last-digit lower than in the SI twin
    cause = ','.join(sorted(dd)) or 'none'
    bad = []
    if len(got['z']) != len(ref['z']):
        vio(V, 'sweep-mesh', c, 'number of axial planes differs from the SI twin', len(got['z']), len(ref['z']),
            site='Reactor.z', leaf='Reactor.z', data_defects=cause, region_bounds_ulp_low=ulp)
        r['outcome'] = 'mesh-differs'
        return r
    dz = float(np.max(np.abs(got['z'] - ref['z'])))
    if not dz <= 1e-12:
        vio(V, 'sweep-mesh', c, 'axial mesh differs from the SI twin (max |dz|)', dz, 0.0, 1e-12,
            site='Reactor.z', leaf='Reactor.z', data_defects=cause, region_bounds_ulp_low=ulp)
        bad.append('mesh')
    worst = 0.0
    where = None
    for i, (a, b) in enumerate(zip(got['asm'], ref['asm'])):
        for k in ('avg_out', 'peak_cool', 'peak_duct', 'cool_out', 'duct_out'):
            d = float(np.max(np.abs(np.asarray(a[k], dtype=float) - np.asarray(b[k], dtype=float))))
            if not d <= worst:
                worst, where = d, 'assembly %d %s' % (i + 1, k)
    if not worst <= 1e-9:
        dec = int(math.floor(math.log10(worst))) if worst == worst and 0 < worst < float('inf') else 99
        vio(V, 'sweep-temperature', c, 'temperatures differ from the SI twin; largest at %s (data leaves that differ: %s; '
            'region boundaries that agree to round-off but are a last digit lower: %d)' % (where, cause, ulp), worst, 0.0,
            1e-9, site='temperatures|%s|%s' % (cause, 'bound-ulp-low' if ulp else 'bounds-same'), leaf='temperatures',
            data_defects=cause, region_bounds_ulp_low=ulp, max_dT_decade=dec)
        bad.append('temperature')
    r['outcome'] = 'equal' if not bad else 'differs:' + '+'.join(bad)
    r['info'] = {'planes': len(ref['z']), 'max_dT': worst, 'max_dz': dz, 'data_defects': cause,
                 'region_bounds_ulp_low': ulp}
    return r


# ----------------------------------------------------------------------
GRID = {
    'length': [0.0, 1e-6, 1e-3, 0.00635, 0.0254, 0.1, 0.3048, 1.0, 3.86, 12.0, 1e3, -0.4],
    'temperature': [-40.0, 0.0, 32.0, 100.0, 273.15, 350.0, 459.67, 623.15, 1000.0, 2500.0],
    'mass': [0.0, 1e-3, 0.453592, 0.45359237, 1.0, 2.2, 30.0, 1e4],
    'time': [0.0, 1e-3, 1.0, 60.0, 3600.0, 7.5, 1e5],
}
KINDS = {'length': ('get_length_conversion', ['m', 'cm', 'mm', 'in', 'ft'], 'm'),
         'temperature': ('get_temperature_conversion', ['kelvin', 'celsius', 'fahrenheit'], 'kelvin'),
         'mass': ('get_mass_conversion', ['kg', 'lb'], 'kg'),
         'time': ('get_time_conversion', ['s', 'min', 'hr'], 's')}


def _to_base(kind, u, x):
    if kind == 'length':
        return x * LEN[u]
    if kind == 'temperature':
        return to_si('T', x, 'm', u, 'kg/s')
    if kind == 'mass':
        return x * MASS[u]
    return x * TIME[u]


def _from_base(kind, u, x):
    if kind == 'length':
        return x / LEN[u]
    if kind == 'temperature':
        return from_si('T', x, 'm', u, 'kg/s')
    if kind == 'mass':
        return x / MASS[u]
    return x / TIME[u]


def run_scalar(c):
    from dassh import utils
    r = new_result()
    V = r['violations']
    kind, a, b = c['quantity'], c['from_unit'], c['to_unit']
    getter = getattr(utils, KINDS[kind][0])
    base = KINDS[kind][2]
    sa, sb = c.get('from_spelling', a), c.get('to_spelling', b)
    r['nontrivial'] = True
    try:
        fwd = getter(sa, sb)
        back = getter(sb, sa)
    except ValueError as e:
        if a == b and 'itself' in str(e):
            r['outcome'] = 'identity-raises'
        elif base not in (a, b) and 'Only convert to/from' in str(e):
            r['outcome'] = 'not-offered(neither is the base unit)'
        else:
            vio(V, 'scalar-converter-raises', c, 'ValueError: %s' % e, site=site_of(e), leaf='utils.' + KINDS[kind][0])
            r['outcome'] = 'exception'
        return r
    eps = np.finfo(float).eps
    worst = 0.0
    for x in GRID[kind]:
        y = fwd(x)
        x2 = back(y)
        r['states'] += 1
        r['transitions'] += 2
        exact = _from_base(kind, b, _to_base(kind, a, x))
        floor = 459.67 if kind == 'temperature' else 0.0
        tol_rt = 8 * eps * max(abs(x), abs(y), floor)
        worst = max(worst, abs(x2 - x) / (eps * max(abs(x), abs(y), floor, 1e-300)))
        if not abs(x2 - x) <= tol_rt:
            vio(V, 'round-trip', c, '%s: %r -> %s -> back gives %r' % (kind, x, sb, x2), x2, x, tol_rt,
                site='utils.' + KINDS[kind][0], leaf='%s->%s' % (a, b))
            break
        tol_v = 1e-12 * abs(exact) + (1e-12 if kind == 'temperature' else 1e-300)
        if not abs(y - exact) <= tol_v:
            if kind == 'mass' and exact != 0 and (near(y / exact, LB_DASSH / MASS['lb'], 1e-12)
                                                   or near(y / exact, MASS['lb'] / LB_DASSH, 1e-12)):
                vio(V, 'lb-factor-truncated', c, 'pound taken as 0.453592 kg (exactly 0.45359237): %r %s = %r %s, exact %r'
                    % (x, a, y, b, exact), y, exact, tol_v, site='utils.get_mass_conversion', leaf='%s->%s' % (a, b))
            else:
                vio(V, 'scalar-value', c, '%r %s converted to %r %s, exact %r' % (x, a, y, b, exact), y, exact, tol_v,
                    site='utils.' + KINDS[kind][0], leaf='%s->%s' % (a, b))
            break
    r['traces'] = 1
    r['outcome'] = 'ok' if not V else 'differs'
    r['info'] = {'round_trip_worst_ulp': round(worst, 3)}
    return r


def run_case(c):
    if c['mode'] == 'scalar':
        return run_scalar(c)
    if c['mode'] == 'sweep':
        return run_sweep(c)
    return run_data(c)


# ----------------------------------------------------------------------
def systems():
    return [(L, T, M) for L in ('m', 'cm', 'mm', 'in', 'ft') for T in TEMPS for M in MFRS]


def data_cases(tier):
    fams = DATA_FAMILIES        # cheap enough for both tiers (full_a + full_b alone contain every key)
    return [{'mode': 'data', 'family': f, 'length_unit': L, 'temp_unit': T, 'mfr_unit': M}
            for f in fams for (L, T, M) in systems()]


def alias_cases(tier):
    """every accepted spelling of every unit once, in an input whose other units
    convert (quick); every mass x time x separator spelling (thorough)"""
    out = []

    def case(L, T, M, written, what):
        out.append({'mode': 'alias', 'family': 'setup', 'length_unit': L, 'temp_unit': T, 'mfr_unit': M,
                    'spelling': what, 'units_as_written': written})
    for u, names in sorted(ALIAS['length'].items()):
        for n in names + [names[0].upper()]:
            case(u, 'celsius', 'kg/s', {'length': n, 'temperature': 'celsius', 'mass_flow_rate': 'kg/s'}, n)
    for u, names in sorted(ALIAS['temperature'].items()):
        for n in names + [names[-1].capitalize()]:
            case('cm', u, 'kg/s', {'length': 'cm', 'temperature': n, 'mass_flow_rate': 'kg/s'}, n)

    def mcase(m, t, w):
        case('in', 'fahrenheit', '%s/%s' % (m, t), {'length': 'in', 'temperature': 'fahrenheit', 'mass_flow_rate': w}, w)
    if tier == 'quick':
        for mn in ALIAS['mass']['kg']:
            mcase('kg', 's', mn + '/s')
        for mn in ALIAS['mass']['lb']:
            mcase('lb', 'min', mn + '/min')
        for t, tnames in sorted(ALIAS['time'].items()):
            for tn in tnames:
                mcase('kg' if t == 's' else 'lb', t, ('kg/' if t == 's' else 'lb/') + tn)
        for m, t, w in (('kg', 's', 'kgpers'), ('lb', 'min', 'lbpermin'), ('lb', 'hr', 'poundsperhour'),
                        ('kg', 's', 'KG/S'), ('lb', 'hr', 'LB/HR')):
            mcase(m, t, w)
    else:
        for m, mnames in sorted(ALIAS['mass'].items()):
            for t, tnames in sorted(ALIAS['time'].items()):
                for mn in mnames:
                    for tn in tnames:
                        for sep in ('/', 'per'):
                            mcase(m, t, mn + sep + tn)
        mcase('lb', 'hr', 'LB/HR')
    return out


def sweep_cases(tier):
    if tier == 'quick':
        return [{'mode': 'sweep', 'family': f, 'length_unit': L, 'temp_unit': T, 'mfr_unit': M}
                for f in ('sw_single', 'sw_cutoff') for (L, T, M) in QUICK_SWEEPS]
    return [{'mode': 'sweep', 'family': f, 'length_unit': L, 'temp_unit': T, 'mfr_unit': M}
            for f in SWEEP_FAMILIES for (L, T, M) in systems()]


def scalar_cases():
    out = []
    for kind in ('length', 'temperature', 'mass', 'time'):
        units = KINDS[kind][1]
        for a in units:
            for b in units:
                out.append({'mode': 'scalar', 'quantity': kind, 'from_unit': a, 'to_unit': b})
        base = KINDS[kind][2]
        for u in units:                      # every spelling against the base unit
            if u == base:
                continue
            for n in ALIAS[kind][u]:
                out.append({'mode': 'scalar', 'quantity': kind, 'from_unit': u, 'to_unit': base,
                            'from_spelling': n, 'to_spelling': ALIAS[kind][base][-1]})
    return out


def main(run):
    run.rule = ('data: every (length, temperature, mass-flow) unit triple (5 x 3 x 6 = 90) x every input family of the '
                'tier; alias: every accepted spelling of every unit once; scalar: every ordered pair of units of each '
                'quantity (+ every spelling against the base unit) on a fixed grid of values; sweep: the listed unit '
                'triples (quick) / all 90 x 2 swept families (thorough).  A data/alias/sweep case is non-trivial when '
                'at least one unit differs from m / kelvin / kg/s; all cases are distinct inputs.')
    run.assumptions = [
        'the SI twin (m, kelvin, kg/s; dassh calls none of its converters) parsed by the real DASSH_Input is the reference',
        'exact unit definitions written in the harness: 0.01, 0.001, 0.0254, 0.3048 m; K = C + 273.15 = (F + 459.67) 5/9; '
        'lb = 0.45359237 kg; min = 60 s; hr = 3600 s',
        'the user power CSV is always in metres (power._from_file multiplies by 100 unconditionally); it is not part of the unit system',
        'Setup/axial_plane is compared as a set (dassh builds it with list(set(...)))',
        '[Materials] correlation coefficients and Orificing/pressure_drop_limit (MPa) have fixed units and must stay untouched',
    ]
    from dassh import utils
    for kind, tab in sorted(DASSH_LISTS.items()):
        for u, name in sorted(tab.items()):
            if sorted(getattr(utils, name)) != sorted(ALIAS[kind][u]):
                run.violations.append(dict(violation(
                    'alias-table-drift', {'quantity': kind, 'unit': u},
                    'spellings accepted by dassh differ from the harness table', sorted(getattr(utils, name)),
                    sorted(ALIAS[kind][u])), part='selftest'))
    dc = data_cases(run.tier)
    run.check_determinism(run_case, [c for c in dc if (c['length_unit'], c['mfr_unit']) == ('cm', 'kg/s')][0])
    res = run.explore('data', dc, run_case, budget_s=120)
    run.explore('alias', alias_cases(run.tier), run_case, budget_s=120)
    run.explore('scalar', scalar_cases(), run_case, budget_s=60)
    run.explore('sweep', sweep_cases(run.tier), run_case, budget_s=600, chunksize=1)
    # results are READ in the unit system of the input too: the summary tables of dassh.out whose every
    # printed cell is compared with the harness's own unit-converted value (vf/props/reports.py)
    from . import reports
    run.explore('report-geometry', reports.cases_geometry(run.tier), reports.run_geometry, budget_s=300)
    run.explore('report-power', reports.cases_power(run.tier), reports.run_power, budget_s=300)
    # vacuity: together the families must contain every dimensional key, and every
    # dimensional leaf must have been compared with a non-zero value
    have = set(run.extra.get('input_keys', {}))
    miss = [k for k in ALL_INPUT_KEYS if k not in have]
    if miss:
        run.violations.append(dict(violation('vacuous-alphabet', {'tier': run.tier},
                                             'dimensional input keys not contained in any family', miss, []),
                                   part='data'))
    havel = set(run.extra.get('dim_leaves', {}))
    missl = [k for k in sorted(DIM_LEAVES) if k not in havel]
    if missl:
        run.violations.append(dict(violation('vacuous-alphabet', {'tier': run.tier},
                                             'dimensional data leaves never compared with a non-zero value', missl, []),
                                   part='data'))
    if not any(r['outcome'] == 'equal' for r in res):
        run.violations.append(dict(violation('vacuous-alphabet', {'tier': run.tier},
                                             'no unit system reproduced the SI twin'), part='data'))


def replay(body):
    if str((body.get('scenario') or {}).get('probe', '')).startswith('report-'):
        from . import reports
        return reports.replay(body)
    sc = body['scenario']
    if 'mode' not in sc:
        print('nothing to replay for this violation (cross-case check)')
        return 1
    r = guarded(run_case, sc, 600)
    for v in r['violations']:
        print('VIOLATION property=C17 replay=(inline) kind=%s site=%s %s' % (v['kind'], v['site'], v['what']))
        print('  observed=%r expected=%r tol=%r' % (v['observed'], v['expected'], v['tolerance']))
    print('outcome', r['outcome'], r.get('info'))
    return 1 if r['violations'] else 0
