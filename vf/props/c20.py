"""C20  Orifice grouping partitions assemblies; flow distribution conserves flow.

Part A (grouping)      real `Orificing.group_by_power` -> `_group` /
                       `_check_new_group` on EVERY multiset of size 1..6
                       (7 thorough) over the six distinct values of
                       {1, 1, 1.02, 1.1, 1.5, 2, 4} (repetition allowed, so
                       ties of every value occur) x requested groups 1..N x
                       (group_cutoff, group_cutoff_delta) pairs.
Part B (distribution)  real `distribute` (-> `_estimate_optvar`,
                       `_calc_corrective_ratio`) on every distinct grouping
                       that part A produced for small N x {1, 2} assembly
                       types x pressure-drop limit {none, loose, one, all} x
                       previous results {none, synthetic}.
Part C (histories)     explicit-state search (vf.run.bfs) over the operation
                       alphabet {D = distribute + synthetic sweep,
                       R = regroup} with the enabling rule of `_do_iter` for
                       the regroup modes never / once / every.

Part D (real input)    DASSH_Input -> Orificing.__init__ -> real group_by_power
                       (_get_power, Reactor, user power CSV) -> real
                       run_parametric on its recycle branch (tables written
                       by the harness) -> distribute, for two assembly types
                       on a 7-position core: interleaved / block layouts x
                       listing order x (lo, hi) power pairs x pressure limit
                       x power_scaling_factor {absent, 1.5} x total_power
                       {absent, 0.8 x CSV total}.  The required total flow is
                       Q/(cp dT) with Q = exact integral of the profiles the
                       harness wrote x normalisation x scaling factor; the
                       group order is judged on those powers too.
Part E (real input,    same path up to group_by_power with a pin-temperature
        linear power)  value_to_optimize (peak clad MW / clad ID / fuel temp):
                       the grouping parameter is the peak linear power that
                       the real _get_power takes from AssemblyPower.
                       calculate_avg_peak_linear_power.  User power CSVs with
                       quadratic axial shapes peaked below / at / above the
                       cell centre or flat, different for the "hot" and the
                       other assemblies x amplitude pairs x requested groups
                       (x one / two axial power cells in thorough).  The group
                       order is checked against the harness's own peak of the
                       pin-average polynomial (end points + stationary point),
                       with a 1e-6 relative margin below which two parameters
                       count as tied.
Part F (two requests)  the real run_dassh_orifice (with _setup_input_orifice,
                       dassh.__main__.run_dassh, _get_dassh_results) resp. the
                       whole real optimize() is run for request 1 (2 groups,
                       773.15 K) and then for a different request 2 (other
                       group count and / or outlet target, hence other flows)
                       in ONE working directory x recycle_results {False,
                       True} x what request 1 left behind (_iter1 with
                       reactor + data.csv, reactor only, data.csv only, only
                       another iteration's directory).  Differential twin:
                       request 2 in a pristine directory.  recycle off: the
                       returned table, the stored data.csv and the saved
                       reactor (flow, pressure drop, outlet temperature) must
                       equal the twin's row by row (1e-9 relative); recycle
                       on: the documented reuse must return what the
                       directory held and must not crash.
Part G (iterations)    hand-over of the distributed flows to the real DASSH
                       iteration and collection of its results, on cores where
                       an assembly type that is NOT grouped sits behind, in
                       front of (centre) or between the grouped ones, and with
                       double-ducted grouped assemblies (20 % bypass flow).
                       "handover": real group_by_power, harness flows per
                       group, real _setup_input_orifice (every grouped
                       assembly's boundary condition must be its group's flow
                       at ITS OWN position) and real run_dassh_orifice (saved
                       Reactor ran every grouped assembly with that flow; the
                       collected table reports the flow each assembly ran
                       with).  "iterate": the whole real optimize(), three
                       iterations; per iteration: equal flow inside a group in
                       the run itself, data.csv flows = flows of the run, sum
                       of the given flows = Q/(cp dT) of the harness's power
                       in iteration 1 and = (heat the grouped assemblies
                       carried out of the previous sweep, harness evaluation
                       of the saved Reactor) / (cp dT) afterwards (the sweeps
                       exchange 1..6 % of the heat with ungrouped neighbours,
                       so the plain Q/(cp dT) is not exact after iteration 1);
                       orificing_result_assembly.csv flows = flows of the last
                       run.

Previous results in parts B and C cover one and two time steps (row blocks
as _get_dassh_results stacks them); the required total stays Q/(cp dT) of the
time-averaged power, computed in the harness.

In parts A-C only the data sources of the optimiser are synthetic (`_get_power` is
replaced by a stub that publishes the generated powers; the parametric sweep
table and the "DASSH sweep" that produces previous results are closed-form
strictly monotone curves).  Everything that decides is the real dassh code.
"""
import itertools
import math

import numpy as np

from ..run import new_result, violation, site_of, guarded, bfs, NoProgress

# ----------------------------------------------------------------------
# alphabet
VALUES = (1.0, 1.02, 1.1, 1.5, 2.0, 4.0)   # distinct values of {1,1,1.02,1.1,1.5,2,4}
P0 = 1.0e5            # W per unit of value (grouping is scale free)
T_IN = 623.15         # K
T_BULK = 773.15       # K   bulk outlet temperature target
COOLANT = 'sodium_se2anl_425'   # constant properties: cp does not depend on T
N_PTS = 12            # rows of the parametric table, as Orificing.run_parametric
ITER_CAP = 1000       # iteration limit written in Orificing._group

# (group_cutoff, group_cutoff_delta); input_template: cutoff in [0.001, 1],
# delta in [1e-5, 1]
PAIRS_QUICK = [(0.05, 0.001),      # template defaults
               (0.5, 0.1),         # coarse steps: overshoots and oscillates
               (0.001, 0.00001)]   # lower corner of the input domain
PAIRS_THOROUGH = PAIRS_QUICK + [(0.2, 0.01), (1.0, 1.0)]

# tolerances (derived, not tuned)
TOL_EQ = 1e-12    # members of a group receive the result of identical float
                  # operations on identical operands; 1e-12 relative is four
                  # orders above one ulp and far below any physical difference
TOL_SUM = 1e-6    # relative; the statement's conservation bound (dassh's own
                  # check is 1e-6 kg/s absolute on totals of 0.5..12 kg/s;
                  # round-off of the remainder bookkeeping is ~1e-15)
FLAG_NONPOSITIVE = False  # a zero or negative entry is not a coolant flow rate (dassh's own
                          # input check rejects such a flow); own kind so it can be judged apart
TOL_LIM = 1e-9    # relative slack on the limit flow: two evaluations of the
                  # same piecewise-linear table (np.interp vs the harness
                  # recomputation) agree to ~1e-15


# ----------------------------------------------------------------------
# synthetic data sources (closed form, strictly monotone)
def _cp():
    import dassh
    mat = dassh.Material(COOLANT)
    mat.update(0.5 * (T_IN + T_BULK))
    return float(mat.heat_capacity)


def _peaking(t):
    return (1.3, 1.5)[t]


def _t_opt(t, x_w_per_kgs, cp):
    """peak temperature of an assembly of type t at power-to-flow ratio x
    (W per kg/s): peaking * bulk rise with a mild convex term; strictly
    increasing in x"""
    rise = x_w_per_kgs / cp
    return T_IN + _peaking(t) * rise * (1.0 + 0.2 * x_w_per_kgs / 1.0e6)


def _dp(t, m, steep=False):
    """pressure drop (Pa) of type t at flow m (kg/s); strictly increasing.
    steep: type 1 reaches a given pressure drop at half the flow of type 0"""
    k = (1.0e5, 3.5e5) if steep else (1.0e5, 1.3e5)
    return k[t] * m ** 1.8


def _hot(i):
    """deterministic per-assembly deviation of the 'real sweep' from the
    single-assembly parametric curve"""
    return 1.0 + 0.04 * (((7 * i) % 3) - 1)


def type_of(i, n_types, pattern):
    if n_types == 1:
        return 0
    if pattern == 'split':
        return 0 if i < 1 else 1      # id 0 alone is type 0
    return i % 2                      # 'alt'


def parametric_table(t, p_avg, cp, steep=False, xmin=0.05):
    """same layout as Orificing.run_parametric: power/flow (MW per kg/s),
    power (W), flow (kg/s), pressure drop (Pa), T_opt (K)"""
    d = np.zeros((N_PTS, 5))
    d[:, 0] = np.geomspace(xmin, 1.0, N_PTS)
    d[:, 1] = p_avg
    d[:, 2] = p_avg / 1e6 / d[:, 0]
    d[:, 3] = [_dp(t, m, steep) for m in d[:, 2]]
    d[:, 4] = [_t_opt(t, x * 1e6, cp) for x in d[:, 0]]
    return d


STEP_FACTORS = {1: (1.0,), 2: (1.03, 0.97)}   # power of a time step / mean power


def sweep(powers, types, m, cp, n_steps=1):
    """synthetic stand-in for run_dassh_orifice + _get_dassh_results: columns
    as Orificing._read_dassh_results, one block of rows (one row per
    assembly) per time step, blocks stacked like _get_dassh_results does.
    Every time step carries the same flows; the assembly powers of the time
    steps differ and average to `powers` (what _get_power publishes)."""
    rows = []
    for s, f in enumerate(STEP_FACTORS[n_steps]):
        label = 0.0 if n_steps == 1 else float(s + 1)
        for i, (p, t, mi) in enumerate(zip(powers, types, m)):
            ps = p * f
            tb = T_IN + ps / (cp * mi)
            to = T_IN + (_t_opt(t, ps / mi, cp) - T_IN) * _hot(i)
            rows.append([label, float(i), ps, mi, tb, to, to, to, to, to, to])
    return np.array(rows, dtype=float)


def bulk_outlet(data):
    """flow weighted mean outlet temperature, as _summarize_group_data"""
    return float(np.sum(data[:, 4] * data[:, 3]) / np.sum(data[:, 3]))


def interp_clamped(x, xs, ys):
    """harness recomputation of the table look-up (ascending xs)"""
    if x <= xs[0]:
        return ys[0]
    if x >= xs[-1]:
        return ys[-1]
    for k in range(len(xs) - 1):
        if xs[k] <= x <= xs[k + 1]:
            return ys[k] + (ys[k + 1] - ys[k]) * (x - xs[k]) / (xs[k + 1] - xs[k])
    raise AssertionError('table not ascending')


# ----------------------------------------------------------------------
# real object, narrowest seam
def powers_of(values):
    return [float(round(v * P0)) for v in values]


def make_orificing(values, n_groups, cutoff=0.05, delta=0.001, opt='peak coolant temp',
                   dp_limit=None, rtol=(0.05, 0.05), regroup='never', pscale=1.0):
    """Orificing instance without the input file / reactor machinery: exactly
    the attributes that Orificing.__init__ sets, plus a `_get_power` stub that
    publishes the generated powers the way the real one does."""
    import dassh
    from dassh.orificing import Orificing
    from dassh.logged_class import LoggedClass
    o = Orificing.__new__(Orificing)
    LoggedClass.__init__(o, 0, 'dassh.Orificing')
    o.orifice_input = {
        'assemblies_to_group': ['a', 'b'], 'n_groups': int(n_groups),
        'group_cutoff': cutoff, 'group_cutoff_delta': delta,
        'value_to_optimize': opt, 'bulk_coolant_temp': T_BULK,
        'iteration_limit': 10, 'convergence_tol': 1e-3, 'regroup': regroup,
        'regroup_option_tol': rtol[0], 'regroup_improvement_tol': rtol[1],
        'pressure_drop_limit': dp_limit, 'recycle_results': False}
    o.coolant = dassh.Material(COOLANT)
    o.t_in = T_IN
    o._dp_limit = np.zeros(int(n_groups))
    o._recycle = False
    if opt == 'peak coolant temp':
        o._opt_keys, o._opt_col = ('cool', None), 5
    else:
        o._opt_keys, o._opt_col = ('pin', 'fuel_cl'), 10
    # pscale: the same powers written in another unit (1e-6: MW) - grouping is scale free
    pw = [p * pscale for p in powers_of(values)]
    ids = np.arange(len(pw), dtype=float)
    # keep the text of error messages (logging is silenced); the real log()
    # still runs and still exits
    o._errors = []

    def log(level, message, indent=None):
        if level in ('error', 'critical'):
            o._errors.append(str(message))
        return LoggedClass.log(o, level, message, indent)
    o.log = log

    def _get_power(group_by='linear_power'):
        o._power = np.array((ids, pw)).T
        o._lin_power = np.array((ids, [p / 100.0 for p in pw])).T
        o._power_to_grp = o._lin_power if group_by == 'linear_power' else o._power
    o._get_power = _get_power
    return o


def populate(o, values, groups, n_types, pattern, cp, xmin=0.05):
    """attributes that group_by_power / run_parametric would have left"""
    pw = powers_of(values)
    n = len(pw)
    ids = np.arange(n, dtype=float)
    o._power = np.array((ids, pw)).T
    o._lin_power = np.array((ids, [p / 100.0 for p in pw])).T
    gd = np.zeros((n, 3))
    gd[:, 0] = ids
    gd[:, 1] = pw if o._opt_col == 5 else [p / 100.0 for p in pw]
    gd[:, 2] = groups
    o.group_data = gd
    types = [type_of(i, n_types, pattern) for i in range(n)]
    tabs = []
    for t in range(n_types):
        mem = [pw[i] for i in range(n) if types[i] == t]
        tabs.append(parametric_table(t, sum(mem) / len(mem), cp, xmin=xmin))
    o._parametric = {'asm_ids': np.array([[i, types[i]] for i in range(n)], dtype=int),
                     'asm_names': ['a', 'b'][:n_types], 'data': tabs}
    return pw, types, tabs


# ----------------------------------------------------------------------
# oracles shared by the three parts
def partition_problems(groups, n_groups):
    """every assembly in exactly one of exactly n_groups non-empty groups"""
    out = []
    g = [float(x) for x in groups]
    if any((not math.isfinite(x)) or x != int(x) for x in g):
        out.append(('partition-labels', 'group label is not an integer', g, None))
        return out
    lab = sorted(set(int(x) for x in g))
    if len(lab) != n_groups:
        out.append(('group-count', 'number of non-empty groups differs from the request',
                    len(lab), n_groups))
    elif lab != list(range(n_groups)):
        out.append(('partition-labels', 'groups are not labelled 0..n-1', lab,
                    list(range(n_groups))))
    return out


def flow_problems(m, groups, n_groups, types, m_total, m_lim):
    """(kind, what, observed, expected, tol) for the flow clauses"""
    out = []
    m = [float(x) for x in m]
    if any(not math.isfinite(x) for x in m):
        out.append(('flow-nan', 'distributed flow is not finite', m, None, None))
        return out
    if FLAG_NONPOSITIVE and min(m) <= 0.0:
        i = m.index(min(m))
        out.append(('nonpositive-flow', 'assembly %d (group %d of %d) is given the flow %.6g kg/s'
                    % (i, groups[i], n_groups, m[i]), m[i], '> 0', None))
    for g in sorted(set(groups)):
        mem = [m[i] for i in range(len(m)) if groups[i] == g]
        if max(mem) - min(mem) > TOL_EQ * max(abs(max(mem)), abs(min(mem))):
            out.append(('unequal-flow-in-group', 'members of group %d get different flows' % g,
                        mem, None, TOL_EQ))
    if abs(sum(m) - m_total) > TOL_SUM * m_total:
        out.append(('flow-not-conserved', 'sum of distributed flows != Q/(cp dT)',
                    sum(m), m_total, TOL_SUM * m_total))
    if m_lim is not None:
        last = n_groups - 1
        over = [(i, groups[i], m[i], m_lim[types[i]]) for i in range(len(m))
                if m[i] > m_lim[types[i]] * (1.0 + TOL_LIM)]
        if over:
            if all(g == last for (_, g, _, _) in over):
                kind = 'limit-exceeded-last-group'
            else:
                kind = 'limit-exceeded'
            i, g, mi, ml = max(over, key=lambda t: t[2] / t[3])
            out.append((kind, 'assembly %d (group %d of %d) gets %.6g kg/s, flow at the '
                        'pressure-drop limit is %.6g kg/s, no error raised'
                        % (i, g, n_groups, mi, ml), mi, ml, TOL_LIM * ml))
    return out


def exit_problem(o):
    """An error exit is dassh's accepted way to refuse a grouping or a
    pressure limit.  The exit of distribute's own mass balance assertion
    ("this should never fail") is not a refusal of the input: it reports that
    the flows it just computed do not sum to the required total."""
    msg = o._errors[-1] if o._errors else ''
    if 'not conserved' in msg:
        return ('flow-not-conserved', 'distribute computed flows that do not sum to the '
                'required total (caught by its own mass balance assertion): ' + msg,
                None, None, None)
    return None


def exit_reason(o):
    msg = o._errors[-1] if o._errors else '?'
    for key, lab in (('not conserved', 'mass-balance'), ('Multiple groups', 'multiple-groups-limited'),
                     ('requested number of orifice groups', 'group-flows-coincide'),
                     ('Grouping not converged', 'grouping-not-converged')):
        if key in msg:
            return lab
    return 'other: ' + msg[:60]


def limit_setup(mode, pw, groups, n_groups, m_total):
    """pressure_drop_limit (MPa) for a limit mode.  The mode is a flow target
    on the type-0 curve: loose = twice the largest proportional flow; one =
    half way between the proportional flows of the two highest-power groups;
    all = 90 % of the average flow (so the limited capacity is below the
    required total and only an error is acceptable)."""
    if mode == 'none':
        return None
    q = []
    for g in range(n_groups):
        mem = [pw[i] for i in range(len(pw)) if groups[i] == g]
        q.append(m_total * (sum(mem) / len(mem)) / sum(pw))
    if mode == 'loose':
        tgt = 2.0 * max(q)
    elif mode == 'one':
        tgt = 0.5 * (q[0] + q[1])
    elif mode == 'all':
        tgt = 0.9 * m_total / len(pw)
    else:
        raise ValueError(mode)
    return _dp(0, tgt) / 1e6


def limit_flows(dp_limit_mpa, tabs):
    if dp_limit_mpa is None:
        return None
    out = []
    for tab in tabs:
        dps = [float(x) for x in tab[:, 3][::-1]]
        ms = [float(x) for x in tab[:, 2][::-1]]
        out.append(interp_clamped(dp_limit_mpa * 1e6, dps, ms))
    return out


# ----------------------------------------------------------------------
# Part A
def multisets(nmax):
    out = []
    for n in range(1, nmax + 1):
        for c in itertools.combinations_with_replacement(VALUES, n):
            out.append(list(c))          # ascending: the reverse of _group's order
    return out


def cases_a(tier):
    nmax = 7 if tier == 'thorough' else 6
    pairs = PAIRS_THOROUGH if tier == 'thorough' else PAIRS_QUICK
    out = []
    for vals in multisets(nmax):
        for k in range(1, len(vals) + 1):
            for (c, d) in pairs:
                out.append({'values': vals, 'n': len(vals), 'n_groups': k,
                            'cutoff': c, 'delta': d, 'opt': 'peak coolant temp'})
            # the same powers written in MW (values of the order 0.1 ... 0.4)
            if tier == 'thorough' or len(vals) <= 4:
                out.append({'values': vals, 'n': len(vals), 'n_groups': k, 'cutoff': pairs[0][0], 'delta': pairs[0][1],
                            'opt': 'peak coolant temp', 'pscale': 1.0e-6})
                if len(vals) > 2:
                    # neither ascending nor descending in assembly id (watts and megawatts)
                    rot = vals[1:] + vals[:1]
                    for ps in (1.0, 1.0e-6):
                        out.append({'values': rot, 'n': len(vals), 'n_groups': k, 'cutoff': pairs[0][0],
                                    'delta': pairs[0][1], 'opt': 'peak coolant temp', 'pscale': ps})
            # the other branch of group_by_power (grouping by linear power)
            if tier == 'thorough' or len(vals) <= 3:
                out.append({'values': vals, 'n': len(vals), 'n_groups': k,
                            'cutoff': pairs[0][0], 'delta': pairs[0][1],
                            'opt': 'peak fuel temp'})
    return out


def run_group(c):
    """one real grouping: group_by_power -> _group -> _check_new_group"""
    r = new_result()
    V = r['violations']
    vals, k = c['values'], c['n_groups']
    n = len(vals)
    opt = c.get('opt', 'peak coolant temp')
    o = make_orificing(vals, k, c['cutoff'], c['delta'], opt=opt, pscale=c.get('pscale', 1.0))
    # progress monitor: the sweep compares N-1 neighbours per iteration and the
    # code promises at most ITER_CAP iterations
    from dassh.orificing import Orificing
    real_check = Orificing._check_new_group
    calls = [0]
    budget = (ITER_CAP + 1) * max(1, n - 1)

    def counted(group_param, next_param, param_delta):
        calls[0] += 1
        if calls[0] > budget:
            raise NoProgress('more than %d neighbour comparisons' % budget)
        return real_check(group_param, next_param, param_delta)
    o._check_new_group = counted
    r['states'] = 1
    r['traces'] = 1
    site = 'orificing.py:_group'
    try:
        o.group_by_power()
    except SystemExit:
        r['outcome'] = 'exit'
        r['transitions'] = calls[0]
        r['nontrivial'] = True
        r['info'] = {'calls': calls[0], 'error': exit_reason(o)}
        r['extra'] = {'exit_reasons': {exit_reason(o): 1}}
        return r
    except NoProgress as e:
        r['outcome'] = 'nontermination'
        V.append(violation('nontermination', c, str(e), calls[0], budget, site=site))
        return r
    except Exception as e:
        r['outcome'] = 'EXC'
        V.append(violation('grouping-exception', c, '%s: %s' % (type(e).__name__, str(e)[:200]),
                           site=site_of(e)))
        return r
    r['transitions'] = calls[0]
    gd = np.asarray(o.group_data, dtype=float)
    pw_in = [p * c.get('pscale', 1.0) for p in powers_of(vals)]
    expect = pw_in if opt == 'peak coolant temp' else [p / 100.0 for p in pw_in]
    # every assembly exactly once, with its own parameter, in id order
    if gd.shape != (n, 3) or [float(x) for x in gd[:, 0]] != [float(i) for i in range(n)] \
            or [float(x) for x in gd[:, 1]] != expect:
        V.append(violation('assembly-lost', c, 'group_data is not one row per assembly '
                           '(id order, own parameter)', gd.tolist(), expect, site=site))
        r['outcome'] = 'malformed'
        return r
    groups = [float(x) for x in gd[:, 2]]
    probs = partition_problems(groups, k)
    for (kind, what, obs, exp) in probs:
        if kind == 'group-count' and obs == k - 1:
            kind = 'one-group-short'
            what = ('%d groups requested, %d returned without any error (iterations used: %d)'
                    % (k, obs, calls[0] // max(1, n - 1)))
        V.append(violation(kind, c, what, obs, exp, site=site))
    integral = all(math.isfinite(x) and x == int(x) for x in groups)
    if integral:
        groups = [int(x) for x in groups]
        # contiguous in descending parameter order
        labs = sorted(set(groups))
        for a, b in zip(labs[:-1], labs[1:]):
            lo = min(expect[i] for i in range(n) if groups[i] == a)
            hi = max(expect[i] for i in range(n) if groups[i] == b)
            if hi > lo:
                V.append(violation('order', c, 'a member of group %d exceeds a member of group %d'
                                   % (b, a), hi, lo, site=site))
                break
        r['info'] = {'groups': groups, 'calls': calls[0]}
        r['key'] = [vals, groups]
    r['nontrivial'] = True
    if not V:
        r['outcome'] = 'ok'
    elif any(v['kind'] == 'one-group-short' for v in V):
        r['outcome'] = 'short'
    else:
        r['outcome'] = 'bad'
    r['extra'] = {'groups_returned': {str(len(set(groups))): 1},
                  'iterations': {'1' if calls[0] <= max(1, n - 1) else
                                 ('cap' if calls[0] >= ITER_CAP * max(1, n - 1) else 'several'): 1}}
    return r


# ----------------------------------------------------------------------
# Part B
def cases_b(groupings, tier):
    nmax = 4 if tier == 'thorough' else 3
    out = []
    for (vals, groups) in groupings:
        n = len(vals)
        if n > nmax:
            continue
        k = len(set(groups))
        tps = [(1, 'one')]
        if n >= 2:
            tps.append((2, 'alt'))
            if tier == 'thorough' and n >= 3:
                tps.append((2, 'split'))
        for (nt, pat) in tps:
            for lim in ('none', 'loose', 'one', 'all', 'beyond'):
                if lim == 'one' and k < 2:
                    continue          # with one group 'one' and 'all' coincide
                if lim == 'beyond' and (k < 2 or max(vals) < 2.0 * min(vals)):
                    continue
                for (prev, steps) in (('none', 0), ('synthetic', 1), ('synthetic', 2)):
                    for opt in (('peak coolant temp', 'peak fuel temp')
                                if tier == 'thorough' else ('peak coolant temp',)):
                        out.append({'values': vals, 'n': n, 'groups': groups, 'n_groups': k,
                                    'types': nt, 'pattern': pat, 'limit': lim, 'prev': prev,
                                    'steps': steps, 'opt': opt})
    return out


def run_distribute(c):
    r = new_result()
    V = r['violations']
    vals, groups, k = c['values'], [int(g) for g in c['groups']], c['n_groups']
    n = len(vals)
    cp = _cp()
    pw = powers_of(vals)
    m_total = sum(pw) / (cp * (T_BULK - T_IN))     # Q / (cp dT), independent of dassh
    beyond = c['limit'] == 'beyond'
    dp_lim = None if beyond else limit_setup(c['limit'], pw, groups, k, m_total)
    o = make_orificing(vals, k, opt=c['opt'], dp_limit=dp_lim)
    # 'beyond': a parametric sweep that covers flows only up to 1.6 x the nominal type average (so that a high-power
    # group wants more than the sweep covers) and a limit 30 % above the largest pressure drop of the sweep - the
    # flow at the limit is then the largest flow of the sweep (the curve is not continued)
    pw, types, tabs = populate(o, vals, groups, c['types'], c['pattern'], cp, xmin=0.12 if beyond else 0.05)
    if beyond:
        dp_lim = 1.3 * max(float(np.max(t_[:, 3])) for t_ in tabs) / 1e6
        o.orifice_input['pressure_drop_limit'] = dp_lim
    m_lim = limit_flows(dp_lim, tabs)
    res_prev, t_prev = None, None
    if c['prev'] == 'synthetic':
        # previous sweep: flows proportional to the mean power of the group,
        # 10 % above the required total, so the outlet temperature scaling
        # branch has to bring the total back to Q/(cp dT)
        gm = []
        for g in groups:
            mem = [pw[i] for i in range(n) if groups[i] == g]
            gm.append(sum(mem) / len(mem))
        m_prev = [1.1 * m_total * x / sum(gm) for x in gm]
        res_prev = sweep(pw, types, m_prev, cp, c.get('steps') or 1)
        t_prev = bulk_outlet(res_prev)
    r['states'] = 1
    r['traces'] = 1
    r['nontrivial'] = True
    site = 'orificing.py:distribute'
    try:
        m, tmax = o.distribute(res_prev, t_prev)
    except SystemExit:
        r['outcome'] = 'exit'
        r['transitions'] = 1
        r['info'] = {'m_total': m_total, 'm_lim': m_lim, 'error': exit_reason(o)}
        r['extra'] = {'exit_reasons': {exit_reason(o): 1}}
        p = exit_problem(o)
        if p:
            V.append(violation(p[0], c, p[1], site=site))
            r['outcome'] = p[0]
        return r
    except Exception as e:
        r['outcome'] = 'EXC'
        V.append(violation('distribute-exception', c, '%s: %s' % (type(e).__name__, str(e)[:200]),
                           site=site_of(e)))
        return r
    r['transitions'] = 1
    m = [float(x) for x in np.asarray(m, dtype=float)]
    if len(m) != n:
        V.append(violation('assembly-lost', c, 'flow vector length', len(m), n, site=site))
        return r
    for (kind, what, obs, exp, tol) in flow_problems(m, groups, k, types, m_total, m_lim):
        V.append(violation(kind, c, what, obs, exp, tol, site=site))
    capped = bool(np.any(o._dp_limit))
    if V:
        r['outcome'] = V[0]['kind']
    else:
        r['outcome'] = 'ok-capped' if capped else 'ok'
    if min(m) <= 0.0:
        r['extra'] = {'nonpositive_flow_cases': 1}
        r['outcome'] = 'nonpositive-flow'
    r['info'] = {'m': m, 'm_total': m_total, 'm_lim': m_lim, 'capped': capped}
    return r


# ----------------------------------------------------------------------
# Part C
def cases_c(groupings, tier):
    nmax = 4
    out = []
    for (vals, groups) in groupings:
        n = len(vals)
        k = len(set(groups))
        if n > nmax or n < 2:
            continue
        for mode in ('never', 'once', 'every'):
            for lim in ('none', 'one'):
                if lim == 'one' and k < 2:
                    continue
                for rt in ([0.05, 0.05], [0.005, 0.0]):
                    if mode == 'never' and rt != [0.05, 0.05]:
                        continue      # regroup tolerances are never read
                    for nt, pat in ((1, 'one'), (2, 'alt')):
                        if tier == 'quick' and nt == 2 and n < 4:
                            continue
                        for steps in (1, 2):
                            # previous sweeps with two time steps: quick only
                            # for the unlimited default-tolerance histories
                            if tier == 'quick' and steps == 2 and not (
                                    lim == 'none' and rt == [0.05, 0.05]):
                                continue
                            out.append({'values': vals, 'n': n, 'groups': groups, 'n_groups': k,
                                        'mode': mode, 'limit': lim, 'rtol': rt, 'types': nt,
                                        'pattern': pat, 'steps': steps,
                                        'depth': 5 if tier == 'thorough' else 3})
    return out


def run_history(c):
    r = new_result()
    vals, k = c['values'], c['n_groups']
    n = len(vals)
    cp = _cp()
    pw = powers_of(vals)
    m_total = sum(pw) / (cp * (T_BULK - T_IN))
    g0 = tuple(int(g) for g in c['groups'])
    dp_lim = limit_setup(c['limit'], pw, list(g0), k, m_total)
    mode = c['mode']
    n_steps = c.get('steps') or 1
    site_d, site_r = 'orificing.py:distribute', 'orificing.py:regroup'
    count = {'D': 0, 'R': 0, 'moved': 0, 'exit': 0, 'nonpositive': 0}
    holder = {}

    def build(s):
        o = make_orificing(vals, k, dp_limit=dp_lim, rtol=tuple(c['rtol']), regroup=mode)
        _, types, tabs = populate(o, vals, list(s['groups']), c['types'], c['pattern'], cp)
        o._dp_limit = np.array(s['dp'], dtype=float)
        holder['types'], holder['tabs'] = types, tabs
        return o, types

    def enabled(s):
        if s['err'] or any(s['dp']):
            return []                  # optimize() stops iterating there
        ev = ['D']
        if s['last'] == 'D':
            if mode == 'every' or (mode == 'once' and s['iter'] == 1):
                ev.append('R')
        return ev

    def step(s, ev):
        o, types = build(s)
        t = dict(s)
        t['problems'] = []
        if ev == 'D':
            count['D'] += 1
            data = sweep(pw, types, s['m'], cp, n_steps) if s['m'] is not None else None
            t_out = bulk_outlet(data) if data is not None else None
            try:
                m, _ = o.distribute(data, t_out)
            except SystemExit:
                count['exit'] += 1
                t.update(err='exit', last='D')
                p = exit_problem(o)
                if p:
                    t['problems'] = [p + (site_d,)]
                return t
            except Exception as e:
                t.update(err='EXC')
                t['problems'] = [('distribute-exception', '%s: %s' % (type(e).__name__, str(e)[:200]),
                                  None, None, None, site_of(e))]
                return t
            m = tuple(float(x) for x in m)
            t.update(m=m, last='D', iter=s['iter'] + 1,
                     dp=tuple(float(x) for x in o._dp_limit))
            m_lim = limit_flows(dp_lim, holder['tabs'])
            t['problems'] = [p + (site_d,) for p in
                             flow_problems(m, list(s['groups']), k, types, m_total, m_lim)]
            if not all(math.isfinite(x) and x > 0.0 for x in m):
                t['err'] = 'nonpositive'     # no sweep can be run with such a flow
                count['nonpositive'] += 1
        else:
            count['R'] += 1
            data = sweep(pw, types, s['m'], cp, n_steps)
            try:
                import copy as _copy
                o_v = _copy.deepcopy(o)
                o.regroup(data, verbose=False)
                try:
                    # the way _do_iter calls it: what is written to the log must not change the grouping
                    o_v.regroup(_copy.deepcopy(data), verbose=True)
                    twin = np.array_equal(np.asarray(o_v.group_data), np.asarray(o.group_data))
                except BaseException:
                    twin = False
            except SystemExit:
                count['exit'] += 1
                t.update(err='exit', last='R')
                return t
            except Exception as e:
                t.update(err='EXC')
                t['problems'] = [('regroup-exception', '%s: %s' % (type(e).__name__, str(e)[:200]),
                                  None, None, None, site_of(e))]
                return t
            g = [float(x) for x in o.group_data[:, 2]]
            if all(math.isfinite(x) and x == int(x) for x in g):
                g = [int(x) for x in g]
            if tuple(g) != tuple(s['groups']):
                count['moved'] += 1
            t.update(groups=tuple(g), last='R')
            t['problems'] = [(kk, w, ob, ex, None, site_r)
                             for (kk, w, ob, ex) in partition_problems(g, k)]
            if not twin:
                t['problems'].append(('regroup-depends-on-verbose', 'regroup(verbose=True) and regroup(verbose=False) '
                                      'leave different group tables for the same sweep results',
                                      [float(x) for x in o_v.group_data[:, 2]], g, None, site_r))
        return t

    def canon_state(s):
        m = None if s['m'] is None else tuple(float('%.9g' % x) for x in s['m'])
        return repr((s['groups'], m, s['last'], min(s['iter'], 2),
                     s['dp'], s['err']))

    def invariant(s, hist):
        out = []
        for (kind, what, obs, exp, tol, site) in s.get('problems', []):
            sc = dict(c)
            sc['history'] = ''.join(hist)
            out.append(violation(kind, sc, what + ' after history ' + ''.join(hist),
                                 obs, exp, tol, site=site))
        return out

    init = {'groups': g0, 'm': None, 'dp': tuple([0.0] * k), 'last': 'init', 'iter': 0,
            'err': None, 'problems': [(kk, w, ob, ex, None, 'orificing.py:_group')
                                      for (kk, w, ob, ex) in partition_problems(list(g0), k)]}
    # histories that start from the recycled sweep of an earlier run whose flows were 30 % short / 40 % over what this
    # target needs (equal flows): the next distribution hands out the required total all the same
    inits = [init] + [dict(init, m=tuple([m_total * f_ / n] * n), last='D', iter=1, problems=[]) for f_ in (0.7, 1.4)]
    res = bfs(inits, enabled, step, canon_state, invariant, c['depth'])
    r['states'] = res['states']
    r['transitions'] = res['transitions']
    r['traces'] = 1
    r['nontrivial'] = res['transitions'] > 0
    # one report per (kind, site) and search: convergent paths repeat it
    seen = set()
    for v in res['violations']:
        if (v['kind'], v['site']) not in seen:
            seen.add((v['kind'], v['site']))
            r['violations'].append(v)
    r['outcome'] = r['violations'][0]['kind'] if r['violations'] else \
        ('ok-regrouped' if count['moved'] else 'ok')
    r['extra'] = {'history_ops': dict(count)}
    r['info'] = {'states': res['states'], 'depth': res['depth'], 'ops': dict(count)}
    return r


# ----------------------------------------------------------------------
# harness evaluation of the power input it writes (never dassh's numbers)
def profile_integral(cells, pins):
    """exact integral (W) of a user power spec: pins[cell][pin] = polynomial
    coefficients (W/m) in zeta in [-1/2, 1/2] over the cell"""
    tot = 0.0
    for kc in range(len(cells) - 1):
        dz = cells[kc + 1] - cells[kc]
        for co in pins[kc]:
            tot += dz * sum(c * (0.5 ** (j + 1) - (-0.5) ** (j + 1)) / (j + 1)
                            for j, c in enumerate(co))
    return tot


def poly_max(co):
    """max over zeta in [-1/2, 1/2] of sum co[j] zeta^j: end points plus the
    stationary point (closed form up to degree 2, fine grid above)"""
    cand = [-0.5, 0.5]
    co = [float(x) for x in co]
    if len(co) == 3 and co[2] != 0.0:
        z = -co[1] / (2.0 * co[2])
        if -0.5 <= z <= 0.5:
            cand.append(z)
    elif len(co) > 3:
        cand += [-0.5 + j / 4000.0 for j in range(4001)]
    return max(sum(c * z ** j for j, c in enumerate(co)) for z in cand)


def peak_linear_power(pins):
    """true grouping parameter of a pin-temperature optimisation: the peak
    over the axial direction of the pin-average linear power"""
    best = None
    for cell in pins:
        deg = max(len(co) for co in cell)
        avg = [sum((co[j] if j < len(co) else 0.0) for co in cell) / len(cell)
               for j in range(deg)]
        v = poly_max(avg)
        best = v if best is None else max(best, v)
    return best


def order_problem(groups, true_param, margin=1e-6):
    """no member of a later group exceeds a member of an earlier group by more
    than the margin (relative; parameters closer than that count as tied)"""
    labs = sorted(set(groups))
    for a in labs:
        later = [true_param[i] for i in range(len(groups)) if groups[i] > a]
        if not later:
            continue
        lo = min(true_param[i] for i in range(len(groups)) if groups[i] == a)
        hi = max(later)
        if hi > lo * (1.0 + margin):
            return ('order', 'an assembly in a group after group %d has a larger true grouping '
                    'parameter than a member of group %d' % (a, a), hi, lo)
    return None


# ----------------------------------------------------------------------
# Part D: the real input path (DASSH_Input -> Orificing.__init__ ->
# group_by_power with the real _get_power / Reactor -> run_parametric on its
# recycle branch -> distribute) for two assembly types on a 7-position core
D_NAMES = ('fa', 'fb')          # type index 0 / 1 of the synthetic curves
D_PATTERNS = {'bab': ['fb', 'fa', 'fb', 'fa', 'fb', 'fa', 'fb'],     # interleaved, hot ids 0,2 tight
              'aba': ['fa', 'fb', 'fa', 'fb', 'fa', 'fb', 'fa'],     # interleaved, hot ids 0,2 loose
              'block': ['fa', 'fa', 'fa', 'fb', 'fb', 'fb', 'fb']}   # id order == type-block order
D_LAYOUTS = {'h02': (0, 2), 'h135': (1, 3, 5), 'h6': (6,)}           # ids of the high-power assemblies
D_LEN = 0.5


def cases_d(tier):
    out = []
    pairs = [(lo, hi) for lo in VALUES for hi in VALUES if lo < hi]
    layouts = ('h02', 'h135', 'h6') if tier == 'thorough' else ('h02', 'h135')
    limits = ('none', 'tight', 'loose') if tier == 'thorough' else ('none', 'tight')
    for (lo, hi) in pairs:
        for lay in layouts:
            vals = [hi if i in D_LAYOUTS[lay] else lo for i in range(7)]
            # (pattern, order in which the types are listed in assemblies_to_group)
            for pat, order in (('bab', 'ab'), ('aba', 'ab'), ('block', 'ab'), ('block', 'ba')) + \
                    ((('bab', 'ba'), ('aba', 'ba')) if tier == 'thorough' else ()):
                for lim in limits:
                    for k in ((1, 2, 3) if tier == 'thorough' else (1, 2)):
                        # (power_scaling_factor, total_power / sum of the CSV powers);
                        # 1.0 = key absent from the input
                        sc = [(1.0, 1.0)]
                        if tier == 'thorough':
                            if order == 'ab' and lim != 'loose':
                                sc += [(1.5, 1.0), (1.5, 0.8), (1.0, 0.8)]
                        elif pat == 'bab' and lim == 'none':
                            sc += [(1.5, 1.0), (1.5, 0.8)]
                        for (scale, renorm) in sc:
                            out.append({'values': vals, 'n': 7, 'lo': lo, 'hi': hi, 'layout': lay,
                                        'pattern': pat, 'order': order, 'limit': lim,
                                        'n_groups': k, 'scale': scale, 'renorm': renorm})
                            if pat == 'bab' and lim == 'none' and (tier == 'thorough' or (lo, hi) == pairs[0]):
                                # the same input with its flow rates written in lb/s / kg/min
                                for mfr in ('lb/s', 'kg/min'):
                                    out.append(dict(out[-1], mfr=mfr))
    return out


def run_real(c):
    import os
    import dassh
    from .. import scenario as S
    r = new_result()
    V = r['violations']
    vals, k = c['values'], c['n_groups']
    n = len(vals)
    cp = _cp()
    npin = S.n_pins(2)
    nominal = powers_of(vals)
    # the CSV the harness writes: flat pin profiles; the power dassh must
    # work with is its exact integral x normalisation x scaling factor
    specs = [{'cells': [0.0, D_LEN], 'pins': [[[nominal[i] / npin / D_LEN] for _ in range(npin)]]}
             for i in range(n)]
    csv_pw = [profile_integral(sp['cells'], sp['pins']) for sp in specs]
    scale, renorm = float(c.get('scale', 1.0)), float(c.get('renorm', 1.0))
    total_power = None if renorm == 1.0 else float(round(renorm * sum(csv_pw)))
    norm = 1.0 if total_power is None else total_power / sum(csv_pw)
    pw = [q * norm * scale for q in csv_pw]
    m_total = sum(pw) / (cp * (T_BULK - T_IN))
    tnames = D_PATTERNS[c['pattern']]
    names = list(D_NAMES) if c['order'] == 'ab' else list(D_NAMES)[::-1]
    curve = [D_NAMES.index(t) for t in tnames]       # synthetic curve of every assembly (own type)
    # pressure limit: flow target on the curve of the steep type (fb)
    q_max = m_total * max(pw) / sum(pw)
    dp_lim = {'none': None, 'tight': _dp(1, 0.8 * q_max, True) / 1e6,
              'loose': _dp(1, 2.0 * q_max, True) / 1e6}[c['limit']]
    dsn = S.design(2)
    orif = {'assemblies_to_group': names, 'n_groups': k,
            'value_to_optimize': 'peak coolant temp', 'bulk_coolant_temp': T_BULK,
            'convergence_tol': 0.002, 'iteration_limit': 2, 'recycle_results': True}
    if dp_lim is not None:
        orif['pressure_drop_limit'] = dp_lim
    scn = {'setup': {'log_progress': 0, 'calc_energy_balance': False},
           'core': {'inlet': T_IN, 'length': D_LEN, 'coolant': COOLANT, 'gap_model': 'no_flow',
                    'pitch': round(max(dsn['duct_ftf']) + 0.004, 9)},
           'types': {nm: dict(dsn) for nm in D_NAMES},
           'assign': [[t, rg, ps, {'flowrate': 1.0}]
                      for t, (rg, ps) in zip(tnames, S.core_positions(2))],
           'power': {'asm': {str(i + 1): specs[i] for i in range(n)}},
           'orificing': orif}
    if scale != 1.0:
        scn['power']['scaling'] = scale
    if total_power is not None:
        scn['power']['total'] = total_power
    if c.get('mfr'):
        fac_ = {'lb/s': 1.0 / 0.45359237, 'kg/min': 60.0}[c['mfr']]
        scn['units'] = {'mass_flow_rate': c['mfr']}
        for a_ in scn['assign']:
            a_[3] = {'flowrate': a_[3]['flowrate'] * fac_}
    site = 'orificing.py:run_parametric'
    r['states'] = 1
    r['traces'] = 1
    r['nontrivial'] = True
    with S.Built(scn) as b:
        # the recycled single-assembly sweeps; table of type t built from its own curve
        tabs = {}
        os.makedirs(os.path.join(b.dir, '_parametric'), exist_ok=True)
        for nm in D_NAMES:
            t = D_NAMES.index(nm)
            mem = [pw[i] for i in range(n) if tnames[i] == nm]
            tabs[t] = parametric_table(t, sum(mem) / len(mem), cp, steep=True)
            np.savetxt(os.path.join(b.dir, '_parametric', 'data_%s.csv' % nm), tabs[t],
                       delimiter=',')
        try:
            o = dassh.Orificing(b.inp())
            o.group_by_power()
        except SystemExit:
            r['outcome'] = 'exit-grouping'
            return r
        r['transitions'] += 1
        gd = np.asarray(o.group_data, dtype=float)
        if gd.shape != (n, 3) or [float(x) for x in gd[:, 0]] != [float(i) for i in range(n)]:
            V.append(violation('assembly-lost', c, 'group_data of the real path is not one row per '
                               'assembly in id order', gd.tolist(), None,
                               site='orificing.py:_group'))
            r['outcome'] = 'malformed'
            return r
        groups = [float(x) for x in gd[:, 2]]
        for (kind, what, obs, exp) in partition_problems(groups, k):
            V.append(violation(kind, c, what, obs, exp, site='orificing.py:_group'))
        if V:
            r['outcome'] = V[0]['kind']
            return r
        groups = [int(x) for x in groups]
        op = order_problem(groups, pw)
        if op:
            V.append(violation(op[0], c, op[1], op[2], op[3], 1e-6, site='orificing.py:_group'))
        try:
            o.run_parametric()
        except SystemExit:
            r['outcome'] = 'exit-parametric'
            return r
        r['transitions'] += 1
        # (a) the type look-up table pairs every assembly id, in id order, with ITS type
        want = [[i, names.index(tnames[i])] for i in range(n)]
        got = np.asarray(o._parametric['asm_ids']).tolist()
        if got != want or list(o._parametric['asm_names']) != names:
            V.append(violation('type-lookup', c, "_parametric['asm_ids'] does not pair every assembly "
                               'id (in id order) with the index of its own type', got, want,
                               site=site))
        # the tables it loaded are the ones written, in the order of the names
        for j, nm in enumerate(names):
            if not np.array_equal(np.asarray(o._parametric['data'][j]), tabs[D_NAMES.index(nm)]):
                V.append(violation('parametric-table', c, 'recycled table %d is not the table of %s'
                                   % (j, nm), site=site))
        # (b) the clauses of the property, every assembly judged on its OWN curve
        m_lim = None
        if dp_lim is not None:
            m_lim = limit_flows(dp_lim, [tabs[0], tabs[1]])
        try:
            m, _ = o.distribute()
        except SystemExit:
            r['outcome'] = 'exit'
            r['transitions'] += 1
            if V:
                r['outcome'] = V[0]['kind']
            return r
        except Exception as e:
            V.append(violation('distribute-exception', c, '%s: %s' % (type(e).__name__, str(e)[:200]),
                               site=site_of(e)))
            r['outcome'] = 'EXC'
            return r
        r['transitions'] += 1
        m = [float(x) for x in np.asarray(m, dtype=float)]
        for (kind, what, obs, exp, tol) in flow_problems(m, groups, k, curve, m_total, m_lim):
            V.append(violation(kind, c, what, obs, exp, tol, site='orificing.py:distribute'))
        # (c) the input handed to the next DASSH run carries exactly these flows (the parsed input is in kg/s
        # whatever unit the user wrote)
        try:
            inp_o = o._setup_input_orifice(np.array(m))
            got_m = [float(inp_o.data['Assignment']['ByPosition'][i][2]['flowrate']) for i in range(n)]
            if any(abs(g_ - w_) > 1e-12 * abs(w_) for g_, w_ in zip(got_m, m)):
                V.append(violation('flows-not-handed-on', c, 'flow rates written into the input of the next sweep are not '
                                   'the distributed flows (kg/s)', got_m, m, 1e-12, site='orificing.py:_setup_input_orifice'))
        except (Exception, SystemExit) as e:
            V.append(violation('setup-input-exception', c, '%s: %s' % (type(e).__name__, str(e)[:200]), site=site_of(e)))
        capped = bool(np.any(o._dp_limit))
        r['outcome'] = V[0]['kind'] if V else ('ok-capped' if capped else 'ok')
        r['info'] = {'groups': groups, 'm': m, 'm_lim': m_lim, 'types': tnames, 'names': names}
    return r



# ----------------------------------------------------------------------
# Part E: real input path with a pin-temperature optimisation variable: the
# grouping parameter is the peak linear power, which the real _get_power takes
# from AssemblyPower.calculate_avg_peak_linear_power; the order of the groups is
# judged on the harness's own peak of the profiles it wrote
E_Q0 = 2500.0        # W/m per pin
E_SHAPES = {'flat': (1.0, 0.0, 0.0),        # peak factor 1.0
            'below': (1.0, -0.8, -1.6),     # parabola peaked at zeta = -0.25, factor 1.1
            'at': (1.0, 0.0, -1.6),         # peaked at the cell centre, factor 1.0
            'above': (1.0, 0.8, -1.6)}      # peaked at zeta = +0.25, factor 1.1
E_OPTS = ('peak clad MW temp', 'peak clad ID temp', 'peak fuel temp')
E_FUEL = {'clad_material': 'ss316', 'gap_material': 'sodium', 'fcgap_thickness': 0.0002,
          'r_frac': [0.0, 0.33333, 0.66667], 'pu_frac': [0.0, 0.0, 0.0],
          'zr_frac': [0.1, 0.1, 0.1], 'porosity': [0.0, 0.0, 0.0]}


def cases_e(tier):
    out = []
    amps = VALUES if tier == 'thorough' else (1.0, 1.02, 1.1, 1.5)
    layouts = ('h02', 'h135') if tier == 'thorough' else ('h02',)
    for a_hot in amps:
        for a_rest in amps:
            for s_hot in ('below', 'at', 'above', 'flat'):
                for s_rest in ('below', 'at', 'above', 'flat'):
                    if s_hot == s_rest:
                        continue      # one common shape: parameter scaled consistently
                    for lay in layouts:
                        for k in (2, 3):
                            opts = E_OPTS if (tier == 'thorough' or
                                              (s_hot, s_rest, k) == ('below', 'flat', 2)) \
                                else E_OPTS[:1]
                            for opt in opts:
                                for ncell in ((1, 2) if tier == 'thorough' else (1,)):
                                    out.append({'a_hot': a_hot, 'a_rest': a_rest, 's_hot': s_hot,
                                                's_rest': s_rest, 'layout': lay, 'n_groups': k,
                                                'opt': opt, 'cells': ncell, 'n': 7})
    return out


def run_linear(c):
    import dassh
    from .. import scenario as S
    r = new_result()
    V = r['violations']
    n, k = 7, c['n_groups']
    npin = S.n_pins(2)
    hot = D_LAYOUTS[c['layout']]
    cells = [0.0, D_LEN] if c['cells'] == 1 else [0.0, 0.2, D_LEN]
    specs = []
    for i in range(n):
        a, sh = (c['a_hot'], c['s_hot']) if i in hot else (c['a_rest'], c['s_rest'])
        # assemblies of one class differ by 0.1 % steps so that no two are tied
        a = a * (1.0 - 0.001 * (i % 3))
        co = [a * E_Q0 * x for x in E_SHAPES[sh]]
        pins = [[list(co) for _ in range(npin)]]
        if c['cells'] == 2:
            # lower cell: flat at 90 % of the amplitude (never the peak)
            pins = [[[0.9 * a * E_Q0, 0.0, 0.0] for _ in range(npin)]] + pins
        specs.append({'cells': cells, 'pins': pins})
    true_param = [peak_linear_power(sp['pins']) for sp in specs]
    dsn = S.design(2, fuelmodel=dict(E_FUEL))
    scn = {'setup': {'log_progress': 0, 'calc_energy_balance': False},
           'core': {'inlet': T_IN, 'length': D_LEN, 'coolant': COOLANT, 'gap_model': 'no_flow',
                    'pitch': round(max(dsn['duct_ftf']) + 0.004, 9)},
           'types': {'fuel': dsn},
           'assign': [['fuel', rg, ps, {'flowrate': 1.0}] for (rg, ps) in S.core_positions(2)],
           'power': {'asm': {str(i + 1): specs[i] for i in range(n)}},
           'orificing': {'assemblies_to_group': ['fuel'], 'n_groups': k,
                         'value_to_optimize': c['opt'], 'bulk_coolant_temp': T_BULK}}
    r['states'] = 1
    r['traces'] = 1
    r['nontrivial'] = True
    site = 'orificing.py:_group'
    with S.Built(scn) as b:
        try:
            o = dassh.Orificing(b.inp())
            o.group_by_power()
        except SystemExit:
            r['outcome'] = 'exit'
            return r
    r['transitions'] = 1
    gd = np.asarray(o.group_data, dtype=float)
    if gd.shape != (n, 3) or [float(x) for x in gd[:, 0]] != [float(i) for i in range(n)]:
        V.append(violation('assembly-lost', c, 'group_data of the real path is not one row per '
                           'assembly in id order', gd.tolist(), None, site=site))
        r['outcome'] = 'malformed'
        return r
    groups = [float(x) for x in gd[:, 2]]
    for (kind, what, obs, exp) in partition_problems(groups, k):
        V.append(violation(kind, c, what, obs, exp, site=site))
    if not V:
        groups = [int(x) for x in groups]
        op = order_problem(groups, true_param)
        if op:
            V.append(violation(op[0], c, op[1] + ' (true peak linear powers %s, groups %s, dassh '
                               'parameter %s)' % ([round(x, 1) for x in true_param], groups,
                                                  [round(float(x), 1) for x in gd[:, 1]]),
                               op[2], op[3], 1e-6, site=site))
    r['outcome'] = V[0]['kind'] if V else 'ok'
    r['info'] = {'groups': [int(x) for x in gd[:, 2]], 'true': true_param}
    r['extra'] = {'linear_split': {'hot-first' if min(int(gd[i, 2]) for i in hot) == 0
                                   else 'hot-later': 1}}
    return r


# ----------------------------------------------------------------------
# Part F: two requests in ONE working directory (stale iteration results).
# The real run_dassh_orifice (-> _find_precalculated_power_dist,
# _setup_input_orifice, _setup_input_perfect, dassh.__main__.run_dassh,
# _get_dassh_results, _read_dassh_results) resp. the whole real optimize() is
# driven for request 1 and then for a different request 2; the differential
# twin is the same request 2 in a pristine directory.
F_LEN = 0.2
F_POWERS = {'A': [30.0e3, 29.0e3, 28.0e3, 24.0e3, 23.5e3, 19.0e3, 18.5e3],
            'B': [30.0e3, 29.0e3, 20.0e3, 19.5e3, 19.0e3, 10.0e3, 10.0e3]}
F_REQ1 = (2, 773.15)
F_REQ2 = ((3, 773.15), (2, 723.15), (3, 723.15))
F_TOL = 1e-9     # relative; the twin repeats the identical arithmetic (single BLAS thread,
                 # same input text), so only formatting round trips could differ


def cases_f(tier):
    out = []
    for pk in (('A', 'B') if tier == 'thorough' else ('A',)):
        for (k2, t2) in F_REQ2:
            for rec in (False, True):
                for pre in ('full', 'pkl-only', 'csv-only', 'other-iter'):
                    out.append({'family': 'direct', 'powers': pk, 'n_groups': k2, 't_bulk': t2,
                                'recycle': rec, 'prestate': pre, 'n': 7})
    for pk in (('A', 'B') if tier == 'thorough' else ('A',)):
        for (k2, t2) in (F_REQ2 if tier == 'thorough' else F_REQ2[-1:]):
            for rec in (False, True):
                out.append({'family': 'optimize', 'powers': pk, 'n_groups': k2, 't_bulk': t2,
                            'recycle': rec, 'prestate': 'full', 'n': 7})
    return out


def _f_scn(S, pw, k, t_bulk, recycle, types=None, ducts=1, length=None, ctol=0.002, regroup=None, peaked=()):
    """tiny real core; types: type name per position ('fuel' is grouped, 'ctrl' is not);
    ducts=2: double duct with a flowing bypass gap (20 % of the assembly flow)"""
    if ducts == 2:
        dsn = S.design(2, ducts=2, bypass_fraction=G_BYPASS, byp_t=0.006)
    else:
        dsn = S.design(2)
    npin = S.n_pins(2)
    types = types or ['fuel'] * len(pw)
    length = length or F_LEN
    # peaked: assemblies whose power sits mostly in one pin (their peak coolant temperature is higher than their total
    # power suggests, which is what makes a regrouping move them)
    wts = {i: ([3.0] + [(npin - 3.0) / (npin - 1)] * (npin - 1) if i in peaked else [1.0] * npin) for i in range(len(pw))}
    scn = {'setup': {'log_progress': 0, 'calc_energy_balance': False},
            'core': {'inlet': T_IN, 'length': length, 'coolant': COOLANT, 'gap_model': 'no_flow',
                     'pitch': round(max(dsn['duct_ftf']) + 0.004, 9)},
            'types': {nm: dict(dsn) for nm in sorted(set(types))},
            'assign': [[t, rg, ps, {'flowrate': 1.0}]
                       for t, (rg, ps) in zip(types, S.core_positions(2))],
            'power': {'asm': {str(i + 1): {'cells': [0.0, length],
                                           'pins': [[[wts[i][j_] * pw[i] / npin / length] for j_ in range(npin)]]}
                              for i in range(len(pw))}},
            'orificing': {'assemblies_to_group': ['fuel'], 'n_groups': k,
                          'value_to_optimize': 'peak coolant temp', 'bulk_coolant_temp': t_bulk,
                          'iteration_limit': 3, 'convergence_tol': ctol}}
    if recycle:
        # (the key is written only when recycling is asked for: without it the documented default - no
        # recycling - applies)
        scn['orificing']['recycle_results'] = True
    if regroup:
        # small tolerances: a member within 2 % of the neighbouring group may move, any improvement counts
        scn['orificing'].update({'regroup': regroup, 'regroup_option_tol': 0.02, 'regroup_improvement_tol': 0.0,
                                 'iteration_limit': 2})
    return scn


def _f_flows(o, pw, t_bulk, cp):
    """flows of a request: proportional to the mean power of the (real) group"""
    g = [int(x) for x in o.group_data[:, 2]]
    m_total = sum(pw) / (cp * (t_bulk - T_IN))
    gm = [sum(pw[i] for i in range(len(pw)) if g[i] == gi) / g.count(gi) for gi in g]
    return np.array([m_total * x / sum(gm) for x in gm])


def _f_pkl(path):
    import dassh
    import os
    pth = os.path.join(path, 'dassh_reactor.pkl')
    if not os.path.exists(pth):
        return None
    rx = dassh.reactor.load(pth)
    return [[float(a.flow_rate), float(a.pressure_drop), float(a.avg_coolant_temp)]
            for a in rx.assemblies]


def _f_differs(a, b):
    a, b = np.asarray(a, dtype=float), np.asarray(b, dtype=float)
    if a.shape != b.shape:
        return 'shape %s vs %s' % (a.shape, b.shape)
    d = np.abs(a - b) / np.maximum(1.0, np.abs(b))
    if not np.all(np.isfinite(a)) or float(np.max(d)) > F_TOL:
        i = np.unravel_index(int(np.argmax(d)), d.shape)
        return 'entry %s: %.9g vs %.9g' % (tuple(int(x) for x in i), a[i], b[i])
    return None


def _f_result_csv(path):
    rows = []
    with open(path) as f:
        for line in f.read().splitlines():
            ll = line.split(',')
            rows.append([float(ll[j]) for j in (0, 2, 3, 4, 5, 8, 9, 10)])
    return np.array(rows)


def run_twice(c):
    import contextlib
    import io
    import os
    import dassh
    import dassh.__main__  # noqa: F401  (Orificing calls dassh.__main__.run_dassh)
    from .. import scenario as S
    r = new_result()
    V = r['violations']
    pw = F_POWERS[c['powers']]
    cp = _cp()
    k1, t1 = F_REQ1
    k2, t2 = c['n_groups'], c['t_bulk']
    rec = c['recycle']
    site = 'orificing.py:run_dassh_orifice'
    r['traces'] = 1
    r['nontrivial'] = True
    quiet = contextlib.redirect_stdout(io.StringIO())

    def request(b, k, t):
        """(re)write the input of a request into the directory, build the optimiser"""
        text = S.input_text(_f_scn(S, pw, k, t, rec), ['power_0.csv'])
        with open(b.path, 'w') as f:
            f.write(text)
        return dassh.Orificing(dassh.DASSH_Input(b.path))

    try:
        with quiet, S.Built(_f_scn(S, pw, k1, t1, rec)) as b, \
                S.Built(_f_scn(S, pw, k2, t2, rec)) as twin:
            if c['family'] == 'direct':
                it1 = 2 if c['prestate'] == 'other-iter' else 1
                o1 = request(b, k1, t1)
                o1.group_by_power()
                f1 = _f_flows(o1, pw, t1, cp)
                r1 = o1.run_dassh_orifice(it1, f1)
                r['states'] += 1
                r['transitions'] += 1
                d1 = os.path.join(b.dir, '_iter%d' % it1)
                if c['prestate'] == 'pkl-only':
                    os.remove(os.path.join(d1, 'data.csv'))
                elif c['prestate'] == 'csv-only':
                    os.remove(os.path.join(d1, 'dassh_reactor.pkl'))
                o2 = request(b, k2, t2)
                o2.group_by_power()
                f2 = _f_flows(o2, pw, t2, cp)
                r2 = o2.run_dassh_orifice(1, f2)
                r['states'] += 1
                r['transitions'] += 1
                ot = request(twin, k2, t2)
                ot.group_by_power()
                ft = _f_flows(ot, pw, t2, cp)
                rt = ot.run_dassh_orifice(1, ft)
                r['states'] += 1
                r['transitions'] += 1
                d2 = os.path.join(b.dir, '_iter1')
                stored = np.loadtxt(os.path.join(d2, 'data.csv'), delimiter=',')
                fresh = (not rec) or c['prestate'] == 'other-iter'
                if fresh:
                    # nothing may be reused: table, stored table and the saved
                    # reactor are those of a DASSH run with the flows of request 2
                    why = _f_differs(r2, rt)
                    if why is None and _f_differs(np.asarray(r2)[:, 3], f2) is not None:
                        why = 'flow column is not the requested flow vector'
                    if why is None:
                        why = _f_differs(stored, rt) and 'stored data.csv: ' + _f_differs(stored, rt)
                    if why is None:
                        pa, pb = _f_pkl(d2), _f_pkl(os.path.join(twin.dir, '_iter1'))
                        why = (_f_differs(pa, pb) and 'saved reactor (flow, pressure drop, outlet '
                               'temperature): ' + _f_differs(pa, pb)) if pa and pb else \
                            'no reactor saved'
                    if why:
                        V.append(violation('stale-results', c, 'results of iteration 1 for request 2 '
                                           '(%d groups, %.2f K) are not those of a DASSH run with its '
                                           'flows: %s; flows reported %s, requested %s'
                                           % (k2, t2, why, np.round(np.asarray(r2)[:, 3], 5).tolist(),
                                              np.round(f2, 5).tolist()), None, None, F_TOL,
                                           site=site))
                    r['outcome'] = 'stale-results' if V else 'fresh'
                else:
                    # documented reuse: what is returned is what the directory held
                    why = _f_differs(r2, r1)
                    if why:
                        V.append(violation('reuse-mismatch', c, 'recycled results differ from what the '
                                           'directory held: ' + why, None, None, F_TOL, site=site))
                    r['outcome'] = 'reuse-mismatch' if V else 'reused'
            else:
                o1 = request(b, k1, t1)
                o1.optimize()
                r['states'] += 1
                o2 = request(b, k2, t2)
                o2.optimize()
                r['states'] += 1
                ot = request(twin, k2, t2)
                ot.optimize()
                r['states'] += 1
                r['transitions'] += 3
                if rec:
                    r['outcome'] = 'reused'      # only: it ran to completion
                else:
                    why = _f_differs(_f_result_csv(os.path.join(b.dir, 'orificing_result_assembly.csv')),
                                     _f_result_csv(os.path.join(twin.dir,
                                                                'orificing_result_assembly.csv')))
                    if why:
                        why = 'orificing_result_assembly.csv ' + why
                    it = 1
                    while why is None and os.path.exists(os.path.join(twin.dir, '_iter%d' % it, 'data.csv')):
                        pa = os.path.join(b.dir, '_iter%d' % it, 'data.csv')
                        pb = os.path.join(twin.dir, '_iter%d' % it, 'data.csv')
                        d = _f_differs(np.loadtxt(pa, delimiter=','), np.loadtxt(pb, delimiter=','))
                        if d:
                            why = '_iter%d/data.csv %s' % (it, d)
                        it += 1
                    if why:
                        V.append(violation('stale-results', c, 'second optimisation in the same '
                                           'directory (%d groups, %.2f K, recycle_results = False) does '
                                           'not report what a pristine directory gives: %s'
                                           % (k2, t2, why), None, None, F_TOL, site=site))
                    r['outcome'] = 'stale-results' if V else 'fresh'
    except SystemExit:
        r['outcome'] = 'exit'
    return r


# ----------------------------------------------------------------------
# Part G: hand-over of the distributed flows to the real DASSH iteration and
# collection of its results, with assembly types that are NOT grouped sitting
# in front of / between the grouped ones and with double-ducted grouped
# assemblies (flowing bypass gap)
G_BYPASS = 0.2
G_LEN = 0.1
G_LAYOUTS = {'all-fuel': ['fuel'] * 7,
             'ctrl-last': ['fuel'] * 6 + ['ctrl'],
             'ctrl-centre': ['ctrl'] + ['fuel'] * 6,
             'interleaved': ['ctrl', 'fuel', 'ctrl', 'fuel', 'fuel', 'ctrl', 'fuel']}
G_TOL = 1e-12    # a flow that is handed over / read back is copied, not recomputed


def cases_g(tier):
    out = []
    for fam in ('handover', 'iterate'):
        for lay in ('all-fuel', 'ctrl-last', 'ctrl-centre', 'interleaved'):
            for ducts in (1, 2):
                for k in (2, 3):
                    if tier == 'quick':
                        # double duct: once per family; whole optimisations: 2 groups
                        if ducts == 2 and not (lay == 'all-fuel' and k == 2):
                            continue
                        if fam == 'iterate' and (k == 3 or lay == 'ctrl-last'):
                            continue
                    out.append({'family': fam, 'layout': lay, 'ducts': ducts, 'n_groups': k,
                                'powers': 'A', 'n': 7})
    # whole optimisations with regrouping switched on and assemblies whose peak is higher than their power suggests
    for rg in ('every', 'once'):
        for pk, k in (([1, 2], 3), ([5], 2), ([3, 6], 3)):
            out.append({'family': 'iterate', 'layout': 'all-fuel', 'ducts': 1, 'n_groups': k, 'powers': 'A', 'n': 7,
                        'regroup': rg, 'peaked': pk})
    if tier != 'quick':
        import itertools
        for rg in ('every', 'once'):
            for n_ in (1, 2):
                for pk in itertools.combinations(range(7), n_):
                    for k in (2, 3):
                        out.append({'family': 'iterate', 'layout': 'all-fuel', 'ducts': 1, 'n_groups': k, 'powers': 'A',
                                    'n': 7, 'regroup': rg, 'peaked': list(pk)})
    return out


def run_iter(c):
    import contextlib
    import io
    import os
    import dassh
    import dassh.__main__  # noqa: F401
    from .. import scenario as S
    r = new_result()
    V = r['violations']
    pw = F_POWERS[c['powers']]
    types = G_LAYOUTS[c['layout']]
    gid = [i for i, t in enumerate(types) if t == 'fuel']       # ids of the grouped assemblies
    pg = [pw[i] for i in gid]
    k = c['n_groups']
    cp = _cp()
    m_req = sum(pg) / (cp * (T_BULK - T_IN))
    r['traces'] = 1
    r['nontrivial'] = True
    scn = _f_scn(S, pw, k, T_BULK, False, types=types, ducts=c['ducts'],
                 length=G_LEN if c['ducts'] == 2 else F_LEN, ctol=1e-6, regroup=c.get('regroup'),
                 peaked=tuple(c.get('peaked') or ()))

    def bad(kind, what, obs=None, exp=None, tol=None, site=None):
        V.append(violation(kind, c, what, obs, exp, tol, site=site))

    def given(path):
        """flows and outlet temperatures the saved Reactor of an iteration ran with"""
        rx = dassh.reactor.load(os.path.join(path, 'dassh_reactor.pkl'))
        return ({a.id: float(a.flow_rate) for a in rx.assemblies},
                {a.id: float(a.avg_coolant_temp) for a in rx.assemblies},
                {a.id: a.name for a in rx.assemblies})

    def close(a, b, tol):
        return abs(a - b) <= tol * max(abs(a), abs(b))

    try:
        with contextlib.redirect_stdout(io.StringIO()), S.Built(scn) as b:
            o = dassh.Orificing(b.inp())
            if c['family'] == 'handover':
                o.group_by_power()
                r['transitions'] += 1
                gd = np.asarray(o.group_data, dtype=float)
                if [int(x) for x in gd[:, 0]] != gid:
                    bad('assembly-lost', 'grouped assemblies are not the assemblies of the grouped type',
                        gd[:, 0].tolist(), gid, site='orificing.py:_get_power')
                    r['outcome'] = 'malformed'
                    return r
                f = _f_flows(o, pg, T_BULK, cp)
                # (1) the input that _setup_input_orifice produces
                inp2 = o._setup_input_orifice(f)
                byp = inp2.data['Assignment']['ByPosition']
                for row, i in enumerate(gid):
                    bc = byp[i][2]
                    if not (isinstance(bc, dict) and list(bc.keys()) == ['flowrate']
                            and close(float(bc['flowrate']), float(f[row]), G_TOL)):
                        bad('flow-handover', 'boundary condition written for grouped assembly %d '
                            '(position %d) is not the flow of its group' % (i, i),
                            {kk: float(v) for kk, v in bc.items()} if isinstance(bc, dict) else repr(bc),
                            float(f[row]), G_TOL, site='orificing.py:_setup_input_orifice')
                        break
                r['transitions'] += 1
                # (2) the Reactor of the real iteration run and the table collected from it
                tab = np.asarray(o.run_dassh_orifice(1, f), dtype=float)
                r['transitions'] += 1
                r['states'] += 1
                mg, _, nm = given(os.path.join(b.dir, '_iter1'))
                for row, i in enumerate(gid):
                    if nm.get(i) != 'fuel' or not close(mg[i], float(f[row]), G_TOL):
                        bad('flow-handover', 'assembly %d ran the iteration with %.9g kg/s, its group '
                            'was given %.9g kg/s' % (i, mg.get(i, float('nan')), f[row]),
                            mg.get(i), float(f[row]), G_TOL,
                            site='orificing.py:_setup_input_orifice')
                        break
                if tab.shape[0] != len(gid) or [int(x) for x in tab[:, 1]] != gid:
                    bad('collected-flow', 'collected table is not one row per grouped assembly',
                        tab[:, 1].tolist(), gid, site='orificing.py:_read_dassh_results')
                else:
                    for row, i in enumerate(gid):
                        if not close(float(tab[row, 3]), mg[i], G_TOL):
                            bad('collected-flow', 'flow collected for assembly %d (%.9g kg/s) is not the '
                                'flow it ran with (%.9g kg/s)' % (i, tab[row, 3], mg[i]),
                                float(tab[row, 3]), mg[i], G_TOL,
                                site='orificing.py:_read_dassh_results')
                            break
            else:
                o.optimize()
                r['transitions'] += 1
                # final report
                rows = []
                with open(os.path.join(b.dir, 'orificing_result_assembly.csv')) as fh:
                    for line in fh.read().splitlines():
                        ll = line.split(',')
                        rows.append((int(ll[0]), int(ll[4]), float(ll[5])))
                if [x[0] for x in rows] != gid:
                    bad('assembly-lost', 'result file is not one row per grouped assembly',
                        [x[0] for x in rows], gid, site='orificing.py:write_results')
                    r['outcome'] = 'malformed'
                    return r
                groups = [x[1] for x in rows]
                for (kind, what, obs, exp) in partition_problems(groups, k):
                    bad(kind, what, obs, exp, site='orificing.py:_group')
                its = sorted(int(x[5:]) for x in os.listdir(b.dir) if x.startswith('_iter'))
                heat_prev = None
                for it in its:
                    d_it = os.path.join(b.dir, '_iter%d' % it)
                    mg, tg, nm = given(d_it)
                    r['states'] += 1
                    flows = [mg[i] for i in gid]
                    # equal flow inside a group, in the run itself (with regrouping the groups of the report are
                    # those of the LAST iteration only)
                    for g in (sorted(set(groups)) if (not c.get('regroup') or it == its[-1]) else ()):
                        mem = [flows[j] for j in range(len(gid)) if groups[j] == g]
                        if max(mem) - min(mem) > TOL_EQ * max(mem):
                            bad('unequal-flow-in-group', 'iteration %d ran members of group %d with '
                                'different flows' % (it, g), mem, None, TOL_EQ,
                                site='orificing.py:_setup_input_orifice')
                    # required total: iteration 1 Q/(cp dT) of the harness's power; afterwards the
                    # heat the grouped assemblies carried out of the previous sweep (harness
                    # evaluation of the saved Reactor) / (cp dT): that sweep is the only knowledge of
                    # the bulk outlet temperature the optimiser can have
                    need = m_req if heat_prev is None else heat_prev / (cp * (T_BULK - T_IN))
                    tol = TOL_SUM if heat_prev is None else 1e-9
                    if abs(sum(flows) - need) > tol * need:
                        bad('flow-not-conserved', 'iteration %d: the flows given to the grouped '
                            'assemblies do not sum to the total required by the bulk outlet temperature '
                            'target' % it, sum(flows), need, tol * need,
                            site='orificing.py:distribute')
                    heat_prev = sum(mg[i] * cp * (tg[i] - T_IN) for i in gid)
                    # what was collected from the run is what the assemblies ran with
                    tab = np.atleast_2d(np.loadtxt(os.path.join(d_it, 'data.csv'), delimiter=','))
                    if tab.shape[0] != len(gid) or any(
                            not close(float(tab[j, 3]), flows[j], G_TOL) for j in range(len(gid))):
                        bad('collected-flow', 'iteration %d: flows in data.csv are not the flows the '
                            'assemblies ran with' % it, tab[:, 3].tolist(), flows, G_TOL,
                            site='orificing.py:_read_dassh_results')
                    last = flows
                if any(not close(rows[j][2], last[j], G_TOL) for j in range(len(gid))):
                    bad('collected-flow', 'orificing_result_assembly.csv reports flows that are not the '
                        'flows of the last iteration', [x[2] for x in rows], last, G_TOL,
                        site='orificing.py:_read_dassh_results')
                r['info'] = {'iterations': its, 'groups': groups, 'flows': last}
                r['extra'] = {'real_iterations': len(its)}
    except SystemExit:
        r['outcome'] = 'exit'
        return r
    # one report per kind
    seen, uniq = set(), []
    for v in V:
        if v['kind'] not in seen:
            seen.add(v['kind'])
            uniq.append(v)
    r['violations'] = uniq
    r['outcome'] = uniq[0]['kind'] if uniq else 'ok'
    return r


# ----------------------------------------------------------------------
def main(run):
    run.rule = ('A: every multiset (size 1..6 quick / 1..7 thorough, repetition allowed) over the '
                'values {1,1.02,1.1,1.5,2,4} x requested groups 1..N x (cutoff,delta) pairs; '
                'non-trivial when the real _group ran to a partition or an error exit, distinct by '
                '(multiset, returned assignment) resp. the full case for exits. '
                'B: every distinct (multiset, assignment) that part A returned with N<=3 (4 thorough) '
                'x assembly types x limit mode x previous results; each is a distinct input. '
                'C: one breadth-first search per (grouping N in 2..4, regroup mode, limit, regroup '
                'tolerances, types, 1|2 time steps in the previous sweep); non-trivial when at least '
                'one real transition was taken. '
                'D: real input file path for 7 assemblies of two types: every (lo<hi) value pair x '
                'layout of the hot assemblies x type pattern (interleaved bab/aba, block) x listing '
                'order x limit x requested groups x (power_scaling_factor, total_power) ; each is a '
                'distinct input. '
                'E: real input with a pin-temperature optimisation variable: amplitude pair x axial '
                'shape of the hot assemblies x different shape of the others x requested groups x '
                'option name (x layout, axial cells in thorough); each is a distinct input. '
                'F: histories [request 1, request 2] in one directory: power vector x request 2 x '
                'recycle flag x state left by request 1, direct run_dassh_orifice calls and whole '
                'optimize() runs; each is a distinct history. '
                'G: layout of grouped / ungrouped types x single / double duct x requested groups, as '
                'direct hand-over + one real iteration and as whole optimize() runs; each is a '
                'distinct input.')
    run.assumptions = [
        'dassh.Material(sodium_se2anl_425).heat_capacity (constant) is the cp of Q/(cp dT)',
        'the parametric sweep table and the sweep that yields previous results are synthetic '
        'closed-form strictly monotone curves (T_opt rising with power/flow, pressure drop rising '
        'with flow); Orificing._get_power is replaced by a stub publishing the generated powers',
        'the flow at the pressure limit is the piecewise-linear look-up in the parametric table '
        '(recomputed in the harness), clamped at the table ends',
        'SystemExit from log(error) is the accepted "stops with an error" outcome',
        'parts D/E: the power dassh must work with is the harness evaluation of the CSV it wrote '
        '(exact polynomial integral x total_power normalisation x power_scaling_factor; peak of the '
        'pin-average polynomial over zeta in [-1/2, 1/2]), never a number read back from dassh']
    ca = cases_a(run.tier)
    run.check_determinism(run_group, ca[len(ca) // 3])
    ra = run.explore('grouping', ca, run_group, budget_s=120)
    # every distinct grouping the real code returned (well-formed label sets only)
    seen = {}
    for c, r in zip(ca, ra):
        info = r.get('info') or {}
        g = info.get('groups')
        if g is None:
            continue
        if sorted(set(g)) != list(range(len(set(g)))):
            continue
        seen.setdefault((tuple(c['values']), tuple(g)), None)
    groupings = [(list(v), list(g)) for (v, g) in sorted(seen)]
    run.notes['distinct_partitions'] = len(groupings)
    run.notes['grouping_cases'] = len(ca)
    out_a = {}
    for r in ra:
        out_a[r['outcome']] = out_a.get(r['outcome'], 0) + 1
    if len(groupings) < 50 or not out_a.get('exit') or not (out_a.get('ok')):
        run.violations.append(dict(violation(
            'vacuous-alphabet', {'part': 'grouping'},
            'grouping alphabet did not produce the expected classes (distinct partitions, '
            'converged and error exits)', [len(groupings), out_a], None), part='grouping'))
    cb = cases_b(groupings, run.tier)
    rb = run.explore('distribution', cb, run_distribute, budget_s=120)
    out_b = {}
    for r in rb:
        out_b[r['outcome']] = out_b.get(r['outcome'], 0) + 1
    need = ['ok', 'exit']
    if any(not out_b.get(x) for x in need) or not (out_b.get('ok-capped') or
                                                     out_b.get('limit-exceeded-last-group')):
        run.violations.append(dict(violation(
            'vacuous-alphabet', {'part': 'distribution'},
            'distribution alphabet did not reach unconstrained, capped and error outcomes',
            out_b, need), part='distribution'))
    cc = cases_c(groupings, run.tier)
    rc = run.explore('histories', cc, run_history, budget_s=300)
    ops = run.extra.get('history_ops', {})
    if not ops.get('R') or not ops.get('moved') or not ops.get('D'):
        run.violations.append(dict(violation(
            'vacuous-alphabet', {'part': 'histories'},
            'no history in which regroup actually moved an assembly', ops, None),
            part='histories'))
    run.notes['distribution_cases'] = len(cb)
    run.notes['history_searches'] = len(cc)
    cd = cases_d(run.tier)
    rd = run.explore('real-input', cd, run_real, budget_s=120)
    out_d = {}
    for c, r in zip(cd, rd):
        out_d[r['outcome']] = out_d.get(r['outcome'], 0) + 1
    run.notes['real_input_cases'] = len(cd)
    # vacuity: interleaved types must have been distributed with an active limit
    n_capped = sum(1 for c, r in zip(cd, rd) if r['outcome'] == 'ok-capped'
                   and c['pattern'] in ('bab', 'aba'))
    if not out_d.get('ok') or not n_capped or not out_d.get('exit'):
        run.violations.append(dict(violation(
            'vacuous-alphabet', {'part': 'real-input'},
            'real-input alphabet did not reach unconstrained, capped (interleaved types) and '
            'error outcomes', out_d, None), part='real-input'))
    ce = cases_e(run.tier)
    re_ = run.explore('real-linear', ce, run_linear, budget_s=120)
    run.notes['real_linear_cases'] = len(ce)
    # vacuity: bottom-peaked assemblies with the larger true peak but the lower
    # end-point value must have been grouped ahead of flatter ones
    n_sens = sum(1 for c, r in zip(ce, re_) if r['outcome'] == 'ok' and c['s_hot'] == 'below'
                 and c['s_rest'] in ('flat', 'at') and c['a_hot'] < c['a_rest'] < 1.09 * c['a_hot'])
    split = run.extra.get('linear_split', {})
    if not n_sens or not split.get('hot-first') or not split.get('hot-later'):
        run.violations.append(dict(violation(
            'vacuous-alphabet', {'part': 'real-linear'},
            'no grouping in which a bottom-peaked assembly outranks a flatter one only through its '
            'interior maximum', [n_sens, split], None), part='real-linear'))
    cf = cases_f(run.tier)
    rf = run.explore('two-requests', cf, run_twice, budget_s=300, chunksize=1)
    run.notes['two_request_cases'] = len(cf)
    out_f = {}
    for r in rf:
        out_f[r['outcome']] = out_f.get(r['outcome'], 0) + 1
    if not out_f.get('fresh') or not out_f.get('reused'):
        run.violations.append(dict(violation(
            'vacuous-alphabet', {'part': 'two-requests'},
            'two-request histories did not reach both a fresh rerun and a documented reuse',
            out_f, None), part='two-requests'))
    cg = cases_g(run.tier)
    rg = run.explore('iterations', cg, run_iter, budget_s=300, chunksize=1)
    run.notes['iteration_cases'] = len(cg)
    ok_g = [c for c, r in zip(cg, rg) if r['outcome'] == 'ok']
    if not any(c['layout'] in ('ctrl-centre', 'interleaved') for c in ok_g) or \
            not any(c['ducts'] == 2 and c['family'] == 'iterate' for c in ok_g) or \
            run.extra.get('real_iterations', 0) < 2 * sum(1 for c in ok_g if c['family'] == 'iterate'):
        run.violations.append(dict(violation(
            'vacuous-alphabet', {'part': 'iterations'},
            'iteration alphabet did not complete a case with ungrouped assemblies in front, a '
            'double-duct optimisation, or fewer than two iterations per optimisation',
            [[c['layout'], c['ducts'], c['family']] for c in ok_g], None), part='iterations'))


def replay(body):
    part = body.get('part')
    if body.get('kind') == 'vacuous-alphabet':
        print('VIOLATION property=C20 replay=(inline) kind=vacuous-alphabet %s observed=%s (cross-case '
              'check, rerun the tier to re-evaluate)' % (body.get('what'), body.get('observed')))
        return 1
    fn = {'grouping': run_group, 'distribution': run_distribute, 'histories': run_history,
          'real-input': run_real, 'real-linear': run_linear, 'two-requests': run_twice,
          'iterations': run_iter}.get(part)
    if fn is None:
        print('no replay for part', part)
        return 1
    sc = dict(body['scenario'])
    sc.pop('history', None)
    r = guarded(fn, sc, 600)
    for v in r['violations']:
        print('VIOLATION property=C20 replay=(inline) kind=%s %s' % (v['kind'], v['what']))
    print('outcome', r['outcome'], r.get('info'))
    return 1 if r['violations'] else 0
