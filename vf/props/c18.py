"""C18  Impossible or inconsistent inputs are rejected before any calculation.

Alphabet (fault enumeration, deviation bound 1; bound 2 for geometry keys in
the thorough tier): three valid generated inputs

  A  single 3-ring bare bundle, reflector axial regions below/above, spacer
     grids, FuelModel, user power, total-power normalisation;
  B  7-position core, type `fuel` (double duct, wire wrap) and type `refl`
     (low-fidelity model), tabulated sodium, flowing inter-assembly gap;
  C  single wire-wrapped assembly, PinModel with user materials, three
     Hotspot requests, AssemblyTables, requested axial planes, Dump, non-SI
     units (celsius / cm);

and, for EVERY key / section / assignment line that appears in the text of
the base input (the text is walked generically; the value type is looked up
in dassh/input_template.txt), every fault of the menu of its type.  The
user-power CSV gets its own menu.  Nothing is sampled.

Keys of the template that are ABSENT from a section of the base text (and from
its absent fixed-name optional sub-sections: Setup/Dump, Setup/Units,
Assembly/*/SpacerGrid, FuelModel, PinModel) are inserted there: `ins:<name>` =
every value of a valid menu derived from the template spec (option -> every
option, boolean -> both, number -> typical / small value and the template
bounds, list -> one valid list, string -> known material / correlation / unit
names) and `ins!:<name>` = the invalid menu.  Sections that start another run
mode ([Power][[ARC]], [Orificing], [Plot]) are skipped.  An inserted valid
value carries no invalid class: accepted or rejected, never unexpected.

Outcome per case (real `DASSH_Input` -> `Reactor` -> sweep -> postprocess, as
`dassh.__main__._run_dassh` does):
  rejected    SystemExit while `Assembly.calculate` /
              `Core.calculate_gap_temperatures` had never been called (and, if
              a Reactor exists, no temperature array differs from its value
              after construction) and an ERROR record was logged;
  accepted    set up, swept, post-processed; all temperatures finite;
  late-exit   dassh's own error exit (SystemExit + message), but after
              temperatures had been computed;
  unexpected  any other exception type, NaN/inf temperature, HANG, or an exit
              without an error message.
Oracle: `unexpected` is always a violation; a member of an invalid class NAMED
in the statement must be `rejected` (`accepted` -> accepted-invalid,
`late-exit` -> late-exit-invalid); everything else may be accepted, rejected
or exit late (histogram in the evidence).  Part `valid`: inputs that are valid
by construction (design grid) must be `accepted`.

Flat scenario fields for known-finding matching: base, key (path in the
text), tkey (path in the template, `*` for user-named sections), fault, ffam
(fault family), kf = "tkey<-fault" (two of them joined by " & " for a double
fault).
"""
import hashlib
import logging
import math
import os
import time
import re

import numpy as np

from ..run import new_result, violation, site_of, guarded, Hang
from .. import scenario as S
from .. import REPO

SQ3 = math.sqrt(3.0)
CAP_STEPS = 60        # sweep fully when the mesh has at most this many steps
CAP_SWEEP = 50        # otherwise only the first CAP_SWEEP steps (no postprocess)
MAX_MESH = 2.0e6      # a mesh of more steps than this is reported as HANG
MEM_LIMIT = 8 << 30   # address-space limit of a worker (bytes)


# ======================================================================
# base inputs
def base_A():
    regions = {
        'lower_refl': {'z_lo': 0.0, 'z_hi': 0.08, 'vf_coolant': 0.3,
                       'structure_material': 'ht9_se2anl_425',
                       'hydraulic_diameter': 0.004, 'epsilon': 0.0,
                       'htc_params': [0.023, 0.8, 0.4, 7.0],
                       'convection_factor': 0.9},
        'upper_refl': {'z_lo': 0.32, 'z_hi': 0.36, 'vf_coolant': 0.35,
                       'structure_material': 'ht9_se2anl_425'},
        # a second region stacked on the first (region pairs above the bundle can overlap
        # while the bundle gap stays intact)
        'outlet_refl': {'z_lo': 0.36, 'z_hi': 0.4, 'vf_coolant': 0.4}}
    spacer = {'corr': 'REH', 'axial_positions': [0.12, 0.2, 0.28],
              'solidity': 0.3}
    fuel = {'clad_material': 'ht9_se2anl_425',
            'gap_material': 'sodium_se2anl_425', 'fcgap_thickness': 0.0001,   # legacy keyword of the gap
            'r_frac': [0.0, 0.33333, 0.66667], 'pu_frac': [0.2, 0.2, 0.2],
            'zr_frac': [0.1, 0.1, 0.1], 'porosity': [0.1, 0.1, 0.1]}
    d = S.design(3, pd=1.2, hd=30, ducts=1, oftf=0.06, clearance='mid',
                 wire=False, regions=regions, spacer=spacer, fuelmodel=fuel,
                 corr=('CTD', 'CTD', 'CTD'), shape_factor=1.0,
                 htc_params_duct=[0.023, 0.8, 0.4, 7.0])
    pw = {'rings': 3, 'nduct': 1, 'cells': [0.0, 0.2, 0.4], 'q': 8000.0,
          'pins': 'tilt', 'duct': 'uniform', 'cool': 'uniform',
          'axial': ['up', 'down']}
    scn = S.single(d, 3.0, length=0.4, power=pw, name='fuel',
                   setup={'calc_energy_balance': True,
                          'param_update_tol': 0.0})
    scn['power']['total'] = 2.0e5
    scn['power']['scaling'] = 1.0
    return scn


def base_B():
    fuel = S.design(3, pd=1.18, hd=25, ducts=2, oftf=0.06, clearance='tight',
                    wire=True, wire_dir='clockwise',
                    corr=('CTD', 'CTD', 'CTD'), bypass_fraction=0.08)
    refl = S.design(2, pd=1.1, hd=20, ducts=1, oftf=0.06, clearance='loose',
                    wire=True, lowfi={'model': 'simple',
                                      'convection_factor': 0.8})
    # a third type, defined BETWEEN the other two in the [Assembly] section (checks that compare
    # assembly types with each other must look at every type, not only the first and the last)
    mid = S.design(2, pd=1.25, hd=20, ducts=1, oftf=0.06, clearance='mid', wire=True,
                   corr=('CTD', 'CTD', 'CTD'))
    assign = [['fuel', 1, 1, {'flowrate': 3.5}]]
    asm = {}
    for p in range(1, 7):
        assign.append(['fuel', 2, p, {'flowrate': 3.0}] if p % 2 else
                      [('mid' if p == 6 else 'refl'), 2, p, {'flowrate': 1.0}])
    for i in range(1, 8):
        if i == 1 or (i - 1) % 2 == 1:
            asm[str(i)] = {'rings': 3, 'nduct': 2, 'cells': [0.0, 0.15, 0.3],
                           'q': 6000.0 + 300 * i, 'pins': 'asym',
                           'duct': 'uniform', 'cool': 'uniform',
                           'axial': ['up', 'down'], 'seed': i, 'order': 1}
        else:
            asm[str(i)] = {'rings': 2, 'nduct': 1, 'cells': [0.0, 0.15, 0.3],
                           'q': 500.0, 'pins': 'uniform', 'duct': 'uniform',
                           'cool': 'uniform', 'axial': ['flat', 'flat'],
                           'order': 1}
    return {'setup': {'conv_approx': True, 'conv_approx_dz_cutoff': 0.001,
                      'axial_mesh_size': 0.005},
            'core': {'inlet': 628.15, 'coolant': 'sodium', 'length': 0.3,
                     'pitch': 0.063, 'gap_model': 'flow',
                     'bypass_fraction': 0.1,
                     'htc_params_duct': [0.025, 0.8, 0.8, 7.0]},
            'types': {'fuel': fuel, 'mid': mid, 'refl': refl}, 'assign': assign,
            'power': {'asm': asm}}


def base_C():
    pinm = {'clad_material': 'ss316', 'gap_material': 'sodium',
            'gap_thickness': 0.0, 'r_frac': [0.0, 0.5],
            'pin_material': ['fuel_a', 'fuel_b']}
    hs = {'COOL': {'temperature': 'coolant', 'subfactors': 'fftf_clad_mw',
                   'input_sigma': 3, 'output_sigma': 2},
          'CLAD': {'temperature': 'clad_mw',
                   'subfactors': 'crbr_fuel_clad_mw'},
          'FUEL': {'temperature': 'fuel_cl', 'subfactors': 'fftf_fuel_cl'}}
    d = S.design(3, pd=1.25, hd=40, ducts=1, oftf=6.0, duct_t=0.25,
                 clearance='mid', wire=True, pinmodel=pinm, hotspot=hs,
                 corr=('CTD', 'CTD', 'MIT'), duct_mat='ss316')
    pw = {'rings': 3, 'nduct': 1, 'cells': [0.0, 0.1, 0.25, 0.4],
          'q': 9000.0, 'pins': 'asym', 'duct': 'uniform', 'cool': 'uniform',
          'axial': ['up', 'mid', 'down'], 'seed': 2, 'order': 2}
    setup = {'axial_plane': [5.0, 17.5, 33.0], 'log_progress': 0,
             'se2geo': False,
             'Dump': {'coolant': True, 'pins': True, 'interval': 10.0},
             'AssemblyTables': {
                 'cool_tab': {'type': 'coolant_subchannel',
                              'assemblies': [1],
                              'axial_positions': [10.0, 33.0]},
                 'clad_tab': {'type': 'clad_mw', 'assemblies': [1],
                              'axial_positions': [17.5, 40.0]},
                 'duct_tab': {'type': 'duct_mw', 'assemblies': [1],
                              'axial_positions': [20.0]}}}
    return {'setup': setup,
            'units': {'temperature': 'celsius', 'length': 'cm',
                      'mass_flow_rate': 'kg/s'},
            'materials': {'fuel_a': {'thermal_conductivity': [18.0]},
                          'fuel_b': {'thermal_conductivity': [22.0, 0.001]}},
            'core': {'inlet': 355.0, 'coolant': 'sodium', 'length': 40.0,
                     'pitch': 6.4, 'gap_model': 'none',
                     'bypass_fraction': 0.0},
            'types': {'driver': d},
            'assign': [['driver', 1, 1, {'outlet_temp': 480.0}]],
            'power': {'asm': {'1': pw}}}


def base_D():
    """base B with the two flat-to-flat values of every duct listed outer value first (the order
    inside a pair is free: the regions sort the list).  Only the faults of the duct / pitch keys
    are enumerated on this base (ONLY_KEYS)."""
    scn = base_B()
    for d in scn['types'].values():
        f = list(d['duct_ftf'])
        d['duct_ftf'] = [f[i + 1 - 2 * (i % 2)] for i in range(len(f))]
    return scn


def base_E():
    """base A with two time points (two user power files).  Only the power-file faults are enumerated on
    this base; the faults `pf:tp2-*` hit the SECOND file."""
    scn = base_A()
    scn['power']['timepoints'] = 2
    return scn


BASES = {'A': base_A, 'B': base_B, 'C': base_C, 'D': base_D, 'E': base_E}
ONLY_KEYS = {'D': ('Assembly/*/duct_ftf', 'Core/assembly_pitch'), 'E': ('Power/user_power@csv',)}
_BASE_CACHE = {}


def base_text(name):
    """(input text, {file name: text}) of a base input, from the builder."""
    if name not in _BASE_CACHE:
        with S.Built(BASES[name]()) as b:
            fs = {}
            for fn in sorted(os.listdir(b.dir)):
                if fn.startswith('power_') and fn.endswith('.csv'):
                    with open(os.path.join(b.dir, fn)) as f:
                        fs[fn] = f.read()
            _BASE_CACHE[name] = (b.text, fs)
    t, f = _BASE_CACHE[name]
    return t, dict(f)


# ======================================================================
# generic walk of an input text
_HDR = re.compile(r'^(\s*)(\[+)\s*([^\[\]]+?)\s*(\]+)\s*$')
_KV = re.compile(r'^(\s*)([^=#\[\s][^=]*?)\s*=\s*(.*?)\s*$')


def parse(lines):
    ents = []
    stack = []
    for i, ln in enumerate(lines):
        m = _HDR.match(ln)
        if m:
            depth = len(m.group(2))
            stack = stack[:depth - 1] + [m.group(3)]
            ents.append({'t': 'sec', 'i': i, 'path': tuple(stack),
                         'depth': depth})
            continue
        m = _KV.match(ln)
        if m:
            t = 'asn' if (stack and stack[0] == 'Assignment') else 'kv'
            ents.append({'t': t, 'i': i, 'path': tuple(stack),
                         'k': m.group(2), 'v': m.group(3),
                         'ind': m.group(1)})
    return ents


def section_extent(lines, ents, e):
    """[first, last+1) line range of the section whose header is entry e"""
    end = len(lines)
    for x in ents:
        if x['t'] == 'sec' and x['i'] > e['i'] and x['depth'] <= e['depth']:
            end = x['i']
            break
    return e['i'], end


_TEMPLATE = None


def template():
    global _TEMPLATE
    if _TEMPLATE is None:
        with open(os.path.join(REPO, 'dassh', 'input_template.txt')) as f:
            ents = parse(f.read().split('\n'))
        _TEMPLATE = {'kv': [e for e in ents if e['t'] in ('kv', 'asn')],
                     'sec': [e for e in ents if e['t'] == 'sec']}
    return _TEMPLATE


def _tmatch(tpath, path):
    return len(tpath) == len(path) and all(
        a == b or a == '__many__' for a, b in zip(tpath, path))


def spec_of(path, key):
    """(kind, spec text, template key) of an input key"""
    for e in template()['kv']:
        if e['k'] == key and _tmatch(e['path'], path):
            kind = re.match(r'\w+', e['v']).group(0)
            return kind, e['v'], tkey_of(e['path'], key)
    return None, None, tkey_of(path, key)


def tpath_of(path):
    for e in template()['sec']:
        if _tmatch(e['path'], path):
            return e['path']
    return path


def tkey_of(tpath, key=None):
    p = ['*' if x == '__many__' else x for x in tpath]
    return '/'.join(p + ([key] if key else []))


def option_values(spec):
    inner = spec[spec.index('(') + 1: spec.rindex(')')]
    vals = []
    for tok in inner.split(','):
        tok = tok.strip()
        if tok.startswith('default') or tok in ('None', ''):
            continue
        vals.append(tok.strip('\'"'))
    return vals


def split_list(v):
    out = [x.strip() for x in v.split(',')]
    while out and out[-1] == '':
        out.pop()
    return out


def join_list(el):
    s = ', '.join(el)
    if len(el) == 1:
        s += ','
    return s


def fnum(s):
    try:
        x = float(s)
    except (TypeError, ValueError):
        return None
    return x


def is_intlike(s):
    return re.match(r'^[+-]?\d+$', s.strip()) is not None


def fmt_like(x, like):
    if is_intlike(like) and float(x) == int(x):
        return str(int(x))
    return repr(float(x))


# ----------------------------------------------------------------------
# fault menus
NUM_BASIC = ['zero', 'neg', 'tiny', 'huge', 'nan', 'inf', 'text',
             'x0.5', 'x2', 'x0.95', 'x1.05', 'at-min', 'at-max', 'lt-min',
             'gt-max']
EL_NUM = ['zero', 'neg', 'tiny', 'huge', 'nan', 'text', 'eqnext', 'x0.5', 'x2',
          'x0.95', 'x1.05']
# geometry keys (template keys) that take part in the double faults
GEOM = ['Assembly/*/num_rings', 'Assembly/*/pin_pitch',
        'Assembly/*/pin_diameter', 'Assembly/*/clad_thickness',
        'Assembly/*/wire_pitch', 'Assembly/*/wire_diameter',
        'Assembly/*/duct_ftf', 'Core/length', 'Core/assembly_pitch',
        'Assembly/*/AxialRegion/*/z_lo', 'Assembly/*/AxialRegion/*/z_hi']
MATERIAL_LEAVES = ('coolant_material', 'duct_material', 'clad_material',
                   'gap_material', 'structure_material', 'pin_material')


def num_value(v, name, spec=None):
    """text of the faulted numeric value, or None when not applicable"""
    x = fnum(v)
    integer = is_intlike(v)
    if name == 'zero':
        return '0' if integer else '0.0'
    if name == 'nan':
        return 'nan'
    if name == 'inf':
        return 'inf'
    if name == 'text':
        return 'abc'
    if name == 'tiny':
        return '1e-12'
    if name == 'huge':
        return '1000000000000' if integer else '1e12'
    if x is None or not math.isfinite(x):
        return None
    if name == 'neg':
        y = -abs(x) if x != 0 else -1.0
        return fmt_like(y, v)
    if name in ('at-min', 'at-max', 'lt-min', 'gt-max'):
        m = re.search(r'\b%s\s*=\s*([-+0-9.eE]+)' % name[3:], spec or '')
        if not m:
            return None
        b = float(m.group(1))
        if name.startswith('at'):
            return fmt_like(b, v)
        d = 1 if integer else max(abs(b), 1.0) * 1e-6
        return fmt_like(b - d if name == 'lt-min' else b + d, v)
    if name.startswith('x'):
        f = float(name[1:])
        if integer:
            step = {0.5: -2, 2.0: 2, 0.95: -1, 1.05: 1}[f]
            return str(int(x) + step)
        return repr(x * f)
    return None


def kv_faults(e, ents, tier):
    """names of the faults of the menu that apply to key entry e"""
    kind, spec, tkey = spec_of(e['path'], e['k'])
    v = e['v']
    out = ['missing', 'dup', 'empty']
    sibs = [x for x in ents if x['t'] == 'kv' and x['path'] == e['path']
            and x is not e]
    if kind in ('float', 'integer') or (kind == 'string' and fnum(v) is not None):
        out += NUM_BASIC
        for s in sibs:
            sk = spec_of(s['path'], s['k'])[0]
            if sk in ('float', 'integer') and fnum(s['v']) is not None:
                out.append('eq:' + s['k'])
                if s['k'] > e['k']:
                    out.append('swap:' + s['k'])
        out += xrel_faults(e, ents, tkey)
        if kind == 'string':
            out += ['s:bogus']
    elif kind in ('float_list', 'int_list', 'force_list'):
        el = split_list(v)
        out += ['l:none', 'l:drop', 'l:dup', 'l:rev', 'l:single']
        for i, x in enumerate(el):
            if fnum(x) is not None:
                out += ['el%d:%s' % (i, n) for n in EL_NUM]
            else:
                out += ['el%d:bogus' % i, 'el%d:eqnext' % i]
        out += xrel_faults(e, ents, tkey)
    elif kind == 'option':
        out += ['o:bogus', 'o:case']
        out += ['alt:' + a for a in option_values(spec) if a != v]
    elif kind == 'boolean':
        out += ['b:flip', 'b:maybe']
    else:   # string (names, units, paths)
        out += ['s:bogus', 's:case']
        if '/' in v:
            out += ['s:bogus-num', 's:bogus-den']
        if tier == 'thorough':
            pool = sorted({x['v'] for x in ents if x['t'] == 'kv'
                           and spec_of(x['path'], x['k'])[0] == 'string'
                           and fnum(x['v']) is None and x['v'] != v})
            out += ['pool:' + p for p in pool]
    return out


def xrel_faults(e, ents, tkey):
    """cross-section relations between related keys (neighbouring values)"""
    out = []
    if tkey == 'Core/assembly_pitch':
        out += ['eq-ftf', 'lt-ftf']
    if tkey == 'Assembly/*/duct_ftf':
        out += ['eq-pitch', 'gt-pitch', 'inner-eq-outer', 'outer+0.3pc']
    if tkey == 'Core/length':
        out += ['eq-zlo-top']
    if tkey in ('Assembly/*/AxialRegion/*/z_lo', 'Assembly/*/AxialRegion/*/z_hi'):
        for x in ents:
            if (x['t'] == 'sec' and len(x['path']) == 4
                    and x['path'][:3] == e['path'][:3]
                    and x['path'] != e['path']):
                out.append('into:' + x['path'][3])
        out.append('beyond-core')
    if tkey == 'Assembly/*/wire_diameter':
        out += ['eq-gap', 'gt-gap']
    if tkey == 'Assembly/*/clad_thickness':
        out += ['eq-radius', 'gt-radius']
    if tkey == 'Assembly/*/pin_pitch':
        out += ['fill-duct+']
    if tkey in ('Assembly/*/FuelModel/gap_thickness', 'Assembly/*/FuelModel/fcgap_thickness',
                'Assembly/*/PinModel/gap_thickness', 'Assembly/*/PinModel/fcgap_thickness'):
        out += ['eq-bore', 'gt-bore']
    return out


def _get(ents, path, key):
    for x in ents:
        if x['t'] == 'kv' and x['path'] == tuple(path) and x['k'] == key:
            return x
    return None


def _xrel_value(e, ents, name):
    """value text for a cross relation fault (None: not applicable)"""
    p = e['path']
    if name in ('eq-ftf', 'lt-ftf'):
        ftfs = []
        for x in ents:
            if x['t'] == 'kv' and x['k'] == 'duct_ftf':
                ftfs += [fnum(a) for a in split_list(x['v'])]
        m = max(ftfs)
        return repr(m if name == 'eq-ftf' else m * 0.999)
    if name in ('eq-pitch', 'gt-pitch', 'inner-eq-outer', 'outer+0.3pc'):
        el = split_list(e['v'])
        if name == 'outer+0.3pc':
            # the outer flat-to-flat of this type 0.3 % (a fraction of a millimetre) larger than that of the others
            vals_ = [fnum(a) for a in el]
            k_ = vals_.index(max(vals_))
            el[k_] = repr(round(vals_[k_] * 1.003, 9))
        elif name == 'inner-eq-outer':
            el[-2] = el[-1]
        else:
            pitch = fnum(_get(ents, ('Core',), 'assembly_pitch')['v'])
            el[-1] = repr(pitch if name == 'eq-pitch' else pitch * 1.001)
        return join_list(el)
    if name == 'eq-zlo-top':
        zs = [fnum(x['v']) for x in ents if x['t'] == 'kv' and x['k'] == 'z_lo']
        if not zs or max(zs) <= 0:
            return None
        return repr(max(zs))
    if name.startswith('into:'):
        q = p[:3] + (name[5:],)
        lo = fnum(_get(ents, q, 'z_lo')['v'])
        hi = fnum(_get(ents, q, 'z_hi')['v'])
        return repr(0.5 * (lo + hi))
    if name == 'beyond-core':
        return repr(1.5 * fnum(_get(ents, ('Core',), 'length')['v']))
    if name in ('eq-bore', 'gt-bore'):
        # fuel-clad gap as wide as / wider than the clad bore radius: no pellet left
        q = p[:2]
        bore = fnum(_get(ents, q, 'pin_diameter')['v']) / 2 - fnum(_get(ents, q, 'clad_thickness')['v'])
        return repr(bore if name == 'eq-bore' else bore * 1.05)
    P = fnum(_get(ents, p, 'pin_pitch')['v'])
    D = fnum(_get(ents, p, 'pin_diameter')['v'])
    if name in ('eq-gap', 'gt-gap'):
        return repr((P - D) if name == 'eq-gap' else (P - D) * 1.01)
    if name in ('eq-radius', 'gt-radius'):
        return repr(D / 2 if name == 'eq-radius' else D / 2 * 1.01)
    if name == 'fill-duct+':
        n = fnum(_get(ents, p, 'num_rings')['v'])
        Dw = fnum(_get(ents, p, 'wire_diameter')['v'])
        ftf = min(fnum(a) for a in split_list(_get(ents, p, 'duct_ftf')['v']))
        # bundle exceeds the inner flat-to-flat by 1e-6 of it
        return repr((ftf * (1 + 1e-6) - D - 2 * Dw) / (SQ3 * (n - 1)))
    return None


def apply_kv(lines, ents, e, fault):
    """apply one fault to key entry e; returns True when applied"""
    i, ind, k, v = e['i'], e['ind'], e['k'], e['v']

    def put(val):
        lines[i] = '%s%s = %s' % (ind, k, val)
        return True

    if fault == 'missing':
        del lines[i]
        return True
    if fault == 'dup':
        lines.insert(i + 1, lines[i])
        return True
    if fault == 'empty':
        return put('')
    if fault in NUM_BASIC:
        val = num_value(v, fault, spec_of(e['path'], k)[1])
        return put(val) if val is not None else False
    if fault.startswith('eq:') or fault.startswith('swap:'):
        s = _get(ents, e['path'], fault.split(':', 1)[1])
        if s is None:
            return False
        if fault.startswith('swap:'):
            lines[s['i']] = '%s%s = %s' % (s['ind'], s['k'], v)
        return put(s['v'])
    if fault.startswith('el'):
        idx, name = fault[2:].split(':', 1)
        el = split_list(v)
        j = len(el) - 1 if idx == 'L' else int(idx)
        if j >= len(el):
            return False
        if name == 'bogus':
            el[j] = 'bogus_name'
        elif name == 'eqnext':
            if j + 1 >= len(el):
                return False
            el[j] = el[j + 1]
        else:
            val = num_value(el[j], name)
            if val is None:
                return False
            el[j] = val
        return put(join_list(el))
    if fault.startswith('l:'):
        el = split_list(v)
        name = fault[2:]
        if name == 'none':
            return put(',')
        if name == 'drop':
            return put(join_list(el[:-1])) if len(el) > 1 else put(',')
        if name == 'dup':
            return put(join_list(el + el[-1:]))
        if name == 'rev':
            return put(join_list(el[::-1]))
        if name == 'single':
            return put(join_list(el[:1]))
        return False
    if fault == 'o:bogus' or fault == 's:bogus':
        return put('bogus_name')
    if fault in ('o:case', 's:case'):
        return put(v.lower() if v != v.lower() else v.upper())
    if fault == 's:bogus-num':
        return put('bogus/' + v.split('/', 1)[1])
    if fault == 's:bogus-den':
        return put(v.split('/', 1)[0] + '/bogus')
    if fault.startswith('alt:') or fault.startswith('pool:'):
        return put(fault.split(':', 1)[1])
    if fault == 'b:flip':
        return put('False' if v.strip().lower() == 'true' else 'True')
    if fault == 'b:maybe':
        return put('maybe')
    val = _xrel_value(e, ents, fault)
    if val is None:
        return False
    return put(val)


# assignment lines -----------------------------------------------------
ASN_FAULTS = ['asn:unknown-asm', 'asn:missing-bc', 'asn:two-bc',
              'asn:bc-unknown-key', 'asn:dup-position', 'asn:missing-line',
              'asn:pos-out-of-ring', 'asn:ring-zero', 'asn:ring-text',
              'asn:outlet-below-inlet', 'asn:delta-zero', 'asn:delta-neg',
              'asn:outlet-eq-inlet'] + ['asn:bc-' + n for n in NUM_BASIC]


def apply_asn(lines, ents, e, fault):
    i, ind, k, v = e['i'], e['ind'], e['k'], e['v']
    parts = [x.strip() for x in v.split(',')]
    ring, p1, p2, bcs = parts[0], parts[1], parts[2], parts[3:]
    name = fault[4:]

    def put(k=k, ring=ring, p1=p1, p2=p2, bcs=bcs):
        lines[i] = '%s%s = %s' % (ind, k, ', '.join([ring, p1, p2] + list(bcs)))
        return True

    inlet = fnum(_get(ents, ('Core',), 'coolant_inlet_temp')['v'])
    bk, bv = bcs[0].split('=')
    if name == 'unknown-asm':
        return put(k='bogus_name')
    if name == 'missing-bc':
        return put(bcs=[])
    if name == 'two-bc':
        return put(bcs=bcs + ['DELTA_TEMP=100.0'])
    if name == 'bc-unknown-key':
        return put(bcs=['FLOW=' + bv])
    if name == 'dup-position':
        lines.insert(i + 1, lines[i])
        return True
    if name == 'missing-line':
        del lines[i]
        return True
    if name == 'pos-out-of-ring':
        n = int(ring)
        q = str(2 if n == 1 else 6 * (n - 1) + 1)
        return put(p1=q, p2=q)
    if name == 'ring-zero':
        return put(ring='0')
    if name == 'ring-text':
        return put(ring='two')
    if name == 'outlet-below-inlet':
        return put(bcs=['OUTLET_TEMP=%r' % (inlet - 10.0)])
    if name == 'outlet-eq-inlet':
        return put(bcs=['OUTLET_TEMP=%r' % inlet])
    if name == 'delta-zero':
        return put(bcs=['DELTA_TEMP=0.0'])
    if name == 'delta-neg':
        return put(bcs=['DELTA_TEMP=-50.0'])
    if name.startswith('bc-'):
        val = num_value(bv, name[3:])
        if val is None:
            return False
        return put(bcs=['%s=%s' % (bk, val)])
    return False


# sections ---------------------------------------------------------------
SEC_FAULTS = ['sec:missing', 'sec:empty', 'sec:dup', 'sec:rename']


def apply_sec(lines, ents, e, fault):
    a, b = section_extent(lines, ents, e)
    if fault == 'sec:missing':
        del lines[a:b]
    elif fault == 'sec:empty':
        if b - a <= 1:
            return False
        del lines[a + 1:b]
    elif fault == 'sec:dup':
        lines[b:b] = lines[a:b]
    elif fault == 'sec:rename':
        lines[a] = lines[a].replace(e['path'][-1], 'bogus_name')
    else:
        return False
    return True


# user power file --------------------------------------------------------
# fault -> class named in the statement (None = outside the named classes)
PF_FAULTS = {
    'pf:neg-coeff': 'negative-power', 'pf:neg-all': 'negative-power',
    'pf:neg-slope': 'negative-power', 'pf:neg-duct': 'negative-power',
    'pf:neg-cool': 'negative-power', 'pf:neg-interior': 'negative-power',
    'pf:neg-posslope': 'negative-power',
    'pf:nan-coeff': 'malformed-power', 'pf:inf-coeff': 'malformed-power',
    'pf:text-cell': 'malformed-power', 'pf:empty-cell': 'malformed-power',
    'pf:drop-pin-row': 'malformed-power', 'pf:drop-pin': 'malformed-power',
    'pf:extra-pin': 'malformed-power', 'pf:dup-row': 'malformed-power',
    'pf:drop-duct': 'malformed-power', 'pf:drop-cool': 'malformed-power',
    'pf:gap': 'malformed-power', 'pf:overlap': 'malformed-power',
    'pf:gap-duct-only': 'malformed-power',
    'pf:cool-one-cell': 'malformed-power', 'pf:duct-one-cell': 'malformed-power',
    'pf:upper-short': 'malformed-power', 'pf:upper-long': 'malformed-power',
    'pf:lower-nonzero': 'malformed-power',
    'pf:inverted-cell': 'malformed-power',
    'pf:ragged-row': 'malformed-power', 'pf:empty-file': 'malformed-power',
    'pf:header-text': 'malformed-power', 'pf:comp-id-4': 'malformed-power',
    'pf:pin-index-gap': 'malformed-power',
    'pf:asm-id-unknown': None, 'pf:asm-id-base0': None,
    'pf:zero-all': None, 'pf:huge-coeff': None, 'pf:tiny-coeff': None,
    'pf:missing-file': 'malformed-power',
    'pf:tp2-missing-file': 'malformed-power', 'pf:tp2-neg-coeff': 'negative-power',
    'pf:tp2-drop-pin': 'malformed-power', 'pf:tp2-upper-short': 'malformed-power',
    'pf:tp2-text-cell': 'malformed-power',
    'pf:late-reorder': None,
    'pf:late-neg-coeff': 'negative-power', 'pf:late-neg-posslope': 'negative-power',
    'pf:late-drop-pin': 'malformed-power', 'pf:late-extra-pin': 'malformed-power',
    'pf:late-drop-duct': 'malformed-power', 'pf:late-gap': 'malformed-power',
    'pf:late-upper-short': 'malformed-power', 'pf:late-upper-long': 'malformed-power',
    'pf:late-lower-nonzero': 'malformed-power', 'pf:late-pin-index-gap': 'malformed-power',
}


def apply_pf(files, fault):
    name = 'power_0.csv'
    if fault.startswith('pf:tp2-'):
        # the same fault in the power file of the second time point
        if 'power_1.csv' not in files:
            return False
        sub = {'power_0.csv': files['power_1.csv']}
        ok = apply_pf(sub, 'pf:' + fault[7:])
        if ok:
            if 'power_0.csv' in sub:
                files['power_1.csv'] = sub['power_0.csv']
            else:
                del files['power_1.csv']
        return ok
    rows = [r.split(',') for r in files[name].strip().split('\n')]
    f = fault[3:]
    if f.startswith('late-'):
        # the same fault in the LAST assembly of the file that has the row structure of the first one
        # (another position of the same assembly type): its block is moved to the front of the file
        f = f[5:]

        def sig(a):
            return sorted((r[1], r[2], r[3], r[4]) for r in rows if r[0] == a)
        ids = []
        for r in rows:
            if r[0] not in ids:
                ids.append(r[0])
        same = [a for a in ids[1:] if sig(a) == sig(ids[0])]
        if not same:
            return False
        rows = [r for r in rows if r[0] == same[-1]] + [r for r in rows if r[0] != same[-1]]
        if f == 'reorder':
            files[name] = '\n'.join(','.join(r) for r in rows) + '\n'
            return True
    first = rows[0]
    a0 = first[0]
    zs = sorted({float(r[2]) for r in rows} | {float(r[3]) for r in rows})

    def is_(r, comp, cell=None, asm=a0):
        return (r[0] == asm and r[1] == str(comp)
                and (cell is None or float(r[2]) == zs[cell]))

    def npin():
        return max(int(r[4]) for r in rows if is_(r, 1))

    if f in ('neg-coeff', 'nan-coeff', 'inf-coeff', 'text-cell', 'empty-cell',
             'huge-coeff', 'tiny-coeff'):
        val = {'neg-coeff': None, 'nan-coeff': 'nan', 'inf-coeff': 'inf',
               'text-cell': 'abc', 'empty-cell': '', 'huge-coeff': '1e+30',
               'tiny-coeff': '1e-300'}[f]
        rows[0][5] = val if val is not None else repr(-abs(float(rows[0][5])))
    elif f == 'neg-all':
        for r in rows:
            r[5:] = [repr(-float(x)) for x in r[5:]]
    elif f == 'neg-slope':
        r = rows[0]
        if len(r) < 7:
            return False
        r[6] = repr(-4.0 * abs(float(r[5])))
    elif f == 'neg-posslope':
        # every coefficient non-negative, yet negative at the bottom of the cell:
        # p(x) = c + 4 c x on [-1/2, 1/2]  ->  -c at x = -1/2
        r = rows[0]
        if len(r) < 7:
            return False
        c0 = abs(float(r[5]))
        for rr_ in rows:       # no negative coefficient anywhere in the file
            rr_[5:] = [repr(abs(float(x))) for x in rr_[5:]]
        r[5:7] = [repr(c0), repr(4.0 * c0)]
    elif f == 'neg-interior':
        # non-negative at both ends of the cell, negative in its interior:
        # p(x) = -0.5 c + 4 c x^2 on [-1/2, 1/2]  ->  ends +0.5 c, centre -0.5 c
        r = rows[0]
        c0 = abs(float(r[5]))
        for rr_ in rows:
            while len(rr_) < 8:
                rr_.append('0.0')
        r[5:8] = [repr(-0.5 * c0), '0.0', repr(4.0 * c0)]
    elif f in ('neg-duct', 'neg-cool'):
        comp = 2 if f == 'neg-duct' else 3
        for r in rows:
            if is_(r, comp, 0) and r[4] == '1':
                r[5] = repr(-abs(float(r[5])))
    elif f == 'zero-all':
        for r in rows:
            r[5:] = ['0.0' for x in r[5:]]
    elif f == 'drop-pin-row':
        n = npin()
        rows = [r for r in rows if not (is_(r, 1, 0) and int(r[4]) == n)]
    elif f in ('drop-pin', 'drop-duct', 'drop-cool'):
        comp = {'drop-pin': 1, 'drop-duct': 2, 'drop-cool': 3}[f]
        n = max(int(r[4]) for r in rows if is_(r, comp))
        rows = [r for r in rows if not (is_(r, comp) and int(r[4]) == n)]
    elif f == 'extra-pin':
        n = npin()
        add = [list(r) for r in rows if is_(r, 1) and int(r[4]) == n]
        for r in add:
            r[4] = str(n + 1)
        rows += add
    elif f == 'pin-index-gap':
        n = npin()
        for r in rows:
            if is_(r, 1) and int(r[4]) == n:
                r[4] = str(n + 1)
    elif f == 'dup-row':
        rows.insert(1, list(rows[0]))
    elif f in ('gap', 'overlap', 'gap-duct-only'):
        d = (zs[1] - zs[0]) * (0.25 if f != 'overlap' else -0.25)
        for r in rows:
            if float(r[2]) == zs[1] and (f != 'gap-duct-only' or r[1] == '2'):
                r[2] = repr(zs[1] + d)
    elif f in ('cool-one-cell', 'duct-one-cell'):
        # the coolant (duct) rows of the first assembly cover the whole height in ONE axial region while its pins
        # keep theirs: the components do not share their axial boundaries (and not even their number)
        if len(zs) < 3:
            return False
        comp = 3 if f == 'cool-one-cell' else 2
        keep = []
        for r in rows:
            if is_(r, comp):
                if float(r[2]) != zs[0]:
                    continue
                r[3] = repr(zs[-1])
            keep.append(r)
        if len(keep) == len(rows):
            return False
        rows = keep
    elif f in ('upper-short', 'upper-long'):
        d = (zs[-1] - zs[-2]) * (-0.25 if f == 'upper-short' else 0.25)
        for r in rows:
            if float(r[3]) == zs[-1]:
                r[3] = repr(zs[-1] + d)
    elif f == 'lower-nonzero':
        for r in rows:
            if float(r[2]) == zs[0]:
                r[2] = repr(zs[0] + 0.25 * (zs[1] - zs[0]))
    elif f == 'inverted-cell':
        for r in rows:
            if float(r[2]) == zs[0]:
                r[2], r[3] = r[3], r[2]
    elif f == 'ragged-row':
        rows[0] = rows[0][:-1] if len(rows[0]) > 6 else rows[0] + ['1.0']
    elif f == 'empty-file':
        files[name] = ''
        return True
    elif f == 'missing-file':
        del files[name]
        return True
    elif f == 'header-text':
        files[name] = 'asm,comp,zlo,zhi,idx,c0\n' + files[name]
        return True
    elif f == 'comp-id-4':
        for r in rows:
            if is_(r, 3):
                r[1] = '4'
    elif f == 'asm-id-unknown':
        for r in rows:
            if r[0] == a0:
                r[0] = '99'
    elif f == 'asm-id-base0':
        for r in rows:
            r[0] = str(int(float(r[0])) - 1)
    else:
        return False
    files[name] = '\n'.join(','.join(r) for r in rows) + '\n'
    return True


# ----------------------------------------------------------------------
# inserted keys -------------------------------------------------------------
# Template keys that do NOT occur in the base text are inserted in every section
# of the text where the template allows them (and in the fixed-name optional
# sub-sections that are absent, e.g. Setup/Dump, Assembly/*/SpacerGrid), with
# `ins:<name>` = a value that is valid by the template, or `ins!:<name>` = a
# value of the invalid menu.  Sections that start another run mode are skipped.
INS_SKIP_SECTIONS = (('Power', 'ARC'), ('Orificing',), ('Plot',), ('Assignment',))
INS_INVALID_NUM = ['zero', 'neg', 'tiny', 'huge', 'nan', 'inf', 'text', 'lt-min',
                   'gt-max']
INS_INVALID_NUM_QUICK = ['nan', 'lt-min', 'gt-max']
INS_LISTS = {'htc_params_duct': '0.023, 0.8, 0.4, 7.0',
             'htc_params': '0.023, 0.8, 0.4, 7.0',
             'htc_params_clad': '0.023, 0.8, 0.4, 7.0',
             'corr_coeff': '1.0, 0.0, 0.0, 1.0, 0.0, 0.0, 1.0',
             'dummy_pin': '1,', 'assemblies': '1,', 'beta': '0.0,'}
INS_STRINGS = {'corr_nusselt': ['DB', 'dittus-boelter'],
               'convection_factor': ['calculate', '0.5'],
               'model': ['simple', '6node'],
               'subfactors': ['fftf_clad_mw'],
               'temperature': ['kelvin', 'celsius', 'fahrenheit'],
               'length': ['m', 'cm', 'in'],
               'mass_flow_rate': ['kg/s', 'lb/hr']}


def _bound(spec, which):
    m = re.search(r'\b%s\s*=\s*([-+0-9.eE]+)' % which, spec or '')
    return float(m.group(1)) if m else None


def ins_values(path, key, ents, tier):
    """[(fault name, value text)] for a template key that is absent at `path`"""
    kind, spec, tkey = spec_of(path, key)
    out = []
    if kind is None:
        return out
    if kind == 'option':
        out += [('ins:opt=' + a, a) for a in option_values(spec)]
        out += [('ins!:bogus', 'bogus_name')]
    elif kind == 'boolean':
        out += [('ins:True', 'True'), ('ins:False', 'False'), ('ins!:maybe', 'maybe')]
    elif kind in ('float', 'integer'):
        lo, hi = _bound(spec, 'min'), _bound(spec, 'max')
        integer = kind == 'integer'
        if lo is not None and hi is not None:
            typ = [('typ', 0.5 * (lo + hi))]
        elif integer:
            typ = [('typ', (lo if lo is not None else 0) + 1)]
        else:
            b = lo if lo is not None else 0.0
            typ = [('typ', b + 0.5), ('small', b + 1e-3)]
        like = '1' if integer else '1.0'
        for n, x in typ:
            out.append(('ins:' + n, fmt_like(x, like)))
        if lo is not None:
            out.append(('ins:at-min', fmt_like(lo, like)))
        if hi is not None:
            out.append(('ins:at-max', fmt_like(hi, like)))
        ref = fmt_like(typ[0][1], like)
        for n in (INS_INVALID_NUM if tier == 'thorough' else INS_INVALID_NUM_QUICK):
            val = num_value(ref, n, spec)
            if val is not None:
                out.append(('ins!:' + n, val))
    elif kind in ('float_list', 'int_list', 'force_list'):
        if key in MATERIAL_LEAVES:
            return out
        val = INS_LISTS.get(key, '1,' if kind == 'int_list' else '0.1,')
        out.append(('ins:list', val))
        out += [('ins!:el-nan', 'nan,')]
        if tier == 'thorough':
            out += [('ins!:el-text', 'abc,'), ('ins!:el-neg', '-1,')]
        if key in INS_LISTS and ',' in INS_LISTS[key].rstrip(','):
            out.append(('ins!:l-drop', join_list(split_list(val)[:-1])))
    elif kind == 'string':
        if key in MATERIAL_LEAVES:
            pool = []
            for x in ents:
                if x['t'] == 'kv' and x['k'] in MATERIAL_LEAVES:
                    for a in split_list(x['v']):
                        if a not in pool:
                            pool.append(a)
            out += [('ins:mat=' + a, a) for a in pool[:3]]
            out.append(('ins!:bogus', 'bogus_name'))
        elif key in INS_STRINGS:
            out += [('ins:str=' + a, a) for a in INS_STRINGS[key]]
            out.append(('ins!:bogus', 'bogus_name'))
    return out


def ins_sections(ents):
    """[(path, exists)] of the sections of the text that can take inserted keys:
    the sections present, and their absent fixed-name template sub-sections"""
    present = [e['path'] for e in ents if e['t'] == 'sec']
    out = []
    for p in present:
        if any(p[:len(sk)] == sk for sk in INS_SKIP_SECTIONS):
            continue
        out.append((p, True))
        tp = tpath_of(p)
        for te in template()['sec']:
            q = te['path']
            if (len(q) == len(tp) + 1 and q[:-1] == tuple(tp) and q[-1] != '__many__'
                    and p + (q[-1],) not in present
                    and not any((p + (q[-1],))[:len(sk)] == sk
                                for sk in INS_SKIP_SECTIONS)):
                out.append((p + (q[-1],), False))
    return out


def ins_faults(ents, tier):
    out = []
    for path, exists in ins_sections(ents):
        tp = tuple(tpath_of(path))
        have = {e['k'] for e in ents if e['t'] == 'kv' and e['path'] == path}
        for te in template()['kv']:
            if te['path'] != tp or te['k'] in have:
                continue
            for name, val in ins_values(path, te['k'], ents, tier):
                out.append(('/'.join(path + (te['k'],)), tkey_of(tp, te['k']), name))
    return out


def apply_ins(lines, ents, key, fault, tier='thorough'):
    parts = tuple(key.split('/'))
    path, k = parts[:-1], parts[-1]
    val = dict(ins_values(path, k, ents, tier)).get(fault)
    if val is None:
        return False
    ind = '    ' * len(path)
    line = '%s%s = %s' % (ind, k, val)
    for e in ents:
        if e['t'] == 'sec' and e['path'] == path:
            lines.insert(e['i'] + 1, line)
            return True
    for e in ents:
        if e['t'] == 'sec' and e['path'] == path[:-1]:
            a, b = section_extent(lines, ents, e)
            while b > a + 1 and lines[b - 1].strip() == '':
                b -= 1
            d = len(path)
            lines[b:b] = ['%s%s%s%s' % ('    ' * (d - 1), '[' * d, path[-1], ']' * d),
                          line]
            return True
    return False


def key_of(e):
    if e['t'] == 'sec':
        return '/'.join(e['path'])
    return '/'.join(e['path'] + (e['k'],))


def find_entry(ents, key):
    if '#' in key:
        n = int(key.split('#')[1])
        asn = [e for e in ents if e['t'] == 'asn']
        return asn[n] if n < len(asn) else None
    for e in ents:
        if e['t'] in ('kv', 'sec') and key_of(e) == key:
            return e
    return None


def mutate(base, muts):
    """apply [(key, fault), ...] in order to a base input.
    -> (text, files) or None when a fault does not apply"""
    text, files = base_text(base)
    lines = text.split('\n')
    for key, fault in muts:
        if fault == 'none':
            continue
        if fault.startswith('pf:'):
            if not apply_pf(files, fault):
                return None
            continue
        ents = parse(lines)
        if fault.startswith('ins'):
            if not apply_ins(lines, ents, key, fault):
                return None
            continue
        e = find_entry(ents, key)
        if e is None:
            return None
        try:
            if fault.startswith('sec:'):
                ok = e['t'] == 'sec' and apply_sec(lines, ents, e, fault)
            elif fault.startswith('asn:'):
                ok = e['t'] == 'asn' and apply_asn(lines, ents, e, fault)
            else:
                ok = e['t'] == 'kv' and apply_kv(lines, ents, e, fault)
        except (ArithmeticError, TypeError, AttributeError, ValueError,
                IndexError, KeyError):
            # the operands of a relation fault were destroyed by an earlier
            # fault of the same case: the pair does not exist
            ok = False
        if not ok:
            return None
    return '\n'.join(lines), files


def single_faults(base, tier):
    """[(key, tkey, fault)] over every key / section / line of the base text"""
    text, files = base_text(base)
    lines = text.split('\n')
    ents = parse(lines)
    out = []
    nasn = 0
    for e in ents:
        if e['t'] == 'kv':
            for f in kv_faults(e, ents, tier):
                out.append((key_of(e), spec_of(e['path'], e['k'])[2], f))
        elif e['t'] == 'sec':
            for f in SEC_FAULTS:
                out.append((key_of(e), tkey_of(tpath_of(e['path'])), f))
        else:
            for f in ASN_FAULTS:
                out.append(('Assignment/ByPosition#%d' % nasn,
                            'Assignment/ByPosition#', f))
            nasn += 1
    for f in sorted(PF_FAULTS):
        out.append(('Power/user_power@csv', 'Power/user_power@csv', f))
    out += ins_faults(ents, tier)
    return out


def _kf(*pairs):
    return ' & '.join('%s<-%s' % p for p in pairs)


def cases(tier):
    """single-fault cases (deviation bound 1) of all three base inputs"""
    out = []
    for base in sorted(BASES):
        text0, files0 = base_text(base)
        seen = {_digest(text0, files0)}
        out.append({'base': base, 'key': '-', 'tkey': '-', 'fault': 'none',
                    'ffam': 'none', 'kf': '-'})
        for key, tkey, fault in single_faults(base, tier):
            if base in ONLY_KEYS and tkey not in ONLY_KEYS[base]:
                continue
            m = mutate(base, [(key, fault)])
            if m is None:
                continue
            d = _digest(*m)
            if d in seen:      # no-op or same text as an earlier fault
                continue
            seen.add(d)
            out.append({'base': base, 'key': key, 'tkey': tkey, 'fault': fault,
                        'ffam': family(fault), 'kf': _kf((tkey, fault))})
            if base == 'A' and fault in REWRITE_FAULTS:
                # the same faulty power file written over a GOOD one of the same name after a model was built from
                # the good one in this process
                out.append({'base': base, 'key': key, 'tkey': tkey, 'fault': fault, 'ffam': family(fault),
                            'kf': _kf((tkey, fault)), 'prior': True})
    return out


REWRITE_FAULTS = ('pf:neg-coeff', 'pf:nan-coeff', 'pf:drop-pin', 'pf:upper-short', 'pf:gap', 'pf:text-cell')


DOUBLE_FAMILIES = ('zero', 'neg', 'tiny', 'huge', 'scale', 'relation', 'list',
                   'bound')


def double_cases(singles, results):
    """deviation bound 2 on the geometry keys: all pairs of single faults
    (value menu, list menu, bounds and the cross-key relations; not the plain
    sibling eq:/swap: faults) on two different geometry keys of the same base.  Single-fault cases that are
    themselves violations are terminal (not expanded), as error states in an
    explicit-state search."""
    out = []
    for base in sorted(BASES):
        text0, files0 = base_text(base)
        seen = {_digest(text0, files0)}
        geo = []
        for c, r in zip(singles, results):
            if c['base'] != base or c['fault'] == 'none':
                continue
            seen.add(_digest(*mutate(base, [(c['key'], c['fault'])])))
            if (c['tkey'] in GEOM and c['ffam'] in DOUBLE_FAMILIES
                    and not c['fault'].startswith(('eq:', 'swap:'))
                    and not r['violations']):
                geo.append(c)
        for i, a in enumerate(geo):
            for b in geo[i + 1:]:
                if a['key'] == b['key']:
                    continue
                m = mutate(base, [(a['key'], a['fault']), (b['key'], b['fault'])])
                if m is None:
                    continue
                d = _digest(*m)
                if d in seen:
                    continue
                seen.add(d)
                out.append({'base': base, 'key': a['key'], 'tkey': a['tkey'],
                            'fault': a['fault'], 'ffam': 'double',
                            'key2': b['key'], 'tkey2': b['tkey'],
                            'fault2': b['fault'],
                            'kf': _kf((a['tkey'], a['fault']),
                                      (b['tkey'], b['fault']))})
    return out


def family(fault):
    """coarse family of a fault (flat scenario field `ffam`)"""
    f = fault
    if f.startswith('ins:'):
        return 'insert'
    if f.startswith('ins!:'):
        g = f[5:]
        if g.startswith('el-'):
            g = g[3:]
        return 'insert-' + ('nonfinite' if g in ('nan', 'inf') else 'invalid')
    if f.startswith('asn:bc-'):
        f = f[7:]
    elif f.startswith('el') and ':' in f:
        f = f.split(':', 1)[1]
    if f in ('nan', 'inf') or fault in ('pf:nan-coeff', 'pf:inf-coeff'):
        return 'nonfinite'
    if f == 'text':
        return 'non-numeric'
    if fault in ('dup', 'sec:dup'):
        return 'duplicate'
    for pre, fam in (('pf:', 'power-file'), ('asn:', 'assignment'),
                     ('sec:', 'section'), ('l:', 'list'), ('alt:', 'option-alt'),
                     ('b:', 'bool'), ('pool:', 'name'), ('s:', 'name'),
                     ('o:', 'name')):
        if fault.startswith(pre):
            return fam
    if f in ('zero', 'neg', 'tiny', 'huge', 'missing', 'empty', 'none', 'bogus'):
        return {'bogus': 'name'}.get(f, f)
    if f in ('at-min', 'at-max', 'lt-min', 'gt-max'):
        return 'bound'
    if re.match(r'^x[0-9.]+$', f):
        return 'scale'
    return 'relation'


def _digest(text, files):
    h = hashlib.sha1(text.encode())
    for k in sorted(files):
        h.update(k.encode())
        h.update(files[k].encode())
    return h.hexdigest()[:16]


# ======================================================================
# which invalid classes NAMED in the statement does a (mutated) input belong
# to?  Evaluated on the text of the input with the plain definitions of the
# statement; a predicate is only evaluated when all its operands are present
# and finite (otherwise the input is not claimed to be in the class).
def doc_of(text):
    d = {}
    dup = False
    for e in parse(text.split('\n')):
        if e['t'] == 'kv':
            sec = d.setdefault(e['path'], {})
            if e['k'] in sec:
                dup = True
            sec[e['k']] = e['v']
        elif e['t'] == 'sec':
            if e['path'] in d:
                dup = True
            d.setdefault(e['path'], {})
    return d, dup


def _fin(s):
    x = fnum(s)
    return x if (x is not None and math.isfinite(x)) else None


def geometry_classes(text):
    d, dup = doc_of(text)
    if dup:
        return set()
    cls = set()
    core = d.get(('Core',), {})
    L = _fin(core.get('length'))
    pitch = _fin(core.get('assembly_pitch'))
    core_len = _fin(core.get('length'))
    for nm, x in (('length', L), ('assembly_pitch', pitch)):
        if x is not None and x <= 0:
            cls.add('nonpositive-dimension')
    outer = []
    for path in sorted(d):
        if len(path) == 2 and path[0] == 'Assembly':
            a = d[path]
            n, P, D = _fin(a.get('num_rings')), _fin(a.get('pin_pitch')), _fin(a.get('pin_diameter'))
            ct, Dw, Hw = _fin(a.get('clad_thickness')), _fin(a.get('wire_diameter')), _fin(a.get('wire_pitch'))
            ftf = [_fin(x) for x in split_list(a.get('duct_ftf', ''))]
            lowfi = a.get('use_low_fidelity_model', 'False').strip().lower() == 'true'
            for x in (n, P, D, ct):
                if x is not None and x <= 0:
                    cls.add('nonpositive-dimension')
            for x in (Dw, Hw):
                if x is not None and x < 0:
                    cls.add('nonpositive-dimension')
            if Dw is not None and Hw is not None and Dw > 0 and Hw == 0:
                cls.add('nonpositive-dimension')
            if ftf and all(x is not None for x in ftf):
                if any(x <= 0 for x in ftf):
                    cls.add('nonpositive-dimension')
                if pitch is not None and max(ftf) >= pitch:
                    cls.add('duct-not-smaller-than-pitch')
                # a duct wall of zero thickness (inner flat-to-flat = outer flat-to-flat of one duct)
                sf = sorted(ftf)
                if len(sf) % 2 == 0 and any(sf[i] == sf[i + 1] for i in range(0, len(sf), 2)):
                    cls.add('nonpositive-dimension')
                outer.append(round(max(ftf), 9))
                if None not in (n, P, D, Dw) and n >= 1 and min(P, D) > 0 and Dw >= 0:
                    # round-off of the sum: a few ulp of the flat-to-flat
                    if SQ3 * (n - 1) * P + D + 2 * Dw - min(ftf) > 1e-12 * abs(min(ftf)):
                        cls.add('pins-do-not-fit-lowfi' if lowfi else 'pins-do-not-fit')
            if None not in (P, D, Dw) and Dw > (P - D) + 1e-12 * abs(P):
                cls.add('wire-thicker-than-gap')
            if None not in (ct, D) and ct > D / 2 + 1e-12 * abs(D):
                cls.add('clad-thicker-than-radius')
            regs = []
            for q in sorted(d):
                if len(q) == 4 and q[:2] == path and q[2] == 'AxialRegion':
                    lo, hi = _fin(d[q].get('z_lo')), _fin(d[q].get('z_hi'))
                    for k in ('hydraulic_diameter', 'epsilon'):
                        x = _fin(d[q].get(k))
                        if x is not None and x < 0:
                            cls.add('nonpositive-dimension')
                    if lo is None or hi is None:
                        continue
                    if hi <= lo:
                        cls.add('inverted-axial-region')
                    else:
                        regs.append((lo, hi))
                    # a region that reaches beyond the core outlet (not merely a bound typed with fewer digits)
                    if core_len is not None and core_len > 0 and hi > core_len * (1.0 + 1e-6):
                        cls.add('axial-region-beyond-core')
            for i in range(len(regs)):
                for j in range(i + 1, len(regs)):
                    if min(regs[i][1], regs[j][1]) - max(regs[i][0], regs[j][0]) > 0:
                        cls.add('overlapping-axial-regions')
            for sub in ('FuelModel', 'PinModel'):
                g = _fin(d.get(path + (sub,), {}).get('gap_thickness'))
                if g is not None and g < 0:
                    cls.add('nonpositive-dimension')
                # the gap the model uses: gap_thickness, else the legacy keyword fcgap_thickness;
                # wider than the clad bore radius leaves a pellet of non-positive radius
                g2 = _fin(d.get(path + (sub,), {}).get('fcgap_thickness'))
                guse = g if (g is not None and g > 0) else g2
                if None not in (guse, D, ct) and guse > D / 2 - ct + 1e-12 * abs(D):
                    cls.add('nonpositive-dimension')
    if len(set(outer)) > 1:
        cls.add('unequal-outer-ducts')
    return cls


def fault_classes(tkey, fault):
    """classes that hold by construction of the fault"""
    leaf = tkey.split('/')[-1]
    cls = set()
    if fault == 'asn:missing-bc':
        cls.add('missing-boundary-condition')
    bogus = fault in ('s:bogus', 'o:bogus') or fault.endswith(':bogus')
    if bogus and leaf in MATERIAL_LEAVES:
        cls.add('unknown-material')
    if bogus and leaf.startswith('corr') and leaf != 'corr_coeff':
        cls.add('unknown-correlation')
    if fault in PF_FAULTS and PF_FAULTS[fault]:
        cls.add(PF_FAULTS[fault])
    return cls


def named_classes(c, text):
    cls = geometry_classes(text)
    cls |= fault_classes(c['tkey'], c['fault'])
    if c.get('fault2'):
        cls |= fault_classes(c['tkey2'], c['fault2'])
    return sorted(cls)


# ======================================================================
# monitors on the real code (observation only)
class MeshStall(Exception):
    pass


class _Errors(logging.Handler):
    def __init__(self):
        logging.Handler.__init__(self, level=logging.ERROR)
        self.n = 0
        self.last = None

    def emit(self, record):
        self.n += 1
        try:
            self.last = record.getMessage()[:200]
        except Exception:
            self.last = str(record.msg)[:200]


_MON = {'installed': False, 'calc': 0, 'dz_calls': 0, 'last_z': None,
        'handler': None}


def _install():
    if _MON['installed']:
        return
    import resource
    try:
        resource.setrlimit(resource.RLIMIT_AS, (MEM_LIMIT, MEM_LIMIT))
    except (ValueError, OSError):
        pass
    from dassh import reactor as RX, assembly as AM, core as CM
    chk = RX.Reactor._check_dz
    calc = AM.Assembly.calculate
    gapc = CM.Core.calculate_gap_temperatures

    def check_dz(self, z):
        _MON['dz_calls'] += 1
        if _MON['dz_calls'] == 1:
            if self.req_dz <= 0:
                raise MeshStall('required axial step is %r: the mesh loop in '
                                '_setup_zpts cannot advance' % float(self.req_dz))
            if self.core_length / self.req_dz > MAX_MESH:
                raise MeshStall('axial mesh of %.3g steps (step %r, length %r)'
                                % (self.core_length / self.req_dz,
                                   float(self.req_dz), float(self.core_length)))
        elif not z > _MON['last_z']:
            raise MeshStall('mesh loop in _setup_zpts does not advance: z=%r '
                            'twice (step %r)' % (float(z), float(self.req_dz)))
        _MON['last_z'] = z
        return chk(self, z)

    def calculate(self, *a, **k):
        _MON['calc'] += 1
        return calc(self, *a, **k)

    def gap_calculate(self, *a, **k):
        _MON['calc'] += 1
        return gapc(self, *a, **k)

    _MON['orig'] = (chk, calc, gapc)
    RX.Reactor._check_dz = check_dz
    AM.Assembly.calculate = calculate
    CM.Core.calculate_gap_temperatures = gap_calculate
    h = _Errors()
    lg = logging.getLogger('dassh')
    lg.addHandler(h)
    lg.propagate = False
    _MON['handler'] = h
    _MON['installed'] = True


def _uninstall():
    """undo _install() in this process (parts that build several Reactors per case by themselves)"""
    if not _MON['installed']:
        return
    from dassh import reactor as RX, assembly as AM, core as CM
    RX.Reactor._check_dz, AM.Assembly.calculate, CM.Core.calculate_gap_temperatures = _MON['orig']
    lg = logging.getLogger('dassh')
    if _MON['handler'] is not None:
        lg.removeHandler(_MON['handler'])
    _MON['installed'] = False


def run_asmtables(c):
    _uninstall()
    from . import reports as _rep
    return _rep.run_asmtables_C18(c)


def _temps(r):
    out = []
    for a in r.assemblies:
        for reg in a.region:
            for k in sorted(reg.temp):
                out.append(np.array(reg.temp[k], dtype=float).ravel())
            if getattr(reg, 'pin_temps', None) is not None:
                out.append(np.array(reg.pin_temps, dtype=float)[:, 3:].ravel())
    out.append(np.array(r.core.coolant_gap_temp, dtype=float).ravel())
    return out


def _final_values(r):
    vals = list(_temps(r))
    for a in r.assemblies:
        vals.append(np.array([a.avg_coolant_temp], dtype=float))
        vals.append(np.array(a.avg_duct_mw_temp, dtype=float).ravel())
        vals.append(np.array([a._peak['cool'][0]], dtype=float))
    return vals


def execute(text, files, prior=None):
    """run the real pipeline on an input; -> dict(cls, kind, site, phase, ...)"""
    import dassh
    import tempfile
    import shutil
    _install()
    _MON['calc'] = 0
    _MON['dz_calls'] = 0
    _MON['last_z'] = None
    h = _MON['handler']
    h.n, h.last = 0, None
    res = {'cls': None, 'kind': None, 'site': None, 'phase': 'input',
           'steps': 0, 'planes': 0, 'capped': False, 'msg': None, 'objs': 0}
    wd = tempfile.mkdtemp(prefix='c18_', dir=os.environ.get('VERIF_TMP'))
    logging.disable(logging.NOTSET)
    r = None
    snap = None
    try:
        p = os.path.join(wd, 'input.txt')
        if prior is not None:
            # a good input of the same file names first: parsed and built, then overwritten
            for k, v in prior[1].items():
                with open(os.path.join(wd, k), 'w') as f:
                    f.write(v)
            with open(p, 'w') as f:
                f.write(prior[0])
            try:
                dassh.Reactor(dassh.DASSH_Input(p), write_output=False)
            except BaseException:
                pass
            _MON['dz_calls'] = 0
            _MON['last_z'] = None
            h.n, h.last = 0, None
            time.sleep(0.02)      # a later modification time for the files written next
        for k, v in files.items():
            with open(os.path.join(wd, k), 'w') as f:
                f.write(v)
        with open(p, 'w') as f:
            f.write(text)
        try:
            inp = dassh.DASSH_Input(p)
            res['objs'] += 1
            res['phase'] = 'reactor'
            r = dassh.Reactor(inp, write_output=True)
            res['objs'] += 1
            res['planes'] = int(len(r.z))
            # further time points: their models are set up before anything is swept (each time point's
            # power file is read and checked when its Reactor is built)
            for t in range(1, int(getattr(inp, 'timepoints', 1) or 1)):
                res['phase'] = 'reactor'
                _MON['dz_calls'] = 0
                _MON['last_z'] = None
                dassh.Reactor(inp, timestep=t, write_output=False)
                res['objs'] += 1
            snap = [x.copy() for x in _temps(r)]
            res['phase'] = 'sweep'
            n = len(r.z) - 1
            if n <= CAP_STEPS:
                r.temperature_sweep()
                res['steps'] = n
            else:
                res['capped'] = True
                r._data_setup()
                r._data_open()
                r.axial_step0()
                for i in range(1, CAP_SWEEP + 1):
                    r.axial_step(r.z[i], r.dz[i - 1], i)
                    res['steps'] = i
                try:
                    r._data_close()
                except (AttributeError, KeyError):
                    pass
            bad = [v for v in _final_values(r) if not np.all(np.isfinite(v))]
            if bad:
                res.update(cls='unexpected', kind='nan-result',
                           site='nan@sweep',
                           msg='%d of the temperature arrays hold NaN/inf after '
                               'the sweep' % len(bad))
            else:
                if not res['capped']:
                    res['phase'] = 'postprocess'
                    r.postprocess()
                res['phase'] = 'done'
                res['cls'] = 'accepted'
        except SystemExit:
            changed = False
            if snap is not None:
                now = _temps(r)
                changed = any(a.shape != b.shape or not np.array_equal(a, b, equal_nan=True)
                              for a, b in zip(snap, now))
            res['msg'] = h.last
            if _MON['calc'] > 0 or changed:
                # dassh's own error exit, but after temperatures were computed
                res.update(cls='late-exit', kind='late-exit',
                           site='SystemExit@' + res['phase'])
            elif h.n == 0:
                res.update(cls='unexpected', kind='silent-exit',
                           site='SystemExit@' + res['phase'])
            else:
                res['cls'] = 'rejected'
        except MeshStall as e:
            res.update(cls='unexpected', kind='hang',
                       site='Hang@reactor.py:_setup_zpts', msg=str(e))
        except Hang:
            res.update(cls='unexpected', kind='hang',
                       site='Hang@' + res['phase'],
                       msg='alarm budget exceeded in phase ' + res['phase'])
        except (KeyboardInterrupt, GeneratorExit):
            raise
        except BaseException as e:
            res.update(cls='unexpected', kind='unexpected-' + type(e).__name__,
                       site=site_of(e),
                       msg='%s: %s' % (type(e).__name__, str(e)[:200]))
        res['calc_calls'] = _MON['calc']
        res['errors_logged'] = h.n
        if res['msg']:
            res['msg'] = re.sub(r'0x[0-9a-f]{6,}', '0x..',
                                res['msg'].replace(wd, '<wd>'))
        if r is not None:
            try:
                r._data_close()
            except Exception:
                pass
    finally:
        logging.disable(logging.CRITICAL)
        shutil.rmtree(wd, ignore_errors=True)
    return res


# ======================================================================
def _muts(c):
    m = [(c['key'], c['fault'])]
    if c.get('fault2'):
        m.append((c['key2'], c['fault2']))
    return m


def run_case(c):
    r = new_result()
    m = mutate(c['base'], _muts(c))
    if m is None:
        r['outcome'] = 'not-applicable'
        r['violations'].append(violation(
            'harness-fault-not-applicable', c, 'fault cannot be applied to the base input'))
        return r
    text, files = m
    named = named_classes(c, text)
    res = execute(text, files, prior=base_text(c['base']) if c.get('prior') else None)
    r['states'] = res['objs'] + res['steps']
    r['transitions'] = res['steps']
    r['traces'] = 1
    r['nontrivial'] = True
    r['key'] = c['base'] + ':' + _digest(text, files)
    fam = c.get('ffam') or family(c['fault'])
    if res['cls'] == 'rejected':
        out = 'rejected@' + res['phase']
    elif res['cls'] == 'accepted':
        out = 'accepted-capped' if res['capped'] else 'accepted'
    elif res['cls'] == 'late-exit':
        out = 'late-exit@' + res['phase']
    else:
        out = 'unexpected:' + res['kind']
    r['outcome'] = out
    r['info'] = {'outcome': out, 'named': named, 'msg': res['msg'],
                 'steps': res['steps'], 'planes': res['planes'],
                 'calc_calls': res.get('calc_calls'),
                 'errors_logged': res.get('errors_logged')}
    ex = {'outcome_by_fault_family': {fam + '|' + res['cls']: 1},
          'outcome_by_base': {c['base'] + '|' + res['cls']: 1}}
    if named:
        ex['named_class_outcome'] = {k + '|' + res['cls']: 1 for k in named}
    else:
        ex['unnamed_outcome'] = {res['cls']: 1}
    r['extra'] = ex
    desc = '%s %s <- %s' % (c['base'], c['key'], c['fault'])
    if c.get('fault2'):
        desc += ' and %s <- %s' % (c['key2'], c['fault2'])
    if c['fault'] == 'none' and res['cls'] != 'accepted':
        r['violations'].append(violation(
            'base-not-accepted', c, 'base input %s is not accepted: %s %s'
            % (c['base'], out, res['msg']), out, 'accepted', None, res['site']))
    elif res['cls'] == 'unexpected':
        r['violations'].append(violation(
            res['kind'], c, '%s: %s in phase %s (%s)'
            % (desc, res['kind'], res['phase'], res['msg']),
            out, 'rejected' if named else 'rejected or accepted', None,
            res['site']))
    elif res['cls'] == 'late-exit' and named:
        # error exit, but only after temperatures had been computed
        r['violations'].append(violation(
            'late-exit-invalid', c, '%s: input is in the named invalid class(es) %s; '
            'the error exit came in phase %s after %d temperature calculations (%s)'
            % (desc, ', '.join(named), res['phase'], res.get('calc_calls', 0), res['msg']),
            out, 'rejected before any temperature is computed', None,
            'class:' + '+'.join(named)))
    elif res['cls'] == 'accepted' and named:
        r['violations'].append(violation(
            'accepted-invalid', c, '%s: input is in the named invalid class(es) %s '
            'but was set up and swept (%d steps)' % (desc, ', '.join(named), res['steps']),
            out, 'rejected', None, 'class:' + '+'.join(named)))
    return r


# ----------------------------------------------------------------------
# second clause on inputs that are valid by construction
def valid_cases(tier):
    out = []
    pds = [(1.2, 'tight')] if tier == 'quick' else [(1.08, 'mid'), (1.2, 'tight'), (1.35, 'loose')]
    for rings in (2, 3, 4):
        for ducts in (1, 2):
            for wire in (True, False):
                for gap in ('none', 'no_flow', 'duct_average', 'flow'):
                    for pd, clr in pds:
                        out.append({'valid': 'bundle', 'rings': rings, 'ducts': ducts,
                                    'wire': wire, 'gap': gap, 'pd': pd, 'clr': clr,
                                    'lowfi': 'no'})
    for model in ('simple', '6node'):
        for gap in ('none', 'no_flow', 'duct_average', 'flow'):
            for cf in ('calculate', 0.5):
                out.append({'valid': 'lowfi', 'rings': 3, 'ducts': 1, 'wire': True,
                            'gap': gap, 'pd': 1.2, 'clr': 'tight', 'lowfi': model,
                            'cf': cf})
    return out


def valid_scenario(c):
    lowfi = None if c['lowfi'] == 'no' else {'model': c['lowfi'],
                                              'convection_factor': c['cf']}
    d = S.design(c['rings'], pd=c['pd'], ducts=c['ducts'], wire=c['wire'],
                 clearance=c['clr'], oftf=0.06, lowfi=lowfi)
    pw = {'rings': c['rings'], 'nduct': c['ducts'], 'cells': [0.0, 0.1, 0.2],
          'q': 5000.0, 'pins': 'tilt', 'duct': 'uniform', 'cool': 'uniform',
          'axial': ['up', 'down']}
    return S.single(d, 0.35 * S.n_pins(c['rings']) ** 0.9, length=0.2, power=pw,
                    gap_model=c['gap'],
                    bypass_fraction=0.05 if c['gap'] == 'flow' else 0.0)


def run_valid(c):
    r = new_result()
    with S.Built(valid_scenario(c)) as b:
        with open(os.path.join(b.dir, 'power_0.csv')) as f:
            files = {'power_0.csv': f.read()}
        text = b.text
    res = execute(text, files)
    r['states'] = res['objs'] + res['steps']
    r['transitions'] = res['steps']
    r['traces'] = 1
    r['nontrivial'] = True
    out = {'accepted': 'accepted-capped' if res['capped'] else 'accepted',
           'rejected': 'rejected@' + res['phase'],
           'late-exit': 'late-exit@' + res['phase']}.get(
               res['cls'], 'unexpected:%s' % res['kind'])
    r['outcome'] = out
    r['info'] = {'outcome': out, 'msg': res['msg'], 'steps': res['steps'],
                 'planes': res['planes']}
    if res['cls'] != 'accepted':
        r['violations'].append(violation(
            'valid-not-accepted' if res['cls'] != 'unexpected' else res['kind'], c,
            'valid generated input %s: %s in phase %s (%s)'
            % (c, out, res['phase'], res['msg']), out, 'accepted', None,
            res['site'] or ('SystemExit@' + res['phase'])))
    return r


# ----------------------------------------------------------------------
# part `regions`: every stack of one or two un-rodded axial regions over a grid of boundaries
RGRID = (0.0, 0.1, 0.2, 0.24, 0.3, 0.4)      # core length 0.4 m


def region_cases(tier):
    ivs = [(a, b) for a in RGRID for b in RGRID]        # inverted and zero-height intervals included
    out = [{'regions': 'stack', 'r1': list(i), 'r2': None} for i in ivs]
    for i in ivs:
        for j in ivs:
            if i < j or (i == j and tier != 'quick'):
                out.append({'regions': 'stack', 'r1': list(i), 'r2': list(j)})
    return out


def region_class(c):
    """'valid' | invalid class | 'no-bundle' (un-rodded regions fill the core: no statement demands either
    acceptance or refusal, only no unhandled exception)"""
    regs = [tuple(c['r1'])] + ([tuple(c['r2'])] if c['r2'] else [])
    if any(hi <= lo for lo, hi in regs):
        return 'inverted-axial-region'
    if len(regs) == 2 and min(regs[0][1], regs[1][1]) - max(regs[0][0], regs[1][0]) > 0:
        return 'overlapping-axial-regions'
    regs.sort()
    free = []
    z = 0.0
    for lo, hi in regs:
        if lo > z:
            free.append((z, lo))
        z = hi
    if z < 0.4:
        free.append((z, 0.4))
    if len(free) == 0:
        return 'no-bundle'
    if len(free) > 1:
        return 'two-bundles'
    return 'valid'


def run_regions(c):
    r = new_result()
    regs = {'ra': {'z_lo': c['r1'][0], 'z_hi': c['r1'][1], 'vf_coolant': 0.3}}
    if c['r2']:
        regs['rb'] = {'z_lo': c['r2'][0], 'z_hi': c['r2'][1], 'vf_coolant': 0.35}
    d = S.design(2, oftf=0.06, regions=regs)
    scn = S.single(d, 0.5, length=0.4, power={'rings': 2, 'nduct': 1, 'cells': [0.0, 0.2, 0.4], 'q': 3000.0,
                                               'pins': 'tilt', 'axial': ['up', 'down']})
    with S.Built(scn) as b:
        with open(os.path.join(b.dir, 'power_0.csv')) as f:
            files = {'power_0.csv': f.read()}
        text = b.text
    res = execute(text, files)
    cls = region_class(c)
    r['states'] = res['objs'] + res['steps']
    r['transitions'] = res['steps']
    r['traces'] = 1
    r['nontrivial'] = True
    out = {'accepted': 'accepted', 'rejected': 'rejected@' + res['phase'],
           'late-exit': 'late-exit@' + res['phase']}.get(res['cls'], 'unexpected:%s' % res['kind'])
    r['outcome'] = cls + ':' + out.split('@')[0]
    sc = dict(c, rclass=cls)
    if res['cls'] == 'unexpected':
        r['violations'].append(violation(res['kind'], sc, 'axial regions %s %s (%s): %s in phase %s (%s)'
                                         % (c['r1'], c['r2'], cls, out, res['phase'], res['msg']), out,
                                         'rejected or accepted', None, res['site']))
    elif cls == 'valid' and res['cls'] != 'accepted':
        r['violations'].append(violation('valid-not-accepted', sc, 'valid axial regions %s %s: %s (%s)'
                                         % (c['r1'], c['r2'], out, res['msg']), out, 'accepted', None,
                                         res['site'] or ('SystemExit@' + res['phase'])))
    elif cls in ('inverted-axial-region', 'overlapping-axial-regions', 'two-bundles') and res['cls'] != 'rejected':
        r['violations'].append(violation('accepted-invalid' if res['cls'] == 'accepted' else 'late-exit-invalid', sc,
                                         'axial regions %s %s are %s but the input was %s'
                                         % (c['r1'], c['r2'], cls, out), out, 'rejected', None, 'class:' + cls))
    return r


CLASSES = ['pins-do-not-fit', 'wire-thicker-than-gap', 'clad-thicker-than-radius',
           'nonpositive-dimension', 'duct-not-smaller-than-pitch',
           'unequal-outer-ducts', 'overlapping-axial-regions',
           'inverted-axial-region', 'missing-boundary-condition',
           'unknown-material', 'unknown-correlation', 'malformed-power',
           'negative-power']


def main(run):
    run.rule = ('three generated base inputs x every key / section / assignment line of '
                'their text x every fault of the menu of its template type, plus the '
                'user-power CSV menu (thorough: plus all pairs of geometry faults on two '
                'different geometry keys); mutants whose text equals the base or an '
                'earlier mutant are dropped at enumeration; every template key that is '
                'ABSENT from a section of the base text (or from an absent fixed-name '
                'optional sub-section such as Setup/Dump, Assembly/*/SpacerGrid) is '
                'inserted there with every value of a valid menu derived from its '
                'template spec (`ins:`: options, booleans, typical / bound values, one '
                'valid list, known material / correlation / unit names) and with an '
                'invalid menu (`ins!:`); a case is non-trivial when '

                'the real DASSH_Input was called on a text that differs from the base; '
                'part `valid`: every tuple of the stated design grid (rings, ducts, wire, '
                'gap model, P/D, low-fidelity model) as a single-assembly input')
    run.assumptions = [
        'membership of a named invalid class is decided by the harness from the mutated '
        'text with the plain definitions of the statement (bundle flat-to-flat '
        'sqrt3 (n-1) P + D + 2 Dw) and only when all operands are finite numbers',
        'keys of the template that need binary ARC files ([Power][[ARC]]), [Orificing] '
        'and [Plot] start another run mode and are not covered; absent user-named '
        'sections (AxialRegion, Hotspot, AssemblyTables, Materials entries) are not created; '
        'Materials/*/from_file is not inserted (needs a property file)',
        'sweeps of meshes longer than %d steps are cut after %d steps (no postprocess); '
        'a mesh of more than %g steps or a mesh loop that does not advance is a HANG'
        % (CAP_STEPS, CAP_SWEEP, MAX_MESH)]
    cs = cases(run.tier)
    run.check_determinism(run_case, cs[0])
    # CPU seconds per case (the slowest legitimate case - flow rates read as lb/hr: a few thousand steps - needs 20-40 s)
    budget = 150 if run.tier == 'quick' else 200
    results = run.explore('faults', cs, run_case, budget_s=budget, chunksize=4)
    if run.tier == 'thorough':
        cs2 = double_cases(cs, results)
        results = results + run.explore('double-faults', cs2, run_case,
                                        budget_s=budget, chunksize=8)
        cs = cs + cs2
    run.explore('valid', valid_cases(run.tier), run_valid, budget_s=budget)
    run.explore('regions', region_cases(run.tier), run_regions, budget_s=budget, chunksize=8)
    # accepted AssemblyTables requests (every table type, heights on / between planes / at the ends, assemblies
    # after a vacancy, three unit systems) are written without an unhandled exception (vf/props/reports.py)
    from . import reports as _rep
    run.explore('report-asmtables', _rep.cases_asmtables(run.tier), run_asmtables, budget_s=300)
    # vacuity: every outcome class and every named class must have occurred
    seen = {}
    for r in results:
        for k, v in (r['extra'].get('named_class_outcome') or {}).items():
            seen[k.split('|')[0]] = seen.get(k.split('|')[0], 0) + v
    outs = {str(r['outcome']).split('@')[0].split(':')[0] for r in results}
    for need in ('rejected', 'accepted'):
        if need not in outs:
            run.violations.append(dict(violation(
                'vacuous-alphabet', {'missing_outcome': need},
                'no case had the outcome ' + need), part='faults'))
    for k in CLASSES:
        if not seen.get(k):
            run.violations.append(dict(violation(
                'vacuous-alphabet', {'missing_class': k},
                'no enumerated input is a member of the named class ' + k),
                part='faults'))
    run.notes['named_class_members'] = seen
    run.notes['cases_per_base'] = {b: sum(1 for c in cs if c['base'] == b)
                                   for b in sorted(BASES)}


def replay(body):
    if str((body.get('scenario') or {}).get('probe', '')).startswith('report-'):
        from . import reports
        return reports.replay(body)
    c = body['scenario']
    if 'valid' in c or 'regions' in c:
        c = {k: v for k, v in c.items() if k != 'rclass'}
        r = guarded(run_regions if 'regions' in c else run_valid, c, 600)
        for v in r['violations']:
            print('VIOLATION property=C18 replay=(inline) kind=%s site=%s %s'
                  % (v['kind'], v.get('site'), v['what']))
        print('outcome', r['outcome'], r.get('info'))
        return 1 if r['violations'] else 0
    r = guarded(run_case, c, 600)
    m = mutate(c['base'], _muts(c)) if 'base' in c else None
    if m:
        base, _ = base_text(c['base'])
        bl = base.split('\n')
        for ln in m[0].split('\n'):
            if ln not in bl:
                print('  mutated line: ' + ln.strip())
    for v in r['violations']:
        print('VIOLATION property=C18 replay=(inline) kind=%s site=%s %s'
              % (v['kind'], v.get('site'), v['what']))
    print('outcome', r['outcome'], r.get('info'))
    return 1 if r['violations'] else 0
