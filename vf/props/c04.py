"""C04  The selected axial step keeps the explicit march positive.

Oracle: linear probing of each object's real public update at the step DASSH
selects (DESIGN.md C04).  Everything an update *receives* (its previous-level
coolant state and the temperatures handed in from outside) is an independent
input; everything it solves internally (duct walls) is eliminated by the real
code itself.  For frozen properties every update is affine in its inputs, so
  A[:, j] = U(x0 + e_j) - U(x0)
recovers the weights exactly; they must be >= -1e-12 and every row must sum to
1 +- 1e-10.  Probed objects: RoddedRegion.calculate, SingleNodeHomogeneous /
MultiNodeHomogeneous.calculate, Core.calculate_gap_temperatures (flow, no_flow,
duct_average).  Probed steps: the step the reactor selected, and for every
assembly / the gap the step a reactor containing only that member would select
(its own floored limit, capped at 1 cm) - that is where the criterion is sharp.
End-to-end on the same scenarios: zero power keeps every temperature at the
inlet value; non-negative power never goes below inlet.
"""
import numpy as np

from ..run import new_result, violation, site_of
from .. import scenario as S
from .. import observe as O
from . import c01

WTOL = 1e-12      # negative-weight tolerance (weights are O(1))
STOL = 1e-10      # row-sum tolerance
TTOL = 1e-9       # K, end-to-end


def cases(tier):
    out = []
    fam = ['CTD', 'CTD', 'CTD']
    if tier == 'quick':
        grid = []
        for d in ('d2', 'd3', 'b3', 'd4'):
            for du in ('1', '2f', '2s', '2w'):
                for re in ('vlow', 'lam', 'trans', 'turb'):
                    for wall in ('none', 'flow'):
                        if d == 'd4' and (du not in ('1', '2f') or re in ('vlow',)):
                            continue
                        grid.append(dict(design=d, ducts=du, re=re, wall=wall))
        for g in grid:
            out.append(dict(g, fam=list(c01.FAMS_BARE[0] if g['design'] == 'b3' else fam),
                            structure='bundle', core=1))
        base = dict(design='d3', ducts='1', re='lam', wall='flow', fam=fam, structure='bundle', core=1)
        for wall in ('no_flow', 'duct_average'):
            for core in (1, 7):
                out.append(dict(base, wall=wall, core=core))
        for gf in (0.001, 0.01, 0.2):
            for core in (1, 7):
                for d in ('d2', 'd3'):
                    out.append(dict(base, design=d, gapfrac=gf, core=core, re='trans'))
        # several assemblies of one type with different flows, limited by an assembly (not the gap)
        for d in ('d2', 'd3'):
            for re in ('lam', 'trans', 'turb'):
                for wall, gf in (('none', None), ('flow', 0.6)):
                    out.append(dict(base, design=d, core=7, re=re, wall=wall, gapfrac=gf))
        for du in ('3', '3r'):
            for re in ('lam', 'turb'):
                out.append(dict(base, ducts=du, re=re, wall='none'))
        for sf in ('CT', 1.3):
            for re in ('vlow', 'lam', 'turb'):
                out.append(dict(base, sf=sf, re=re, wall='none'))
        # user step request (below / above the limit) written in several length units
        for unit in (None, 'cm', 'in'):
            for req in (0.5, 2.5):
                for re in ('lam', 'turb'):
                    out.append(dict(base, unit=unit, req=req, re=re, wall='none'))
        # dumps at an interval of 1.3 / 2.3 / 3.4 steps
        for di in (1.3, 2.3, 3.4):
            for re in ('vlow', 'lam', 'turb'):
                for unit in ((None, 'cm') if re == 'lam' else (None,)):
                    out.append(dict(base, dumpint=di, re=re, wall='none', unit=unit))
        # a request just above a sub-millimetre limit (an absolute margin would let it through)
        for req in (1.05, 1.3):
            for re in ('vlow', 'lam'):
                out.append(dict(base, req=req, re=re, wall='none'))
        # a power-cell boundary a few per cent of a step past a regular plane
        for re in ('lam', 'trans'):
            out.append(dict(base, re=re, wall='none', bnd='just-past'))
            out.append(dict(base, re=re, wall='none', bnd='just-past-far'))
        for d in ('d2', 'd3'):
            for re in ('lam', 'turb'):
                out.append(dict(base, design=d, core=7, re=re, wall='none', eqT=True, power='asym'))
                out.append(dict(base, design=d, core=7, re=re, wall='none', ducts='2f'))
                out.append(dict(base, design=d, core=7, re=re, wall='no_flow', ducts='2w'))
                for wall in ('none', 'flow'):
                    out.append(dict(base, design=d, core=7, re=re, wall=wall, flows='spread', power='asym'))
                    out.append(dict(base, design=d, core=7, re=re, wall=wall, flows='spread', power='asym', ducts='2f'))
            for wall in ('none', 'flow'):
                out.append(dict(base, design=d, core=7, re='vlow', wall=wall, flows='near', power='asym'))
        for ca in (True,):
            for du in ('1', '2f'):
                for re in ('vlow', 'lam'):
                    for wall in ('none', 'flow'):
                        out.append(dict(base, ducts=du, re=re, wall=wall, conv_approx=True))
        for st in ('multi', 'lf-simple', 'lf-6node'):
            for cf in (1.0, 0.5, 0.1, 'calculate'):
                for re in ('vlow', 'lam', 'turb'):
                    for wall in ('none', 'flow'):
                        if cf == 'calculate' and st == 'multi':
                            continue
                        out.append(dict(base, structure=st, cf=cf, re=re, wall=wall))
        for f in c01.FAMS_WIRE[1:]:
            out.append(dict(base, fam=list(f), re='trans'))
        for cool in ('sodium',):
            for du in ('1', '2f'):
                for wall in ('none', 'flow'):
                    out.append(dict(base, ducts=du, wall=wall, coolant=cool, re='lam', dT=250.0))
        for cool in ('sodium', 'lead', 'lbe', 'nak'):
            for ps in (None, 10.0):
                for wall in ('none', 'flow'):
                    out.append(dict(base, wall=wall, coolant=cool, re='lam', dT=200.0, pscale=ps))
        # tabulated coolants read between table rows that the inlet / outlet do not hit (inlet 573.15 K, 100 K rise)
        for cool in ('potassium', 'sodium', 'lead'):
            for wall in ('none', 'flow'):
                out.append(dict(base, wall=wall, coolant=cool, re='lam', dT=100.0, inlet=573.15))
        # correlation-update tolerance on (constant and tabulated coolant)
        for cool in (None, 'sodium'):
            for du in ('1', '2f'):
                for re in ('lam', 'turb'):
                    out.append(dict(base, ducts=du, wall='none', re=re, tol=0.05, coolant=cool, dT=150.0))
        # cores without pin bundles: gap corner cells between three assemblies limit the gap step
        for st in ('lf-simple', 'lf-6node'):
            for gf in (0.01, 0.05):
                out.append(dict(base, structure=st, core=7, wall='flow', gapfrac=gf, re='trans'))
    else:
        for d in ('d2', 'd3', 'd4', 'b3', 'd5'):
            fams = c01.FAMS_BARE if d == 'b3' else c01.FAMS_WIRE
            for du in ('1', '2f', '2s', '2w', '3', '3r'):
                for f in fams:
                    for re in ('vlow', 'lam', 'trans', 'turb'):
                        for wall in ('none', 'flow', 'no_flow', 'duct_average'):
                            for ca in (False, True):
                                if ca and re not in ('vlow', 'lam'):
                                    continue
                                if d == 'd5' and (f != fams[0] or du not in ('1', '2f')):
                                    continue
                                if f != fams[0] and (ca or wall in ('no_flow', 'duct_average')):
                                    continue
                                out.append(dict(design=d, ducts=du, re=re, wall=wall, fam=list(f),
                                                structure='bundle', core=1, conv_approx=ca))
        base = dict(design='d3', ducts='1', re='lam', wall='flow', fam=fam, structure='bundle', core=1)
        for wall in ('flow', 'no_flow', 'duct_average'):
            for core in (1, 7):
                for gf in (0.001, 0.01, 0.05, 0.2):
                    for d in ('d2', 'd3', 'd4'):
                        for re in ('lam', 'trans', 'turb'):
                            out.append(dict(base, design=d, wall=wall, gapfrac=gf, core=core, re=re))
        for st in ('multi', 'lf-simple', 'lf-6node'):
            for cf in (1.0, 0.5, 0.3, 0.1, 'calculate'):
                for re in ('vlow', 'lam', 'trans', 'turb'):
                    for wall in ('none', 'flow', 'no_flow'):
                        for ca in (False, True):
                            for d in ('d2', 'd3'):
                                if cf == 'calculate' and st == 'multi':
                                    continue
                                out.append(dict(base, design=d, structure=st, cf=cf, re=re, wall=wall,
                                                conv_approx=ca))
        for d in ('d2', 'd3', 'b3'):
            for du in ('1', '2f', '2s'):
                for wall in ('none', 'flow'):
                    for re in ('lam', 'turb'):
                        for tol in (0.0, 0.01):
                            f = c01.FAMS_BARE[0] if d == 'b3' else fam
                            out.append(dict(base, design=d, ducts=du, wall=wall, coolant='sodium',
                                            re=re, dT=250.0, fam=list(f), tol=tol))
    if tier == 'thorough':
        for unit in (None, 'cm', 'mm', 'in', 'ft'):
            for req in (0.3, 0.9, 1.1, 2.5, 30.0):
                for re in ('vlow', 'lam', 'trans', 'turb'):
                    for wall in ('none', 'flow'):
                        for du in ('1', '2f'):
                            out.append(dict(base, unit=unit, req=req, re=re, wall=wall, ducts=du))
        for d in ('d2', 'd3', 'b3'):
            for sf in ('CT', 1.3, 0.7):
                for du in ('1', '2f'):
                    for re in ('vlow', 'lam', 'trans', 'turb'):
                        for wall in ('none', 'flow'):
                            f = c01.FAMS_BARE[0] if d == 'b3' else fam
                            out.append(dict(base, design=d, ducts=du, re=re, wall=wall, sf=sf, fam=list(f)))
        for cool in ('sodium', 'lead', 'lbe', 'nak', 'bismuth'):
            for ps in (None, 10.0, 0.2):
                for wall in ('none', 'flow'):
                    for re in ('lam', 'trans', 'turb'):
                        for du in ('1', '2f'):
                            out.append(dict(base, ducts=du, wall=wall, coolant=cool, re=re, dT=200.0, pscale=ps))
        for cool in (None, 'sodium', 'lead'):
            for du in ('1', '2f', '3'):
                for re in ('lam', 'trans', 'turb'):
                    for tol in (0.01, 0.05, 0.2):
                        for wall in ('none', 'flow'):
                            out.append(dict(base, ducts=du, wall=wall, re=re, tol=tol, coolant=cool, dT=150.0))
        for st in ('lf-simple', 'lf-6node'):
            for gf in (0.002, 0.01, 0.05, 0.2):
                for re in ('lam', 'trans', 'turb'):
                    for cf in (1.0, 0.3):
                        out.append(dict(base, structure=st, core=7, wall='flow', gapfrac=gf, re=re, cf=cf))
    for c in out:
        c.setdefault('power', 'asym')
        c['L'] = 0.012
    return out


# heat capacity near 720 K of the tabulated coolants (dassh.Material look-up, only used to size the power)
CP_COOL = {'lead': 145.9, 'lbe': 142.0, 'nak': 887.0, 'bismuth': 137.0, 'potassium': 768.0}


def build(c, power):
    c2 = dict(c, power=power)
    if c['ducts'] == '2w':
        c2['ducts'] = '2f'
    scn = c01.build_scn(c2)
    if c['ducts'] == '2w':      # wide-open bypass: bypass cells get most of the flow
        scn['types']['A']['bypass_gap_flow_fraction'] = 0.5
    if c.get('cf') == 'calculate':
        scn['types']['A']['convection_factor'] = 'calculate'
    cool = c.get('coolant')
    if cool in CP_COOL:
        # c01.build_scn sizes the power for sodium (cp = 1272 J/kg/K): same temperature rise for this coolant
        for spec in scn['power']['asm'].values():
            spec['q'] *= CP_COOL[cool] / 1272.0
    if c.get('pscale'):
        # the same physical power, written as 1/pscale of it times power_scaling_factor = pscale
        for spec in scn['power']['asm'].values():
            spec['q'] /= c['pscale']
        scn['power']['scaling'] = c['pscale']
    if c.get('req_m') is not None:
        scn['setup']['axial_mesh_size'] = float(c['req_m'])     # metres here; converted below with the rest
    if c.get('dump_m') is not None:
        scn['setup']['Dump'] = {'coolant': True, 'interval': float(c['dump_m'])}
    if c.get('cell_at') is not None:
        for spec in scn['power']['asm'].values():
            spec['cells'] = [0.0, float(c['cell_at']), spec['cells'][-1]]
    if c.get('inlet') is not None:
        scn['core']['inlet'] = float(c['inlet'])
    if c.get('core', 1) == 7:
        a0 = scn['assign'][0]
        flow = a0[3]['flowrate']
        # same type, different flows; the lowest flow is not in the first position
        fac = (0.8, 0.35, 0.9, 0.6, 1.2, 0.5)
        if c.get('flows') == 'spread':
            # a thirty-fold spread; the lowest flows follow the highest ones and the last assembly has the highest
            fac = (4.0, 0.125, 2.0, 0.25, 1.0, 4.0)
        if c.get('flows') == 'near':
            # flows of a few grams per second that agree to the gram (15.4 ... 14.6 g/s), the largest first
            flow = 0.0154
            fac = tuple(x / 0.0154 for x in (0.0152, 0.0146, 0.0151, 0.0148, 0.0153, 0.0150))
        scn['assign'] = [['A', 1, 1, {'flowrate': flow}]] + \
            [['A', 2, p, {'flowrate': round(flow * f, 9)}] for p, f in zip(range(1, 7), fac)]
        spec = scn['power']['asm']['1']
        scn['power']['asm'] = {str(i + 1): dict(spec, seed=i) for i in range(7)}
        if c.get('eqT'):
            # power proportional to flow: every assembly of the type has the same estimated outlet temperature
            for i, f in enumerate((1.0,) + fac):
                scn['power']['asm'][str(i + 1)]['q'] = spec['q'] * f
    if c.get('unit'):
        from . import c17
        scn = c17.convert_scenario(scn, c['unit'], 'kelvin', 'kg/s')
    return scn


# ----------------------------------------------------------------------
class Pin(object):
    """freeze Material objects at a probing temperature (tabulated coolant)"""

    def __init__(self, mats, T):
        self.mats = []
        seen = set()
        for m in mats:
            if m is None or id(m) in seen:
                continue
            seen.add(id(m))
            m.update(T)
            m.__dict__['update'] = (lambda T_, m_=m: None)
            self.mats.append(m)

    def release(self):
        for m in self.mats:
            m.__dict__.pop('update', None)


def affine_weights(U, x0, n_out):
    y0 = U(x0)
    A = np.zeros((n_out, len(x0)))
    for j in range(len(x0)):
        x = x0.copy()
        x[j] += 1.0
        A[:, j] = U(x) - y0
    return y0, A


def probe_region(reg, dz, adiabatic, T0, h_gap, Tp=None):
    """returns (y0, A, labels) for one real region update"""
    nc = reg.temp['coolant_int'].size
    nb = reg.temp['coolant_byp'].size if 'coolant_byp' in reg.temp else 0
    nd = reg.temp['duct_mw'].shape[1]
    ng = nd
    tp = T0 if Tp is None else Tp
    # constant-property coolant (Tp None): the region is probed in the state the Reactor's set-up left it
    # in (correlated parameters of its own flow at the inlet temperature) - what the first step of the march
    # uses; refreshing them here would hide parameters that belong to another assembly
    if reg.is_rodded:
        if Tp is not None:
            reg._update_coolant_int_params(tp, use_mat_tracker=False) if _has_kw(reg) else \
                reg._update_coolant_int_params(tp)
            if reg.n_bypass > 0:
                reg._update_coolant_byp_params([tp] * reg.n_bypass)
                reg._update_coolant(tp)
        q = {'pins': None, 'cool': None, 'duct': None, 'refl': None}
    else:
        if Tp is not None:
            reg._update_coolant_params(tp)
        q = {'refl': 0.0}
    hg = np.array(h_gap, dtype=float)
    pin = Pin([reg.coolant, reg.duct], tp)
    # pinned duct: evaluate at T0-ish (constant duct material in all scenarios)
    try:
        def U(x):
            reg.temp['coolant_int'][:] = x[:nc]
            if nb:
                reg.temp['coolant_byp'][:] = x[nc:nc + nb].reshape(reg.temp['coolant_byp'].shape)
            tg = x[nc + nb:].copy()
            reg.temp['duct_mw'][:] = T0
            reg.temp['duct_surf'][:] = T0
            if not reg.is_rodded and reg.model == '6node':
                # the six-node model advances the coolant before its wall:
                # make the stale wall state consistent with the inputs first
                reg._calc_duct_temp(tg, hg, adiabatic)
            reg.calculate(dz, dict(q), tg, hg.copy(), adiabatic, False)
            out = [reg.temp['coolant_int'].copy()]
            if nb:
                out.append(reg.temp['coolant_byp'].ravel().copy())
            return np.concatenate(out)
        x0 = np.ones(nc + nb + ng) * T0
        y0, A = affine_weights(U, x0, nc + nb)
    finally:
        pin.release()
    return y0, A, (nc, nb, ng)


def probe_operator(reg, dz, T0, Tp=None):
    """(y0, A, dims) for the explicit coolant update operators of a pin bundle on their own
    (_calc_coolant_int_temp, _calc_coolant_byp_temp): the previous-level duct-wall temperatures are independent
    inputs here, not eliminated through the quasi-steady wall solution as in probe_region.  Inputs: interior coolant,
    bypass coolant, one temperature per wall cell of every duct (written to both surfaces and the mid-wall)."""
    nc = reg.temp['coolant_int'].size
    nb = reg.temp['coolant_byp'].size if reg.n_bypass > 0 else 0
    nd_, ndc = reg.temp['duct_mw'].shape
    tp = T0 if Tp is None else Tp
    if Tp is not None:
        reg._update_coolant_int_params(tp, use_mat_tracker=False) if _has_kw(reg) else \
            reg._update_coolant_int_params(tp)
        if reg.n_bypass > 0:
            reg._update_coolant_byp_params([tp] * reg.n_bypass)
            reg._update_coolant(tp)
    flowing = reg.n_bypass > 0 and float(np.sum(reg.byp_flow_rate)) > 0
    pin = Pin([reg.coolant, reg.duct], tp)
    try:
        def U(x):
            reg.temp['coolant_int'][:] = x[:nc]
            if nb:
                reg.temp['coolant_byp'][:] = x[nc:nc + nb].reshape(reg.temp['coolant_byp'].shape)
            w = x[nc + nb:].reshape(nd_, ndc)
            reg.temp['duct_mw'][:] = w
            reg.temp['duct_surf'][:, 0, :] = w
            reg.temp['duct_surf'][:, 1, :] = w
            out = [reg.temp['coolant_int'] + reg._calc_coolant_int_temp(dz, None, None)]
            if nb:
                step = reg._calc_coolant_byp_temp(dz) if flowing else reg._calc_coolant_byp_temp_stagnant(dz)
                out.append((reg.temp['coolant_byp'] + step).ravel())
            return np.concatenate([np.asarray(o, dtype=float).ravel() for o in out])
        x0 = np.ones(nc + nb + nd_ * ndc) * T0
        y0, A = affine_weights(U, x0, nc + nb)
    finally:
        pin.release()
    return y0, A, (nc, nb, nd_ * ndc)


def _has_kw(reg):
    return True


def probe_gap(core, dz, T0, Tp=None):
    n = core.n_sc
    shape = core._asm_sc_adj.shape
    tp = T0 if Tp is None else Tp
    core._update_coolant_gap_params(tp)
    pin = Pin([core.gap_coolant], tp)
    try:
        def U(x):
            core.coolant_gap_temp = x[:n].copy()
            td = x[n:].reshape(shape).copy()
            core.calculate_gap_temperatures(dz, td)
            return np.array(core.coolant_gap_temp, dtype=float, copy=True)
        x0 = np.ones(n + shape[0] * shape[1]) * T0
        y0, A = affine_weights(U, x0, n)
    finally:
        pin.release()
    pad = (core._asm_sc_adj.ravel() == 0)
    return y0, A, n, pad


def judge(c, V, what, y0, A, T0, extra=None):
    """weights >= 0, rows sum to one, uniform state reproduced"""
    info = {}
    if not np.all(np.isfinite(A)) or not np.all(np.isfinite(y0)):
        V.append(violation('probe-non-finite', dict(c, probe=what), 'non-finite operator entries in ' + what))
        return info
    dev = float(np.max(np.abs(y0 - T0)))
    if dev > TTOL:
        V.append(violation('uniform-not-preserved', dict(c, probe=what),
                           '%s: uniform temperature field not reproduced without power' % what,
                           dev, 0.0, TTOL))
    wmin = float(np.min(A))
    i, j = np.unravel_index(int(np.argmin(A)), A.shape)
    info['wmin'] = wmin
    info['self_min'] = float(np.min(np.diag(A[:, :A.shape[0]])))
    if wmin < -WTOL:
        V.append(violation('negative-weight', dict(c, probe=what),
                           '%s: new temperature %d takes weight %.4g from input %d (%s)'
                           % (what, i, wmin, j, 'itself' if i == j else 'other'),
                           wmin, '>= 0', WTOL))
    rs = A.sum(axis=1)
    k = int(np.argmax(np.abs(rs - 1.0)))
    if abs(rs[k] - 1.0) > STOL:
        V.append(violation('weights-not-summing-to-one', dict(c, probe=what),
                           '%s: weights of new temperature %d sum to %.12g' % (what, k, rs[k]),
                           float(rs[k]), 1.0, STOL))
    return info


def floor6(x):
    return float(np.floor(x * 1e6) / 1e6)


def run_case(c):
    r = new_result()
    V = r['violations']
    extra = {'limiter_selected': {}, 'limiter_own': {}, 'probes': 0}
    if c.get('req') is not None:
        # user step request as a multiple of the limit DASSH reports for the same input without request
        # (written in the length unit of the input): above the limit it must be ignored, below it honoured
        with S.Built(build(dict(c, req=None), 'zero')) as b0:
            try:
                lim = float(b0.reactor().req_dz)
            except SystemExit as e:
                r['outcome'] = 'rejected-at-setup'
                r['info'] = {'site': site_of(e)}
                return r
        c = dict(c, req_m=float('%.3g' % (c['req'] * lim)))
    if c.get('dumpint') is not None:
        # csv dumps at an interval of a few steps (reporting only: the step stays within the limit)
        with S.Built(build(dict(c, dumpint=None), 'zero')) as b0:
            try:
                lim = float(b0.reactor().req_dz)
            except SystemExit as e:
                r['outcome'] = 'rejected-at-setup'
                r['info'] = {'site': site_of(e)}
                return r
        c = dict(c, dump_m=float('%.4g' % (c['dumpint'] * lim)))
    if c.get('bnd') == 'just-past':
        with S.Built(build(dict(c, bnd=None), 'zero')) as b0:
            try:
                lim = float(b0.reactor().req_dz)
            except SystemExit as e:
                r['outcome'] = 'rejected-at-setup'
                r['info'] = {'site': site_of(e)}
                return r
        k = max(1, int(0.5 * c['L'] / lim))
        c = dict(c, cell_at=round(k * lim + 0.03 * lim, 12))
    if c.get('bnd') == 'just-past-far':
        # the same on a 1 m core: a power-cell boundary 2 um above a regular plane at about 0.6 m (round-off of
        # that height is 1e-16 m; 2 um is a real distance)
        with S.Built(build(dict(c, bnd=None), 'zero')) as b0:
            try:
                lim = float(b0.reactor().req_dz)
            except SystemExit as e:
                r['outcome'] = 'rejected-at-setup'
                r['info'] = {'site': site_of(e)}
                return r
        k = max(1, int(0.6 / lim))
        c = dict(c, L=1.0, cell_at=round(k * lim + 2.0e-6, 12))
    # temperature-dependent coolant: DASSH selects the step for the inlet..outlet range of the REAL power
    scn = build(c, c.get('power', 'asym') if c.get('coolant') else 'zero')
    with S.Built(scn) as b:
        try:
            rx = b.reactor()
        except SystemExit as e:
            # a step requirement below 1e-6 m is refused by DASSH with an error
            r['outcome'] = 'rejected-at-setup'
            r['info'] = {'site': site_of(e)}
            return r
        T0 = float(rx.inlet_temp)
        dz_sel = float(rx.req_dz)
        # the march never takes a step longer than the selected one (steps are only ever shortened to land
        # on a boundary; planes are rounded to 1e-12 m)
        if float(np.max(rx.dz)) > dz_sel + 2.1e-12:
            V.append(violation('mesh-step-exceeds-selected', c, 'an axial step of the mesh is longer than the step '
                               'DASSH selected', float(np.max(rx.dz)), dz_sel, 2.1e-12, site='reactor.py:_check_dz'))
        mins = [float(x) for x in rx.min_dz['dz']]
        codes = [str(x) for x in rx.min_dz['sc']]
        k = int(np.argmin(mins))
        extra['limiter_selected'][codes[k].split('-')[0] if codes[k] != 'X-XXX' else 'X'] = 1
        adi = bool(rx._is_adiabatic)
        temps = [None]
        temps_gap = [None]
        if c.get('coolant'):
            # the harness's own range: the power is sized for a mixed-mean rise of c['dT'] (pins alone; duct and
            # coolant heating add to it), so inlet .. inlet + 0.95 dT lies inside the real range
            rise = 0.95 * float(c.get('dT', 120.0))
            temps = [T0, T0 + 0.5 * rise, T0 + rise]
            # the gap: up to the core-average outlet (power over assembly + gap flow), the range DASSH
            # evaluates the gap limit over
            rg = rise * (1.0 - float(scn['core'].get('bypass_fraction') or 0.0))
            temps_gap = [T0, T0 + 0.5 * rg, T0 + rg]
        info = {'dz_sel': dz_sel, 'limiters': codes, 'self_min': {}}
        for ai, a in enumerate(rx.assemblies):
            if ai > 0 and c.get('core', 1) == 7 and ai not in (2, 4):
                continue        # clones differ only by flow: probe the centre, the lowest-flow one and one more
            own = min(0.01, floor6(mins[ai]))
            # every region also at the limit it reports for itself (the step
            # selected when that region is the limiting one of the problem)
            from dassh import region_rodded as _rr, region_unrodded as _ur
            reg_own = []
            for reg in a.region:
                fn = _rr.calculate_min_dz if reg.is_rodded else _ur.calculate_min_dz
                reg_own.append(min(0.01, floor6(float(fn(reg, T0, float(a._estimated_T_out), adi)[0]))))
            for dz, tag in ((dz_sel, 'selected'), (own, 'own'), (None, 'region-own')):
                if tag == 'own' and abs(own - dz_sel) < 1e-15:
                    continue
                for ri, reg in enumerate(a.region):
                    if tag == 'region-own':
                        dz = reg_own[ri]
                        if abs(dz - own) < 1e-15 or abs(dz - dz_sel) < 1e-15:
                            continue
                    if not dz > 0:
                        continue
                    for Tp in temps:
                        if rx.core.model is None:
                            hg = np.ones(reg.temp['duct_mw'].shape[1])
                        else:
                            rx.core._update_coolant_gap_params(T0 if Tp is None else Tp)
                            from dassh import mesh_functions
                            hg = mesh_functions.map_across_gap(
                                rx.core.adjacent_coolant_gap_htc(ai), reg._map['gap2duct'])
                        what = 'asm%d.region%d(%s)@%s' % (ai, ri, 'rodded' if reg.is_rodded else reg.model, tag)
                        y0, A, dims = probe_region(reg, dz, adi, T0, hg, Tp)
                        inf = judge(dict(c, probe_dz=tag), V, what, y0, A, T0)
                        extra['probes'] += 1
                        r['states'] += 1
                        r['transitions'] += A.shape[1] + 1
                        if 'self_min' in inf:
                            key = '%s|%s' % (codes[ai] if tag == 'own' else ('sel' if tag == 'selected' else 'reg'),
                                             what.split('(')[1].split(')')[0])
                            info['self_min'][key] = min(info['self_min'].get(key, 9.9), inf['self_min'])
                        if reg.is_rodded and not adi:
                            # the update operators on their own: the wall temperatures of the previous level as
                            # independent inputs.  Only with a non-adiabatic outer wall - DASSH leaves the term of
                            # an adiabatic wall out of the limit on purpose (that wall follows its coolant)
                            y0, A, dims = probe_operator(reg, dz, T0, Tp)
                            inf = judge(dict(c, probe_dz=tag, level='operator'), V, what + '.operator', y0, A, T0)
                            extra['probes'] += 1
                            r['states'] += 1
                            r['transitions'] += A.shape[1] + 1
                            if 'self_min' in inf:
                                info['self_min'][key + '|op'] = min(info['self_min'].get(key + '|op', 9.9),
                                                                    inf['self_min'])
            code = codes[ai]
            extra['limiter_own'][code.split('-')[0] + ('-byp' if code[0] in '67' else '')] = 1
        if rx.core.model is not None:
            gi = len(rx.assemblies)
            own = min(0.01, floor6(mins[gi])) if len(mins) > gi else dz_sel
            for dz, tag in ((dz_sel, 'selected'), (own, 'own')):
                if tag == 'own' and (abs(own - dz_sel) < 1e-15 or rx.core.model != 'flow'):
                    continue
                for Tp in temps_gap:
                    y0, A, n, pad = probe_gap(rx.core, dz, T0, Tp)
                    what = 'gap(%s)@%s' % (rx.core.model, tag)
                    inf = judge(dict(c, probe_dz=tag), V, what, y0, A, T0)
                    extra['probes'] += 1
                    r['states'] += 1
                    r['transitions'] += A.shape[1] + 1
                    if np.any(A[:, n:][:, pad] != 0.0):
                        V.append(violation('padding-has-weight', dict(c, probe=what),
                                           'gap update reads padded duct entries'))
                    if 'self_min' in inf:
                        info['self_min']['X|' + tag] = inf['self_min']
            extra['limiter_own']['X'] = 1
    # ---------------- end to end ---------------------------------------
    for pw in ('zero', c.get('power', 'asym')):
        scn = build(c, pw)
        with S.Built(scn) as b:
            rx = b.reactor()
            T0 = float(rx.inlet_temp)
            lo, hi = [T0], [T0]

            def after(i):
                for a in rx.assemblies:
                    reg = a.active_region
                    for kx in ('coolant_int', 'coolant_byp', 'duct_mw'):
                        if kx in reg.temp:
                            lo[0] = min(lo[0], float(np.min(reg.temp[kx])))
                            hi[0] = max(hi[0], float(np.max(reg.temp[kx])))
                if rx.core.model is not None:
                    lo[0] = min(lo[0], float(np.min(rx.core.coolant_gap_temp)))
                    hi[0] = max(hi[0], float(np.max(rx.core.coolant_gap_temp)))
            O.sweep(rx, None, after_step=after, max_steps=300)
            n = min(len(rx.z) - 1, 300)
            r['states'] += n
            r['transitions'] += n
            if not (np.isfinite(lo[0]) and np.isfinite(hi[0])):
                V.append(violation('sweep-non-finite', dict(c, sweep_power=pw), 'non-finite temperature in sweep'))
            elif lo[0] < T0 - TTOL:
                V.append(violation('below-inlet', dict(c, sweep_power=pw),
                                   'temperature dropped below the inlet value with non-negative power',
                                   lo[0] - T0, '>= 0', TTOL))
            elif pw == 'zero' and hi[0] > T0 + TTOL:
                V.append(violation('zero-power-drift', dict(c, sweep_power=pw),
                                   'temperatures left the inlet value without power', hi[0] - T0, 0.0, TTOL))
    r['traces'] = 2
    r['nontrivial'] = True
    r['outcome'] = 'ok' if not V else 'violation'
    r['extra'] = extra
    r['info'] = info
    return r


def main(run):
    run.rule = ('full product of the stated alphabet (design x ducts/bypass flow x Reynolds level x wall/gap model '
                'x gap flow fraction x core size x low-flow approximation x axial structure x convection factor '
                'x coolant); every region of the probed assemblies and the gap are probed at the selected step and '
                'at their own floored limit, the whole region update (walls eliminated through their quasi-steady '
                'solution) and - with a non-adiabatic outer wall - the coolant update operators on their own (wall '
                'temperatures of the previous level as independent inputs); non-trivial = at least one operator probed')
    run.assumptions = ['updates are affine for frozen material properties (Material.update pinned during a probe)',
                       'duct material has constant conductivity in all scenarios',
                       'operator-level probe only where DASSH keeps the wall term in the limit (non-adiabatic outer '
                       'wall); behind an adiabatic wall the term is left out on purpose and only the whole region '
                       'update is judged']
    cs = cases(run.tier)
    run.check_determinism(run_case, cs[0])
    res = run.explore('probe', cs, run_case, budget_s=600)
    need = {'1': 'interior', '3': 'corner', '6-byp': 'bypass edge', '7-byp': 'bypass corner',
            '0': 'low-fidelity', 'X': 'inter-assembly gap'}
    have = run.extra.get('limiter_own', {})
    for k, name in need.items():
        if not have.get(k):
            run.violations.append(dict(violation('vacuous-alphabet', {'limiter': k},
                                                 'no scenario is limited by a %s cell' % name), part='probe'))
    worst = {}
    for x in res:
        for k, v in ((x.get('info') or {}).get('self_min') or {}).items():
            worst[k.split('|')[0]] = min(worst.get(k.split('|')[0], 9.9), v)
    run.notes['smallest_self_weight_by_limiter'] = worst


def replay(body):
    from ..run import guarded
    c = {k: v for k, v in body['scenario'].items() if k not in ('probe', 'probe_dz', 'sweep_power')}
    r = guarded(run_case, c, 900)
    for v in r['violations']:
        print('VIOLATION property=C04 replay=(inline) kind=%s %s observed=%s' % (v['kind'], v['what'], v.get('observed')))
    print('outcome', r['outcome'], r.get('info'))
    return 1 if r['violations'] else 0
