"""C10  Duct-to-gap mesh mapping is positive, exact on constants, conservative.

Code under test: `dassh.mesh_functions._map_asm2gap` / `map_across_gap`, fed
with boundary lists produced by the real `calculate_xbnds` of real region
objects (RoddedRegion, SingleNodeHomogeneous, MultiNodeHomogeneous) and by the
real `Core.load` -> `_collect_sc_geom_params` / `_calculate_gap_xbnds`
(-> `Core._asm_sc_xbnds`), and the maps `Reactor._setup_gap_mesh_params`
stores in `reg._map`.

Shapes (studied in `_map_asm2gap`)
----------------------------------
xb_reg  : nd + 2 entries, 0 = centre of the top corner duct cell, then the
          cell boundaries walking once round the outer duct, last = perimeter.
          => nd + 1 intervals; the first and the last interval are the two
          halves of ONE cell (the top corner), which is duct cell nd-1.
          Duct cell j < nd-1 is [xb_reg[j+1], xb_reg[j+2]].
xb_core : row of `Core._asm_sc_xbnds`: the ng real boundaries followed by zero
          padding up to `fine_dim` = widest assembly row.  `_map_asm2gap`
          rebuilds g = [0, real boundaries..., xb_reg[-1]]; gap cell k < ng-1 is
          [g[k+1], g[k+2]], gap cell ng-1 is the top corner [g[ng], P] u [0, g[1]].
returns : M_f2c ('gap2duct')  shape (nd, fine_dim),  duct = M_f2c . gap
          M_c2f ('duct2gap')  shape (fine_dim, nd),  gap  = M_c2f . duct
          columns / rows >= ng are padding and must be zero.

Oracles (with O[c,f] = |duct cell c  n  gap cell f| on the circle, L_c, L_f the
cell lengths; all from the same boundary lists, exactly, in fractions.Fraction)
---------------------------------------------------------------------------
 positive      every entry >= 0 (no tolerance; the code only forms min() of
               non-negative differences).
 constants     every row of M_f2c and every real row of M_c2f sums to 1.
 conservative  a field q on the duct mesh carries the heat  sum_c L_c q_c
               (flux x wetted length per unit height).  Mapped to the gap mesh,
               q'_f = sum_c M_c2f[f,c] q_c carries sum_f L_f q'_f
               = sum_c (sum_f L_f M_c2f[f,c]) q_c.  Equal for EVERY q  <=>
                     L_f . M_c2f = L_c      (row vector times matrix)
               and in the other direction (gap field mapped onto the duct)
                     L_c . M_f2c = L_f .
               Checked per cell, relative to the target cell length.
 identity      if the meshes coincide (same number of cells, boundaries equal
               to walking round-off) both maps are the (padded) identity.
 reference     M_f2c[c,f] = O[c,f]/L_c[c],  M_c2f[f,c] = O[c,f]/L_f[f]  -- the
               unique overlap map that fulfils the three statements above for
               piecewise-constant fields.

Parts: pair (single mesh against single mesh), near (same cell count, pin pitch
differing by 1e-9..1e-3 relative: probes the np.allclose identity shortcut),
mixed (7-position cores, 64 neighbour patterns), reactor (maps stored by
Reactor._setup_gap_mesh_params).  Besides the map oracles every gap boundary
list is compared side by side with the duct boundaries of the own / neighbour
region (`check_gap_alignment`): the two lists handed to `_map_asm2gap` must
describe the same perimeter from the same origin.

Two root causes in `_map_asm2gap` have a recognisable signature and are
reported under their own kind (see `check_maps`):
  allclose-identity-shortcut            identity used although the meshes differ
  topcorner-halves-unweighted-<dir>     split top corner with unequal halves
                                        combined as plain mean (`[-1] *= 0.5`)

Tolerance 1e-12 (relative): every entry is a quotient of a (sum of <= 4)
correctly rounded differences, error <= ~8 eps = 1e-15; row sums / integrals add
<= 90 non-negative terms -> <= 90 eps = 1e-14.  1e-12 leaves two decades.  In
the identity shortcut the exact overlap map of the two (round-off different)
boundary lists differs from the identity by <= 2 d / L_min (d = largest
boundary mismatch), so there the reference tolerance is max(1e-12, 4 d / L_min).
"""
import hashlib
from fractions import Fraction

import numpy as np

from ..run import new_result, violation, site_of, guarded
from .. import scenario as S

TOL = 1e-12
SITE_MAP = 'mesh_functions.py:_map_asm2gap'
OFTF_A = 0.15          # outer flat-to-flat for the generated meshes (fits 15 rings)
FAMS = ('regular', 'compressed', 'stretched')
# pitch families for the generated meshes (S.design arguments):
#   regular    P/D 1.20, wire, pins fill the duct
#   compressed P/D 1.08, wire, loose edge clearance, double duct: small pin
#              pitch => long corner cells (2 wc = h - (n-1) P)
#   stretched  P/D 1.35, bare pins, bundle touches the wall: largest pitch,
#              shortest corner cells
FAM_ARGS = {'regular': dict(pd=1.20, wire=True, clearance='tight', ducts=1),
            'compressed': dict(pd=1.08, wire=True, clearance='loose', ducts=2),
            'stretched': dict(pd=1.35, wire=False, clearance='tight', ducts=1)}
# (n1, n2) for the per-side mixed patterns; centre assembly has n1 rings
MIXED = [(1, 4), (2, 3), (3, 8), (6, 6), (5, 15)]
# quick: one family pair each, chosen so that the neighbour's corner half is
# longer than the centre's in three of them (2/3, 6/6, 5/15), just shorter in
# 3/8 (8.67 mm vs 8.82 mm) and the centre is unrodded in 1/4
MIXED_FAMS_QUICK = [('regular', 'compressed'), ('stretched', 'compressed'),
                    ('stretched', 'compressed'), ('regular', 'compressed'),
                    ('stretched', 'compressed')]
NEAR_RINGS = (2, 3, 6, 10, 15)
NEAR_REL = (1e-9, 1e-7, 1e-6, 1e-5, 1e-4, 1e-3)


# ----------------------------------------------------------------------
# real objects
_CACHE = {}


def _materials():
    import dassh
    if 'mat' not in _CACHE:
        _CACHE['mat'] = (dassh.Material('sodium_se2anl_425'),
                         dassh.Material('ht9_se2anl_425'))
    return _CACHE['mat']


def _region(n, fam, shrink=0.0):
    """real region object with n rings (n == 1: real unrodded region, 6 corner
    cells) of pitch family `fam`; `shrink` scales the pin pitch by (1-shrink)."""
    import dassh
    from dassh.region_unrodded import SingleNodeHomogeneous, MultiNodeHomogeneous
    key = (n, fam, shrink)
    if key in _CACHE:
        return _CACHE[key]
    cool, duct = _materials()
    if n == 1:
        dftf = [OFTF_A - 0.005, OFTF_A]
        if fam == 'compressed':
            reg = MultiNodeHomogeneous('u6', 0.0, 1.0, dftf, 0.3, 1.0, cool, duct, None)
        elif fam == 'stretched':   # double duct: outermost pair must be picked
            reg = SingleNodeHomogeneous('u1', 0.0, 1.0,
                                        [OFTF_A - 0.016, OFTF_A - 0.011] + dftf,
                                        0.3, 1.0, cool, duct, None)
        else:
            reg = SingleNodeHomogeneous('u1', 0.0, 1.0, dftf, 0.3, 1.0, cool, duct, None)
    else:
        dsn = S.design(n, oftf=OFTF_A, **FAM_ARGS[fam])
        P = dsn['pin_pitch'] * (1.0 - shrink)
        reg = dassh.RoddedRegion('c10', n, P, dsn['pin_diameter'],
                                 dsn['wire_pitch'], dsn['wire_diameter'],
                                 dsn['clad_thickness'], dsn['duct_ftf'], 1.0 * n,
                                 cool, duct, None, 'CTD', 'CTD', 'CTD', 'DB',
                                 None, None, 0.05, None, 'clockwise', 1.0, False)
    _CACHE[key] = reg
    return reg


class _Asm(object):
    """the four attributes of dassh.Assembly that Core.load reads"""

    def __init__(self, reg):
        self.reg = reg
        self.has_rodded = bool(getattr(reg, 'is_rodded', False))
        self.rodded = reg if self.has_rodded else None
        self.duct_oftf = OFTF_A


def _core(regs):
    """real Core, really loaded (Core.load) with one stub assembly per region:
    `_asm_sc_xbnds` is what Reactor hands to `_map_asm2gap`."""
    from dassh.core import Core
    cool, _ = _materials()
    core = Core(np.arange(float(len(regs))), OFTF_A + 0.004, 0.1, cool,
                inlet_temperature=623.15, model='flow')
    core.load([_Asm(r) for r in regs])
    return core


# ----------------------------------------------------------------------
# exact reference
def _segments(B):
    """cells of a boundary list [0, b1, ..., P]: cell j < n-1 = [B[j+1], B[j+2]],
    cell n-1 (top corner) = [B[n], P] u [0, B[1]]"""
    n = len(B) - 2
    segs = [[(B[j + 1], B[j + 2])] for j in range(n - 1)]
    segs.append([(B[n], B[n + 1]), (B[0], B[1])])
    return segs


def reference(xb_reg, xb_gap_real):
    """exact overlap matrix and cell lengths in Fractions (integers over one
    common power-of-two denominator)"""
    R = [Fraction(float(x)) for x in xb_reg]
    G = [Fraction(0)] + [Fraction(float(x)) for x in xb_gap_real] + [R[-1]]
    den = 1
    for x in R + G:
        den = max(den, x.denominator)          # all denominators are powers of 2
    Ri = [int(x * den) for x in R]
    Gi = [int(x * den) for x in G]
    sc, sf = _segments(Ri), _segments(Gi)
    Lc = [sum(hi - lo for lo, hi in s) for s in sc]
    Lf = [sum(hi - lo for lo, hi in s) for s in sf]
    O = [[0] * len(sf) for _ in sc]
    for c, segc in enumerate(sc):
        for f, segf in enumerate(sf):
            t = 0
            for lo1, hi1 in segc:
                for lo2, hi2 in segf:
                    d = min(hi1, hi2) - max(lo1, lo2)
                    if d > 0:
                        t += d
            O[c][f] = t
    # self-check of the reference: both meshes tile the same circle
    assert all(sum(O[c]) == Lc[c] for c in range(len(sc)))
    assert all(sum(O[c][f] for c in range(len(sc))) == Lf[f] for f in range(len(sf)))
    f2c = np.array([[float(Fraction(O[c][f], Lc[c])) for f in range(len(sf))]
                    for c in range(len(sc))])
    c2f = np.array([[float(Fraction(O[c][f], Lf[f])) for c in range(len(sc))]
                    for f in range(len(sf))])
    scale = float(den)
    return (f2c, c2f, np.array([x / scale for x in Lc]),
            np.array([x / scale for x in Lf]))


# ----------------------------------------------------------------------
def check_maps(c, tag, xb_reg, xb_gap, m_f2c, m_c2f, V, stats):
    """all oracles on one (region mesh, gap mesh, maps) triple"""
    from dassh import mesh_functions as mf

    def bad(kind, what, obs=None, exp=None, tol=None):
        V.append(violation(kind, c, '%s: %s' % (tag, what), obs, exp, tol, site=SITE_MAP))

    xb_reg = np.asarray(xb_reg, dtype=float)
    xb_gap = np.asarray(xb_gap, dtype=float)
    fine_dim = xb_gap.shape[0]
    nd = xb_reg.shape[0] - 2
    per = float(xb_reg[-1])
    ng = int(np.count_nonzero(xb_gap))
    real = xb_gap[:ng]
    # the two lists must be walks round one perimeter (presupposed by the map)
    if not (xb_reg[0] == 0.0 and np.all(np.diff(xb_reg) > 0) and nd >= 6 and nd % 6 == 0):
        bad('mesh-malformed', 'region boundaries are not an increasing walk from 0',
            xb_reg.tolist()[:8])
        return
    if not (ng >= 6 and np.all(xb_gap[ng:] == 0) and np.all(np.diff(real) > 0)
            and real[0] > 0 and real[-1] < per):
        bad('mesh-malformed', 'gap boundaries are not an increasing walk inside (0, perimeter)',
            [ng, real.tolist()[:4], real.tolist()[-2:], per])
        return
    stats['maps'] += 1
    # shapes and padding
    if m_f2c.shape != (nd, fine_dim) or m_c2f.shape != (fine_dim, nd):
        bad('shape', 'map shapes', [list(m_f2c.shape), list(m_c2f.shape)],
            [[nd, fine_dim], [fine_dim, nd]])
        return
    if np.any(m_f2c[:, ng:] != 0) or np.any(m_c2f[ng:, :] != 0):
        bad('padding', 'padding columns/rows are not zero')
    A = m_f2c[:, :ng]
    B = m_c2f[:ng, :]
    if not (np.all(np.isfinite(A)) and np.all(np.isfinite(B))):
        bad('nan', 'non-finite weights')
        return
    # positive
    lo = min(float(A.min()), float(B.min()))
    if lo < 0.0:
        bad('negative-weight', 'negative weight', lo, 0.0, 0.0)
    # constants
    e1 = float(np.max(np.abs(A.sum(axis=1) - 1.0)))
    e2 = float(np.max(np.abs(B.sum(axis=1) - 1.0)))
    stats['rowsum'] = max(stats['rowsum'], e1, e2)
    if e1 > TOL:
        bad('rowsum-gap2duct', 'gap2duct row %d does not sum to one'
            % int(np.argmax(np.abs(A.sum(axis=1) - 1.0))), e1, 0.0, TOL)
    if e2 > TOL:
        bad('rowsum-duct2gap', 'duct2gap row %d does not sum to one'
            % int(np.argmax(np.abs(B.sum(axis=1) - 1.0))), e2, 0.0, TOL)
    # exact reference from the same lists
    rf2c, rc2f, Lc, Lf = reference(xb_reg, real)
    top = lambda k, n: ' (split top corner)' if k == n - 1 else ''
    # coincident meshes -> identity
    coincide = False
    dmax = None
    if ng == nd:
        dmax = float(np.max(np.abs(xb_reg[1:-1] - real)))
        coincide = dmax <= 100 * nd * np.finfo(float).eps * per   # walking round-off
    ident = (ng == nd and np.array_equal(A, np.identity(nd))
             and np.array_equal(B, np.identity(nd)))
    rtol = TOL
    if coincide:
        stats['coincide'] += 1
        rtol = max(TOL, 4.0 * dmax / float(min(Lc.min(), Lf.min())))
        if not ident:
            bad('identity', 'coincident meshes but the maps are not the identity',
                float(np.max(np.abs(A - np.identity(nd)))), 0.0, 0.0)

    def cons(A_, B_):
        d1_ = np.dot(Lc, A_) / Lf - 1.0     # gap field carried onto the duct mesh
        d2_ = np.dot(Lf, B_) / Lc - 1.0     # duct field carried onto the gap mesh
        return d1_, d2_

    # Root causes with a recognisable signature get ONE violation of their own
    # kind (so a finding can be matched narrowly); the generic oracles below then
    # run with exactly that footprint replaced by the reference, so anything
    # else that is wrong is still reported under the generic kinds.
    A2, B2 = A, B
    caused = set()
    d1, d2 = cons(A, B)
    if ident and not coincide:
        # np.allclose(rtol=1e-5, atol=1e-8) shortcut taken although the meshes differ
        stats['shortcut'] += 1
        worst = max(float(np.max(np.abs(d1))), float(np.max(np.abs(d2))))
        if worst > TOL or max(float(np.abs(A - rf2c).max()), float(np.abs(B - rc2f).max())) > TOL:
            bad('allclose-identity-shortcut',
                'meshes with equal cell count differ by up to %.3g m (%.3g of the shortest cell) but '
                'the identity is used; heat carried by a single-cell field changes by up to this fraction'
                % (dmax, dmax / float(min(Lc.min(), Lf.min()))), worst, 0.0, TOL)
            caused.update(('f2c', 'c2f'))
            A2, B2 = rf2c, rc2f
    else:
        ha, hb = float(real[0]), float(per - real[-1])           # halves of the gap top corner
        if abs(ha - hb) > 1e-12 * per and float(np.abs(B[ng - 1] - rc2f[ng - 1]).max()) > rtol:
            j = int(np.argmax(np.abs(B[ng - 1] - rc2f[ng - 1])))
            bad('topcorner-halves-unweighted-duct2gap',
                'gap top corner has unequal halves (%.6g m, %.6g m) and its duct2gap row is the plain mean '
                'of the two half rows: weight of duct cell %d is %.12g, exact %.12g; heat of a field on one '
                'duct cell changes by up to this fraction' % (ha, hb, j, B[ng - 1, j], rc2f[ng - 1, j]),
                float(d2[int(np.argmax(np.abs(d2)))]), 0.0, TOL)
            caused.add('c2f')
            B2 = B.copy()
            B2[ng - 1] = rc2f[ng - 1]
        ha, hb = float(xb_reg[1] - xb_reg[0]), float(xb_reg[-1] - xb_reg[-2])
        if abs(ha - hb) > 1e-12 * per and float(np.abs(A[nd - 1] - rf2c[nd - 1]).max()) > rtol:
            j = int(np.argmax(np.abs(A[nd - 1] - rf2c[nd - 1])))
            bad('topcorner-halves-unweighted-gap2duct',
                'duct top corner has unequal halves (%.6g m, %.6g m) and its gap2duct row is the plain mean '
                'of the two half rows: weight of gap cell %d is %.12g, exact %.12g'
                % (ha, hb, j, A[nd - 1, j], rf2c[nd - 1, j]),
                float(d1[int(np.argmax(np.abs(d1)))]), 0.0, TOL)
            caused.add('f2c')
            A2 = A.copy()
            A2[nd - 1] = rf2c[nd - 1]
    # conservation, per target cell, relative
    d1, d2 = cons(A2, B2)
    k1, k2 = int(np.argmax(np.abs(d1))), int(np.argmax(np.abs(d2)))
    if not caused:
        stats['cons'] = max(stats['cons'], abs(float(d1[k1])), abs(float(d2[k2])))
    # (coincident case: identity vs. round-off different lengths, tolerance as derived above)
    if abs(d1[k1]) > rtol:
        bad('not-conservative-gap2duct',
            'L_c.M_f2c != L_f at gap cell %d of %d%s: the heat a unit gap-cell field '
            'carries changes by this fraction on the duct mesh' % (k1, ng, top(k1, ng)),
            float(d1[k1]), 0.0, rtol)
    if abs(d2[k2]) > rtol:
        bad('not-conservative-duct2gap',
            'L_f.M_c2f != L_c at duct cell %d of %d%s: the heat a unit duct-cell field '
            'carries changes by this fraction on the gap mesh' % (k2, nd, top(k2, nd)),
            float(d2[k2]), 0.0, rtol)
    # reference agreement
    ea = np.abs(A2 - rf2c)
    eb = np.abs(B2 - rc2f)
    if not coincide and not caused:
        stats['ref'] = max(stats['ref'], float(ea.max()), float(eb.max()))
    if ea.max() > rtol:
        i, j = np.unravel_index(int(np.argmax(ea)), ea.shape)
        bad('reference-gap2duct',
            'gap2duct[%d,%d]%s differs from the exact overlap weight' % (i, j, top(i, nd)),
            float(A2[i, j]), float(rf2c[i, j]), rtol)
    if eb.max() > rtol:
        i, j = np.unravel_index(int(np.argmax(eb)), eb.shape)
        bad('reference-duct2gap',
            'duct2gap[%d,%d]%s differs from the exact overlap weight' % (i, j, top(i, ng)),
            float(B2[i, j]), float(rc2f[i, j]), rtol)
    # the same statements through the real transfer call on real-sized vectors
    ones_f = np.zeros(fine_dim)
    ones_f[:ng] = 1.0
    u1 = mf.map_across_gap(ones_f, m_f2c)
    u2 = mf.map_across_gap(np.ones(nd), m_c2f)
    if u1.shape != (nd,) or u2.shape != (fine_dim,):
        bad('shape', 'map_across_gap output shape', [list(u1.shape), list(u2.shape)])
    else:
        eu = max(float(np.max(np.abs(u1 - 1.0))), float(np.max(np.abs(u2[:ng] - 1.0))))
        if eu > TOL or np.any(u2[ng:] != 0):
            bad('uniform-field', 'map_across_gap does not reproduce a uniform field', eu, 0.0, TOL)
        # deterministic non-uniform field: heat before == heat after (a direction
        # already attributed to a root cause above is not reported a second time;
        # every other entry of that map has been compared with the reference)
        qf = np.zeros(fine_dim)
        qf[:ng] = 2.0 + np.cos(1.0 + 2.0 * np.arange(ng))
        qc = 2.0 + np.sin(0.5 + 3.0 * np.arange(nd))
        h1 = float(np.dot(Lc, mf.map_across_gap(qf, m_f2c)) / np.dot(Lf, qf[:ng]) - 1.0)
        h2 = float(np.dot(Lf, mf.map_across_gap(qc, m_c2f)[:ng]) / np.dot(Lc, qc) - 1.0)
        if 'f2c' not in caused:
            stats['heat'] = max(stats['heat'], abs(h1))
            if abs(h1) > TOL:
                bad('heat-gap2duct', 'total heat of a non-uniform gap field changes on the duct mesh',
                    h1, 0.0, TOL)
        if 'c2f' not in caused:
            stats['heat'] = max(stats['heat'], abs(h2))
            if abs(h2) > TOL:
                bad('heat-duct2gap', 'total heat of a non-uniform duct field changes on the gap mesh',
                    h2, 0.0, TOL)
    stats['cells'] += nd * ng
    stats['classes'].add('finer' if ng > nd else ('coarser' if ng < nd else
                                                  ('coincide' if coincide else 'same-count')))
    # unequal halves of the top corner in either mesh
    if abs((xb_reg[1] - xb_reg[0]) - (xb_reg[-1] - xb_reg[-2])) > 1e-9 * per:
        stats['classes'].add('reg-top-asym')
    if abs(real[0] - (per - real[-1])) > 1e-9 * per:
        stats['classes'].add('gap-top-asym')
    # a half of the gap top corner reaches beyond the duct top corner cell
    if max(real[0] - xb_reg[1], xb_reg[-2] - real[-1]) > 1e-9 * per:
        stats['classes'].add('gap-half-exceeds-duct-corner')


def check_gap_alignment(c, tag, xb_gap, own, nbrs, V, stats):
    """Both boundary lists must describe the same perimeter from the same origin,
    otherwise an overlap map is meaningless.  Independent statement of the gap
    mesh: on hex side s the gap boundaries are those of the duct mesh of the own
    assembly or of the neighbour across that side (whichever Core chose), never
    coarser than the own.  `own` / `nbrs[s]` are the mesh-defining region
    objects (None = no neighbour)."""
    xb_gap = np.asarray(xb_gap, dtype=float)
    real = xb_gap[:int(np.count_nonzero(xb_gap))]
    xo = np.asarray(own.calculate_xbnds(), dtype=float)
    per = float(xo[-1])
    h = per / 6.0
    tol = 1e-12 * per

    def side(xb, s_):
        inner = np.asarray(xb, dtype=float)[1:-1]
        return inner[(inner > s_ * h - tol) & (inner < (s_ + 1) * h + tol)] - s_ * h

    for s_ in range(6):
        g = side(np.concatenate([[0.0], real, [per]]), s_)
        cands = [side(xo, s_)]
        if nbrs[s_] is not None:
            # a region mesh is the same on all six sides: take the neighbour's side s
            cands.append(side(nbrs[s_].calculate_xbnds(), s_))
        ok = any(len(g) == len(k) and np.max(np.abs(g - k)) <= tol for k in cands)
        if not ok or len(g) < len(cands[0]):
            V.append(violation(
                'gap-mesh-misaligned', c,
                '%s: gap boundaries on hex side %d are neither the own nor the neighbour duct '
                'boundaries of that side' % (tag, s_), g.tolist()[:6],
                [k.tolist()[:6] for k in cands], tol, site='core.py:_calculate_gap_xbnds'))
            return
    stats['aligned'] += 1


def _new_stats():
    return {'maps': 0, 'rowsum': 0.0, 'cons': 0.0, 'ref': 0.0, 'heat': 0.0,
            'coincide': 0, 'shortcut': 0, 'cells': 0, 'aligned': 0, 'classes': set()}


def _finish(r, stats, key_arrays):
    r['states'] = stats['maps']             # (mesh, mesh, map) triples checked
    r['transitions'] = stats['cells']       # matrix entries compared with the reference
    r['traces'] = stats['maps']
    r['nontrivial'] = stats['maps'] > 0
    h = hashlib.sha1()
    for a in key_arrays:
        h.update(np.ascontiguousarray(a, dtype=float).tobytes())
        h.update(b'|')
    r['key'] = h.hexdigest()
    r['extra'] = {'maps': stats['maps'], 'coincident_identity': stats['coincide'],
                  'gap_mesh_alignment_checked': stats['aligned'],
                  'allclose_shortcut_noncoincident': stats['shortcut'],
                  'class': {k: 1 for k in sorted(stats['classes'])}}
    r['info'] = {'maps': stats['maps'], 'rowsum_err': stats['rowsum'],
                 'conservation_err': stats['cons'], 'reference_err': stats['ref'],
                 'heat_err': stats['heat'], 'classes': sorted(stats['classes'])}
    if r['violations']:
        r['outcome'] = 'violation:' + r['violations'][0]['kind']
    elif stats['coincide'] == stats['maps'] and stats['maps']:
        r['outcome'] = 'ok-identity'
    else:
        r['outcome'] = 'ok'
    return r


# ----------------------------------------------------------------------
# Part A: generated mesh pairs
def run_pair(c):
    from dassh import mesh_functions as mf
    r = new_result()
    st = _new_stats()
    reg = _region(c['nr'], c['fr'])
    gapdef = _region(c['ng'], c['fg'], c.get('shrink', 0.0))
    core = _core([gapdef])
    xb_reg = reg.calculate_xbnds()
    xb_gap = core._asm_sc_xbnds[0]
    m1, m2 = mf._map_asm2gap(xb_reg, xb_gap)
    check_gap_alignment(c, 'pair', xb_gap, gapdef, [None] * 6, r['violations'], st)
    check_maps(c, 'pair', xb_reg, xb_gap, m1, m2, r['violations'], st)
    return _finish(r, st, [xb_reg, xb_gap])


def run_mixed(c):
    """7-position core: centre (n1, f1), the six neighbours (n1, f1) or (n2, f2)
    by the bits of `pattern`; every assembly's own region mesh against the gap
    mesh Core.load built for it (sides facing the finer neighbour take its
    pitch / corner length, outward sides the own)."""
    from dassh import mesh_functions as mf
    r = new_result()
    st = _new_stats()
    a = _region(c['n1'], c['f1'])
    b = _region(c['n2'], c['f2'])
    regs = [a] + [b if (c['pattern'] >> k) & 1 else a for k in range(6)]
    core = _core(regs)
    keys = []
    for i, reg in enumerate(regs):
        xb_reg = reg.calculate_xbnds()
        xb_gap = core._asm_sc_xbnds[i]
        m1, m2 = mf._map_asm2gap(xb_reg, xb_gap)
        cc = dict(c, asm=i)
        adj = [int(x) - 1 for x in core.asm_adj[i]]
        check_gap_alignment(cc, 'asm %d' % i, xb_gap, reg,
                            [regs[j] if j >= 0 else None for j in adj], r['violations'], st)
        check_maps(cc, 'asm %d' % i, xb_reg, xb_gap, m1, m2, r['violations'], st)
        keys += [xb_reg, xb_gap]
    sps = core._geom_params['sc_per_side'][0]
    st['classes'].add('centre-sides-%d' % len(set(int(x) for x in sps)))
    return _finish(r, st, keys)


# ----------------------------------------------------------------------
# Part B: maps built by Reactor._setup_gap_mesh_params
OFTF_B = 0.06


def _types():
    refl = {'lrefl': {'z_lo': 0.0, 'z_hi': 0.1, 'vf_coolant': 0.3},
            'urefl': {'z_lo': 0.3, 'z_hi': 0.4, 'vf_coolant': 0.3, 'model': '6node'}}
    def outer_first(d):
        # the flat-to-flat values of a two-duct assembly with the OUTER duct listed first (the order is free)
        f = sorted(d['duct_ftf'])
        return dict(d, duct_ftf=[f[2], f[3], f[0], f[1]])
    return {
        'M5d': outer_first(S.design(5, oftf=OFTF_B, pd=1.08, clearance='loose', ducts=2, duct_t=[0.0015, 0.003], regions=refl)),
        'U5d': outer_first(S.design(5, oftf=OFTF_B, pd=1.08, clearance='loose', ducts=2, duct_t=[0.0015, 0.003],
                                    lowfi={'model': 'simple'})),
        'R2': S.design(2, oftf=OFTF_B),
        'R3': S.design(3, oftf=OFTF_B),
        'R3c': S.design(3, oftf=OFTF_B, pd=1.08, clearance='loose'),
        'R5c': S.design(5, oftf=OFTF_B, pd=1.08, clearance='loose', ducts=2),
        'R7s': S.design(7, oftf=OFTF_B, pd=1.35, wire=False, clearance='mid'),
        'R9': S.design(9, oftf=OFTF_B),
        'U2': S.design(2, oftf=OFTF_B, lowfi={'model': 'simple'}),
        'U4n': S.design(4, oftf=OFTF_B, lowfi={'model': '6node'}),
        'M4': S.design(4, oftf=OFTF_B, pd=1.35, wire=False, clearance='mid', regions=refl),
        'M6c': S.design(6, oftf=OFTF_B, pd=1.08, clearance='loose', regions=refl),
    }


# layouts: centre + six ring-2 positions ('-' = vacancy); 19 entries = 3 rings
LAYOUTS = [
    ('R3 R5c U2 M4 - R5c R3', 'flow'),
    ('R5c R3 R3 R3 R3 R3 R3', 'no_flow'),
    ('R3 R3c R3 R3c R3 R3c R3', 'duct_average'),
    ('U2 R3 R5c - M4 U4n R3', 'flow'),
    ('M4 M6c R7s U2 R3 - R5c', 'none'),
    ('R7s U2 U2 U2 U2 U2 U2', 'flow'),
    ('U2 U2 U4n U2 U2 U4n U2', 'no_flow'),
    ('R3 R3 R3 R3 R3 R3 R3', 'flow'),
    ('R2 R9 R5c R3c - M6c R2', 'duct_average'),
    ('M6c M4 M4 M6c - U4n R9', 'flow'),
    ('M5d R3 U5d R3 - R5c R3', 'flow'),
    ('U5d M5d R3 - M5d R2 U5d', 'no_flow'),
]
LAYOUTS_THOROUGH = [
    ('R3 R5c U2 M4 - R5c R3 R9 R9 U2 - R3 R3c M6c R7s R2 - U4n R5c', 'flow'),
    ('U4n R2 R3 R3c M4 R5c M6c R7s R9 - U2 R2 R3 R3c M4 R5c M6c R7s R9', 'no_flow'),
    ('R9 - - - - - -', 'flow'),
    ('U2 - R9 - R9 - R9', 'flow'),
]


def reactor_cases(tier):
    out = []
    for lay, gm in LAYOUTS:
        out.append({'part': 'reactor', 'layout': lay, 'gap_model': gm, 'rot': 0})
    if tier == 'thorough':
        for lay, gm in LAYOUTS:
            for rot in range(1, 6):
                out.append({'part': 'reactor', 'layout': lay, 'gap_model': gm, 'rot': rot})
        for lay, gm in LAYOUTS_THOROUGH:
            out.append({'part': 'reactor', 'layout': lay, 'gap_model': gm, 'rot': 0})
    return out


def _scenario(c):
    T = _types()
    names = c['layout'].split()
    if len(names) == 7 and c['rot']:
        ring = names[1:]
        k = c['rot'] % 6
        names = [names[0]] + ring[-k:] + ring[:-k]
    nring = {1: 1, 7: 2, 19: 3}[len(names)]
    pos = S.core_positions(nring)
    assign, pw, used = [], {}, {}
    for nm, (rg, p) in zip(names, pos):
        if nm == '-':
            continue
        d = T[nm]
        used[nm] = d
        assign.append([nm, rg, p, {'flowrate': 2.0}])
        pw[str(S.asm_id(rg, p) + 1)] = {'rings': d['num_rings'],
                                        'nduct': len(d['duct_ftf']) // 2,
                                        'cells': [0.0, 0.4], 'q': 800.0, 'pins': 'uniform'}
    gm = c['gap_model']
    return {'setup': {},
            'core': {'inlet': 623.15, 'length': 0.4, 'pitch': OFTF_B + 0.004,
                     'gap_model': gm, 'coolant': 'sodium_se2anl_425',
                     'bypass_fraction': 0.05 if gm == 'flow' else 0.0},
            'types': used, 'assign': assign, 'power': {'asm': pw}}, names


def run_reactor(c):
    r = new_result()
    st = _new_stats()
    scn, names = _scenario(c)
    keys = []
    nreg = {}
    with S.Built(scn) as b:
        try:
            rx = b.reactor()
        except SystemExit as e:
            r['violations'].append(violation(
                'reactor-rejected', c, 'dassh refused a valid mixed core', site=site_of(e)))
            r['outcome'] = 'rejected'
            return r
        if len(rx.core._asm_sc_xbnds) != len(rx.assemblies):
            r['violations'].append(violation('shape', c, 'gap mesh rows != assemblies',
                                             len(rx.core._asm_sc_xbnds), len(rx.assemblies)))
        meshreg = [x.rodded if x.has_rodded else x.region[0] for x in rx.assemblies]
        for a, asm in enumerate(rx.assemblies):
            adj = [int(x) - 1 for x in rx.core.asm_adj[a]]
            check_gap_alignment(dict(c, asm=a), 'asm %d (%s)' % (a, asm.name),
                                rx.core._asm_sc_xbnds[a], meshreg[a],
                                [meshreg[j] if j >= 0 else None for j in adj],
                                r['violations'], st)
            for ri, reg in enumerate(asm.region):
                mp = getattr(reg, '_map', None)
                tag = 'asm %d (%s) region %d %s' % (a, asm.name, ri, type(reg).__name__)
                if not isinstance(mp, dict) or 'gap2duct' not in mp or 'duct2gap' not in mp:
                    r['violations'].append(violation(
                        'map-missing', dict(c, asm=a, region=ri), tag + ': region has no gap maps',
                        site='reactor.py:_setup_gap_mesh_params'))
                    continue
                xb_reg = reg.calculate_xbnds()
                xb_gap = rx.core._asm_sc_xbnds[a]
                nd = reg.temp['duct_mw'].shape[-1]
                if len(xb_reg) != nd + 2:
                    r['violations'].append(violation(
                        'shape', dict(c, asm=a, region=ri),
                        tag + ': boundary list does not match the duct cell count',
                        len(xb_reg), nd + 2))
                check_maps(dict(c, asm=a, region=ri), tag, xb_reg, xb_gap,
                           mp['gap2duct'], mp['duct2gap'], r['violations'], st)
                keys += [xb_reg, xb_gap]
                k = type(reg).__name__
                nreg[k] = nreg.get(k, 0) + 1
        # the transfer vectors the sweep really uses have these sizes
        if rx.core.model is not None:
            for a, asm in enumerate(rx.assemblies):
                nf = len(rx.core.adjacent_coolant_gap_temp(a))
                if nf != asm.active_region._map['gap2duct'].shape[1]:
                    r['violations'].append(violation(
                        'shape', dict(c, asm=a), 'gap vector length != map columns',
                        nf, asm.active_region._map['gap2duct'].shape[1]))
    _finish(r, st, keys)
    r['extra']['region_types'] = nreg
    r['extra']['vacancy'] = 1 if '-' in names else 0
    return r


# ----------------------------------------------------------------------
def pair_cases(tier):
    out = []
    for nr in range(1, 16):
        for ng in range(1, 16):
            for fr in FAMS:
                for fg in FAMS:
                    if tier == 'quick' and (ng < nr or fr != fg):
                        continue
                    # Core takes the finer of the two meshes per side, so a gap
                    # with fewer cells than the region never reaches _map_asm2gap
                    out.append({'part': 'pair', 'nr': nr, 'ng': ng, 'fr': fr, 'fg': fg,
                                'reach': 'core' if ng >= nr else 'synthetic'})
    return out


def near_cases(tier):
    """same ring count, pin pitch smaller by a relative `shrink`: Core takes the
    neighbour with the smaller pitch for the side mesh"""
    return [{'part': 'near', 'nr': n, 'ng': n, 'fr': 'compressed', 'fg': 'compressed',
             'shrink': s, 'reach': 'core'} for n in NEAR_RINGS for s in NEAR_REL]


def mixed_cases(tier):
    out = []
    for k, (n1, n2) in enumerate(MIXED):
        combos = [MIXED_FAMS_QUICK[k]] if tier == 'quick' else \
            [(f1, f2) for f1 in FAMS for f2 in FAMS]
        for f1, f2 in combos:
            if n1 == n2 and f1 == f2:
                continue
            for swap in ((False,) if tier == 'quick' else (False, True)):
                a, b = ((n1, f1), (n2, f2)) if not swap else ((n2, f2), (n1, f1))
                for pat in range(64):
                    out.append({'part': 'mixed', 'n1': a[0], 'f1': a[1], 'n2': b[0],
                                'f2': b[1], 'pattern': pat})
    return out


def run_case(c):
    if c['part'] in ('pair', 'near'):
        return run_pair(c)
    if c['part'] == 'mixed':
        return run_mixed(c)
    return run_reactor(c)


def main(run):
    run.rule = ('pair: every (region rings, gap rings, region family, gap family) of the stated grid '
                '(quick: gap >= region rings, equal families); near: same rings, pitch shrunk by each '
                'listed relative amount; mixed: every one of the 64 neighbour patterns {A,B}^6 around a '
                'centre A for each listed (A,B); reactor: every listed 7/19-position layout (thorough: all '
                '6 rotations). A case is non-trivial when at least one well-formed (region mesh, gap mesh, '
                'maps) triple was checked; distinct = distinct boundary-list content (sha1).')
    run.assumptions = [
        'reference overlap matrix computed exactly (fractions.Fraction / integers over a common '
        'power-of-two denominator) from the same boundary lists dassh uses',
        'Part A gap meshes come from the real Core.load fed with stub assemblies carrying the four '
        'attributes it reads (has_rodded, rodded=real RoddedRegion, duct_oftf) - no Assembly/Reactor',
        'conservation is meant for piecewise-constant fields weighted with the outer-duct cell lengths '
        'defined by the boundary lists',
    ]
    pc, nc, mc, rc = pair_cases(run.tier), near_cases(run.tier), mixed_cases(run.tier), \
        reactor_cases(run.tier)
    run.check_determinism(run_case, pc[len(pc) // 3])
    res = []
    # largest ring counts first inside each chunk does not matter: results stay in case order
    res += run.explore('pair', pc, run_case, budget_s=120)
    res += run.explore('near', nc, run_case, budget_s=120, chunksize=1)
    res += run.explore('mixed', mc, run_case, budget_s=120)
    rr = run.explore('reactor', rc, run_case, budget_s=300, chunksize=1)
    # the summary table of dassh.out through which a user reads this property (vf/props/reports.py)
    from . import reports
    run.explore('report-interasm', reports.cases_interasm(run.tier), reports.run_interasm, budget_s=300)
    res += rr
    for k in ('rowsum_err', 'conservation_err', 'reference_err', 'heat_err'):
        vals = [x['info'][k] for x in res if x.get('info') and not x['violations']]
        if vals:
            run.max_extra('max_' + k + '_on_green_cases', max(vals))
    # vacuity: the alphabet must have produced every mesh relation it claims
    seen = set(run.extra.get('class', {}))
    want = ['finer', 'coincide', 'same-count', 'gap-top-asym', 'gap-half-exceeds-duct-corner',
            'centre-sides-2']
    if run.tier == 'thorough':
        want.append('coarser')
    for w in want:
        if w not in seen:
            run.violations.append(dict(violation(
                'vacuous-alphabet', {'class': w}, 'mesh relation never produced: ' + w), part='all'))
    rt = run.extra.get('region_types', {})
    for w in ('RoddedRegion', 'SingleNodeHomogeneous', 'MultiNodeHomogeneous'):
        if not rt.get(w):
            run.violations.append(dict(violation(
                'vacuous-alphabet', {'class': w}, 'no reactor-built map for region type ' + w),
                part='reactor'))
    if not run.extra.get('vacancy'):
        run.violations.append(dict(violation(
            'vacuous-alphabet', {'class': 'vacancy'}, 'no reactor with a vacancy'), part='reactor'))


def replay(body):
    if str((body.get('scenario') or {}).get('probe', '')).startswith('report-'):
        from . import reports
        return reports.replay(body)
    r = guarded(run_case, body['scenario'], 600)
    for v in r['violations']:
        print('VIOLATION property=C10 replay=(inline) kind=%s %s observed=%s expected=%s'
              % (v['kind'], v['what'], v['observed'], v['expected']))
    print('outcome', r['outcome'], r.get('info'))
    return 1 if r['violations'] else 0
