"""C03  Power deposited over the sweep equals the power assigned.

For every enumerated user power file / bundle-bound placement / step size the
real Reactor is swept and, per assembly,
   sum(Assembly._power_delivered) == Assembly.total_power
                                  == exact integral of the CSV polynomials
(times normalisation and scaling), the integral being computed by the harness
in fractions.Fraction; the assembly totals must sum to requested x scaling; for
the constant-property coolant all temperature rises scale linearly with s.
"""
from fractions import Fraction as F

import numpy as np

from ..run import new_result, violation, site_of
from .. import scenario as S

TOL = 1e-9
LCORE = 0.36
CELLS = {'c1': [0.0, 0.36], 'c2': [0.0, 0.18, 0.36], 'c3': [0.0, 0.09, 0.27, 0.36],
         'c3b': [0.0, 0.12, 0.21, 0.36]}
BOUNDS = {'whole': None, 'aligned': (0.09, 0.27), 'lower-mid': (0.06, 0.27),
          'upper-mid': (0.09, 0.30), 'both-mid': (0.06, 0.30), 'lowfi': 'lowfi',
          # un-rodded end caps thinner than any axial step: each is exactly one step
          'thin-caps': (0.00002, 0.35997),
          # bounds with seven decimals in metres (what a conversion from inches gives), next to power-cell bounds
          'fine7': (0.0900004, 0.2699994)}
ORDER_SHAPES = {0: 'flat', 1: 'up', 2: 'mid', 3: 'cubic', 's': 'steep'}
COMPS = {'all': ('pins', 'duct', 'cool'), 'pins': ('pins',), 'duct': ('duct',), 'cool': ('cool',),
         'pins+duct': ('pins', 'duct'), 'pins+cool': ('pins', 'cool'), 'duct+cool': ('duct', 'cool')}
STEPS = {'limit': None, 'half': 'half', '3.7mm': 0.0037, '1mm': 0.001, '1/256': 1.0 / 256}


def integral_exact(full):
    """exact total power (W) of an expanded power spec: sum over components,
    cells, items of L_cell * int_{-1/2}^{1/2} sum_j c_j x^j dx"""
    tot = F(0)
    cells = full['cells']
    per_cell = [F(0)] * (len(cells) - 1)
    for key in ('pins', 'duct', 'cool'):
        arr = full.get(key)
        if arr is None:
            continue
        for k in range(len(cells) - 1):
            Lk = F(repr(cells[k + 1])) - F(repr(cells[k]))
            for co in arr[k]:
                s = F(0)
                for j, cj in enumerate(co):
                    if j % 2 == 0:
                        s += F(repr(float(cj))) * 2 * F(1, 2) ** (j + 1) / (j + 1)
                per_cell[k] += Lk * s
    return sum(per_cell), per_cell


def build(c):
    rings = c.get('rings', 3)
    b = BOUNDS[c['bounds']]
    regions = None
    lowfi = None
    if b == 'lowfi':
        lowfi = {'model': 'simple'}
    elif b is not None:
        regions = {'lower': {'z_lo': 0.0, 'z_hi': b[0], 'vf_coolant': 0.3},
                   'upper': {'z_lo': b[1], 'z_hi': LCORE, 'vf_coolant': 0.3, 'model': c.get('upper', 'simple')}}
    nd = c.get('ducts', 1)
    if nd == 2:
        dsn = S.design(rings, regions=regions, lowfi=lowfi, ducts=2, oftf=0.066, duct_t=[0.002, 0.003],
                       byp_t=0.002, bypass_fraction=0.1)
    else:
        dsn = S.design(rings, regions=regions, lowfi=lowfi)
    nasm = c.get('nasm', 1)
    cell_names = sorted(CELLS)
    specs = {}
    fulls = {}
    assign = []
    pos = S.core_positions(2)
    for i in range(nasm):
        # every assembly has its own axial power mesh (assembly i uses the i-th next cell set)
        cells = CELLS[cell_names[(cell_names.index(c['cells']) + i) % len(cell_names)]]
        ncell = len(cells) - 1
        comp = COMPS[c['comps']]
        amp = [1.0 + 0.37 * k + 0.11 * i for k in range(ncell)]
        if c.get('zero_cell') is not None and c['zero_cell'] < ncell:
            amp[c['zero_cell']] = 0.0
        spec = {'rings': rings, 'nduct': nd, 'cells': cells, 'q': 6000.0 * (1 + 0.2 * i),
                'axial': [ORDER_SHAPES[c['order']]] * ncell, 'amp': amp, 'order': 1 if c['order'] == 's' else c['order'],
                'seed': (c.get('seed', 0) + i) % 4}
        for k_ in ('pins', 'duct', 'cool'):
            spec[k_] = 'asym' if k_ in comp else None
        full = S.expand_power(spec, rings, nd)
        ring, p = pos[i]
        aid = S.asm_id(ring, p) + 1
        specs[str(aid)] = full
        fulls[aid - 1] = full
        if c.get('tp'):
            # several time points, one power file each (another level and another pin pattern per time point); the
            # model of time point k is held to the file of time point k
            per_tp = [S.expand_power(dict(spec, q=spec['q'] * (1.0 + 0.18 * t), seed=(spec['seed'] + t) % 4), rings, nd)
                      for t in range(c['tp'][0])]
            specs[str(aid)] = per_tp
            fulls[aid - 1] = per_tp[c['tp'][1]]
        assign.append(['A', ring, p, {'flowrate': 2.0 * (1 + 0.1 * i)}])
    setup = {}
    scn = {'setup': setup,
           'core': {'inlet': 623.15, 'length': LCORE, 'pitch': 0.070 if nd == 2 else 0.064,
                    'gap_model': c.get('gap_model', 'none'),
                    'bypass_fraction': 0.0 if c.get('gap_model', 'none') == 'none' else 0.05},
           'types': {'A': dsn}, 'assign': assign,
           'power': {'asm': specs, 'total': c.get('total'), 'scaling': c.get('scaling')}}
    if c.get('tp'):
        scn['power']['timepoints'] = c['tp'][0]
    return scn, fulls


def sweep_once(c, scale_override=None):
    scn, fulls = build(c)
    if scale_override is not None:
        scn['power']['scaling'] = scale_override
    step = STEPS[c['step']]
    if step == 'half':
        with S.Built(scn) as b0:
            step = float(b0.reactor().req_dz) / 2.0
    if step is not None:
        scn['setup']['axial_mesh_size'] = step
    with S.Built(scn) as b:
        # 'out': the model is built the way the command line does it, writing its summary (reporting only)
        kw = {'timestep': c['tp'][1]} if c.get('tp') else {}
        rx = b.reactor(write_output=True, **kw) if c.get('out') else b.reactor(**kw)
        if c.get('rebuild'):
            # the same input (and the same power file) built a second / third time in this process: what is
            # deposited by the LAST model must still be what the file assigns
            for _ in range(int(c['rebuild'])):
                rx = b.reactor()
        rx.temperature_sweep()
        out = []
        from .. import observe as O
        for a in rx.assemblies:
            reg = a.active_region
            tm, mt = O.mixed_mean(reg)
            cp = float(reg.coolant.heat_capacity)
            out.append({'id': a.id, 'delivered': {k: float(v) for k, v in a._power_delivered.items()},
                        'enthalpy_rise': (tm - float(rx.inlet_temp)) * mt * cp,
                        # round-off floor of m cp (T_out - T_in): one ulp of the temperature level per step
                        'h_floor': mt * cp * float(rx.inlet_temp) * 2.3e-16 * max(1, len(rx.z) - 1),
                        'adiabatic': bool(rx._is_adiabatic),
                        'total_power': float(a.total_power),
                        'T': np.concatenate([a.temp_coolant.ravel(), a.temp_duct_mw.ravel()]) - rx.inlet_temp,
                        'in_bundle_unaligned': None})
        info = {'steps': len(rx.z) - 1, 'dz': float(rx.req_dz), 'core_total': float(rx.total_power)}
    return out, fulls, info


def run_case(c):
    r = new_result()
    V = r['violations']
    try:
        out, fulls, info = sweep_once(c)
    except SystemExit as e:
        V.append(violation('setup-rejected', c, 'valid generated input rejected', site=site_of(e)))
        r['outcome'] = 'rejected'
        return r
    exact = {}
    tot_exact = F(0)
    for aid, full in fulls.items():
        exact[aid] = integral_exact(full)[0]
        tot_exact += exact[aid]
    norm = F(1)
    if c.get('total') is not None:
        norm = F(repr(float(c['total']))) / tot_exact if tot_exact != 0 else F(0)
    sc = F(repr(float(c['scaling']))) if c.get('scaling') is not None else F(1)
    worst = 0.0
    for o in out:
        want = float(exact[o['id']] * norm * sc)
        got = sum(o['delivered'].values())
        scale = max(abs(want), 1e-9)
        if abs(o['total_power'] - want) > TOL * scale:
            V.append(violation('assigned-power', dict(c, asm=o['id']),
                               'Assembly.total_power differs from the integral of its input profile '
                               '(after normalisation/scaling)', o['total_power'], want, TOL * scale))
        x = abs(got - want) / scale
        worst = max(worst, x)
        if x > TOL:
            V.append(violation('delivered-power', dict(c, asm=o['id']),
                               'heat deposited during the sweep differs from the power assigned '
                               '(ratio %.6f)' % (got / want if want else float('nan')),
                               got, want, TOL * scale))
        # adiabatic, constant properties: everything deposited ends up in the coolant
        if o['adiabatic'] and abs(o['enthalpy_rise'] - want) > 1e-8 * scale + o['h_floor']:
            V.append(violation('deposited-heat-not-in-coolant', dict(c, asm=o['id']),
                               'coolant enthalpy rise of the adiabatic assembly differs from the power assigned '
                               '(ratio %.6f)' % (o['enthalpy_rise'] / want if want else float('nan')),
                               o['enthalpy_rise'], want, 1e-8 * scale + o['h_floor']))
    want_core = float(tot_exact * norm * sc)
    if c.get('total') is not None:
        want_core2 = float(c['total']) * (float(c['scaling']) if c.get('scaling') is not None else 1.0)
        if abs(want_core - want_core2) > 1e-12 * max(abs(want_core2), 1e-9) and tot_exact != 0:
            raise AssertionError('harness inconsistency')
    if abs(info['core_total'] - want_core) > TOL * max(abs(want_core), 1e-9):
        V.append(violation('core-total-power', c, 'Reactor.total_power differs from requested x scaling',
                           info['core_total'], want_core, TOL * max(abs(want_core), 1e-9)))
    if abs(sum(o['total_power'] for o in out) - want_core) > TOL * max(abs(want_core), 1e-9):
        V.append(violation('core-total-power', c, 'assembly totals do not sum to the core total',
                           sum(o['total_power'] for o in out), want_core))
    r['states'] = info['steps'] * len(out) + 1
    r['transitions'] = info['steps'] * len(out)
    r['traces'] = 1
    # linearity (constant-property coolant): scale the power by s
    if c.get('linear'):
        s = c['linear']
        base_s = c.get('scaling') if c.get('scaling') is not None else 1.0
        out2, _, info2 = sweep_once(c, scale_override=base_s * s)
        r['traces'] += 1
        r['transitions'] += info2['steps'] * len(out2)
        for o, o2 in zip(out, out2):
            ref = np.max(np.abs(o['T']))
            if ref > 0:
                dev = float(np.max(np.abs(o2['T'] - s * o['T'])) / (abs(s) * ref))
                if dev > 1e-10:
                    V.append(violation('not-linear-in-power', dict(c, asm=o['id']),
                                       'temperature rises do not scale with the power scaling factor s=%g' % s,
                                       dev, 0.0, 1e-10))
    r['nontrivial'] = bool(tot_exact != 0)
    unaligned = c['bounds'] in ('lower-mid', 'upper-mid', 'both-mid') or \
        (c['bounds'] == 'aligned' and c['cells'] in ('c1', 'c2', 'c3b'))
    r['extra'] = {'bundle_bound_inside_power_cell': int(unaligned), 'zero_power_cell': int(c.get('zero_cell') is not None)}
    r['outcome'] = 'ok' if not V else 'violation'
    r['info'] = {'steps': info['steps'], 'dz': info['dz'], 'worst_rel': worst}
    return r


def cases(tier):
    out = []
    if tier == 'quick':
        for cells in CELLS:
            for bounds in BOUNDS:
                for order in (0, 1, 2, 3):
                    for comps in ('all', 'pins', 'duct+cool'):
                        for step in ('limit', '3.7mm'):
                            out.append(dict(cells=cells, bounds=bounds, order=order, comps=comps, step=step))
        base = dict(cells='c3', bounds='both-mid', order=2, comps='all', step='limit')
        for comps in COMPS:
            out.append(dict(base, comps=comps))
        # a steep profile in the cells the bundle ends in; models built with their summary written
        for bounds in ('lower-mid', 'upper-mid', 'both-mid', 'fine7'):
            for step in ('limit', '3.7mm'):
                out.append(dict(base, bounds=bounds, order='s', step=step))
        for order in (1, 2, 3):
            for bounds in ('whole', 'both-mid'):
                out.append(dict(base, bounds=bounds, order=order, out=True))
        for step in STEPS:
            for bounds in ('whole', 'both-mid'):
                out.append(dict(base, step=step, bounds=bounds))
        for total in (None, 1.0e5):
            for scaling in (None, 0.5, 1.3):
                for nasm in (1, 3):
                    for bounds in ('whole', 'both-mid'):
                        out.append(dict(base, total=total, scaling=scaling, nasm=nasm, bounds=bounds,
                                        linear=0.37 if nasm == 1 else None))
        for zc in (0, 1, 2):
            for bounds in ('whole', 'aligned', 'both-mid'):
                out.append(dict(base, zero_cell=zc, bounds=bounds))
        out.append(dict(base, upper='6node'))
        # inputs with two / three time points: every time point's model
        for ntp in (2, 3):
            for k in range(ntp):
                for scaling in (None, 0.5):
                    for nasm in (1, 3):
                        out.append(dict(base, tp=[ntp, k], scaling=scaling, nasm=nasm, bounds='whole'))
        for total in (None, 1.0e5):
            for scaling in (None, 0.5):
                out.append(dict(base, total=total, scaling=scaling, rebuild=2, bounds='whole'))
        out.append(dict(base, gap_model='flow', nasm=3))
        for bounds in BOUNDS:
            for comps in ('all', 'duct'):
                for order in (0, 2):
                    if bounds != 'lowfi':
                        out.append(dict(base, ducts=2, bounds=bounds, comps=comps, order=order))
        for nasm in (2, 3):
            for cells in CELLS:
                for step in ('limit', '3.7mm'):
                    out.append(dict(base, nasm=nasm, cells=cells, step=step, bounds='whole'))
                    out.append(dict(base, nasm=nasm, cells=cells, step=step, bounds='aligned'))
    else:
        for cells in CELLS:
            for bounds in BOUNDS:
                for order in (0, 1, 2, 3):
                    for comps in COMPS:
                        for step in STEPS:
                            for zc in (None, 0):
                                out.append(dict(cells=cells, bounds=bounds, order=order, comps=comps,
                                                step=step, zero_cell=zc))
        base = dict(cells='c3', bounds='both-mid', order=2, comps='all', step='limit')
        for total in (None, 1.0e5, 0.0):
            for scaling in (None, 0.5, 1.3, 0.0):
                for nasm in (1, 3, 7):
                    for bounds in BOUNDS:
                        for cells in CELLS:
                            for gm in ('none', 'flow'):
                                if total == 0.0 and scaling == 0.0:
                                    continue
                                out.append(dict(base, total=total, scaling=scaling, nasm=nasm, bounds=bounds,
                                                cells=cells, gap_model=gm,
                                                linear=0.37 if (nasm == 1 and gm == 'none') else None))
        for rings in (2, 4):
            for bounds in BOUNDS:
                for order in (0, 3):
                    out.append(dict(base, rings=rings, bounds=bounds, order=order))
        for ntp in (2, 3, 4):
            for k in range(ntp):
                for scaling in (None, 0.5):
                    for nasm in (1, 3):
                        for bounds in ('whole', 'both-mid'):
                            out.append(dict(base, tp=[ntp, k], scaling=scaling, nasm=nasm, bounds=bounds))
        for bounds in BOUNDS:
            for comps in COMPS:
                for order in (0, 1, 2, 3):
                    for cells in CELLS:
                        if bounds != 'lowfi':
                            out.append(dict(base, ducts=2, bounds=bounds, comps=comps, order=order, cells=cells))
    seen = set()
    uniq = []
    for c in out:
        k = tuple(sorted((a, str(b)) for a, b in c.items()))
        if k not in seen:
            seen.add(k)
            uniq.append(c)
    return uniq


# ----------------------------------------------------------------------
# binary-flux (VARPOW) branch: the two intact single-assembly data sets
def varpow_cases(tier):
    out = []
    for ds in ('single_asm_refl', 'single_asm_vac'):
        for model in ('distribute', 'pin_only'):
            for total in (None, 6.001e6):
                for scaling in (None, 0.5):
                    for step in (None, 0.2):
                        for bounds in ('as-is', 'shifted', 'whole'):
                            if tier == 'quick' and ((scaling and not total) or (step and bounds == 'whole')
                                                    or (model == 'pin_only' and bounds == 'shifted')):
                                continue
                            out.append(dict(dataset=ds, power_model=model, total=total, scaling=scaling,
                                            step_in=step, bounds=bounds))
    return out


def run_varpow(c):
    import os
    import re
    import shutil
    import tempfile
    import dassh
    from .. import REPO
    r = new_result()
    V = r['violations']
    src = os.path.join(REPO, 'tests', 'test_inputs', 'input_single_asm.txt')
    txt = open(src).read()
    data = os.path.join(REPO, 'tests', 'test_data')
    txt = txt.replace('../test_data/single_asm_refl', os.path.join(data, c['dataset']))
    txt = txt.replace('from_file = sodium_se2anl.csv',
                      'from_file = ' + os.path.join(REPO, 'tests', 'test_inputs', 'sodium_se2anl.csv'))
    txt = re.sub(r'axial_plane\s*=.*', '', txt)
    txt = re.sub(r'\[\[AssemblyTables\]\].*?(?=\n#{10,})', '', txt, flags=re.S)
    txt = re.sub(r'\[\[Dump\]\].*?(?=\[\[Units\]\])', '', txt, flags=re.S)
    if c['total'] is None:
        txt = re.sub(r'total_power\s*=.*', '', txt)
    else:
        txt = re.sub(r'total_power\s*=.*', 'total_power = %r' % c['total'], txt)
    if c['scaling'] is not None:
        txt = txt.replace('[Power]', '[Power]\n    power_scaling_factor = %r' % c['scaling'])
    txt = txt.replace('fuel_material      = metal', 'fuel_material      = metal\n        power_model = %s' % c['power_model'])
    if c['step_in'] is not None:
        txt = txt.replace('[Setup]', '[Setup]\n    axial_mesh_size = %r' % c['step_in'])
    if c['bounds'] == 'shifted':
        txt = txt.replace('z_hi       = 50.0', 'z_hi       = 53.0').replace('z_lo       = 115.0', 'z_lo       = 112.5')
    elif c['bounds'] == 'whole':
        txt = re.sub(r'\[\[\[AxialRegion\]\]\].*?(?=\[\[\[FuelModel\]\]\])', '', txt, flags=re.S)
    d = tempfile.mkdtemp(prefix='vf_vp_')
    try:
        ip = os.path.join(d, 'input.txt')
        with open(ip, 'w') as f:
            f.write(txt)
        inp = dassh.DASSH_Input(ip)
        rx = dassh.Reactor(inp, path=os.path.join(d, 'out'))
        rx.temperature_sweep()
        a = rx.assemblies[0]
        got = float(sum(a._power_delivered.values()))
        want = float(a.total_power)
        n = len(rx.z) - 1
        r['states'] = n + 1
        r['transitions'] = n
        r['traces'] = 1
        scale = max(abs(want), 1e-9)
        if abs(got - want) > TOL * scale:
            V.append(violation('delivered-power-varpow', c,
                               'heat deposited during the sweep differs from Assembly.total_power (ratio %.8f)'
                               % (got / want), got, want, TOL * scale))
        if c['total'] is not None:
            req = c['total'] * (c['scaling'] if c['scaling'] is not None else 1.0)
            if abs(float(rx.total_power) - req) > TOL * req or abs(want - req) > TOL * req:
                V.append(violation('core-total-power-varpow', c, 'core / assembly total differs from requested x scaling',
                                   [float(rx.total_power), want], req, TOL * req))
        zb = a.power.rod_zbnds
        zf = a.power.z_finemesh
        inside = any(min(abs(zf - b)) > 1e-6 for b in zb if 0 < b < 9e4)
        r['extra'] = {'varpow_bundle_bound_inside_power_cell': int(inside)}
        r['nontrivial'] = want > 0
        r['info'] = {'steps': n, 'ratio_minus_1': got / want - 1.0, 'total_power': want}
        r['outcome'] = 'ok' if not V else 'violation'
    finally:
        shutil.rmtree(d, ignore_errors=True)
    return r


def main(run):
    run.rule = ('full product cells x bundle bounds x polynomial order x component subset x step (+ normalisation, '
                'scaling, assembly count, zero-power cells as listed); non-trivial = non-zero assigned power')
    run.assumptions = ['exact rational integration of the CSV polynomials by the harness',
                       'binary-flux branch: the VARPOW executable and Power object are trusted for the assigned '
                       'power of the two intact single-assembly data sets; delivered vs assigned is checked']
    cs = cases(run.tier)
    for c in cs:
        c['seed'] = run.seed % 4
    run.check_determinism(run_case, cs[0])
    run.explore('power', cs, run_case, budget_s=300)
    run.explore('varpow', varpow_cases(run.tier), run_varpow, budget_s=600)
    # the summary table of dassh.out through which a user reads this property (vf/props/reports.py)
    from . import reports
    run.explore('report-power', reports.cases_power(run.tier), reports.run_power, budget_s=300)
    if not run.extra.get('bundle_bound_inside_power_cell'):
        run.violations.append(dict(violation('vacuous-alphabet', {}, 'no case with a bundle bound inside a power cell'),
                                   part='power'))


def replay(body):
    if str((body.get('scenario') or {}).get('probe', '')).startswith('report-'):
        from . import reports
        return reports.replay(body)
    from ..run import guarded
    c = {k: v for k, v in body['scenario'].items() if k not in ('asm',)}
    r = guarded(run_varpow if body.get('part') == 'varpow' else run_case, c, 900)
    for v in r['violations']:
        print('VIOLATION property=C03 replay=(inline) kind=%s %s observed=%s expected=%s'
              % (v['kind'], v['what'], v.get('observed'), v.get('expected')))
    print('outcome', r['outcome'], r.get('info'))
    return 1 if r['violations'] else 0
