"""C11  Duct-wall temperatures solve steady 1-D conduction with the stated BCs.

Part `slab` (bounded-exhaustive, full product of the alphabet below): every
state is one call of the real `_calc_duct_temp` on a real region object (built
from an input file through vf.scenario / dassh.Reactor) after the harness has
written the adjacent coolant temperatures and film coefficients into the
region and handed over gap temperatures / gap film coefficients / duct power.

  region kind   rodded with 1, 2, 3 concentric ducts (every duct of the bundle
                is a state: single / inner / middle / outer), low-fidelity
                `simple` (whole-assembly low-fidelity model) and `6node`
                (axial region)
  rings         {2, 3}                              (+4 thorough)
  film coeff.   {1e2, 1e4, 1e6} W/m2K on each side of every duct (edge cells;
                corner cells get 1.5 x the level so that an edge/corner index
                mix-up is visible).  quick: the layers interior | bypass 0 |
                bypass 1 | gap alternate between two levels (a, b), all 3 x 3
                pairs, so that every duct sees all nine (inner, outer)
                combinations; thorough: independent level per layer
  conductivity  {5, 25} W/mK through the [Materials] input section
                (+ k = 10 + 0.02 T thorough; k is evaluated by DASSH at the
                area-averaged mid-wall temperature standing before the call)
  thickness     {0.5, 3} mm
  temperatures  hot inside / hot outside / equal / non-uniform round the duct
                (+ alternating layers thorough)
  wall heating  0 (array of zeros, and None as the power model hands over
                when there is no duct power) / 20 W/m / 2000 W/m per cell /
                non-uniform per cell (rodded only; + one heated cell, 2e5 W/m
                thorough)
  gap htc form  per-cell array (what the Reactor passes) / (edge, corner) pair
                (documented alternative; rodded only)
  outer BC      coupled / adiabatic

Oracle (per duct cell, from the three reported temperatures T_si, T_mw, T_so,
which determine the parabola T(x) on [-t/2, t/2]):
  curvature      k t T''            = -q''' t      4k(T_si+T_so-2T_mw)/t
  inner-flux     h_in (T_ci - T_si) = -k T'(-t/2) = k(3T_si+T_so-4T_mw)/t
  outer-flux     h_out(T_so - T_co) = -k T'(+t/2) = -k(T_si+3T_so-4T_mw)/t
                 (adiabatic: -k T'(+t/2) = 0 and T_co is irrelevant)
  energy-balance h_in (T_ci - T_si) + q''' t = h_out (T_so - T_co)   (or 0)
  ordering       q''' = 0: T_ci, T_si, T_mw, T_so, T_co monotone (adiabatic:
                 all three wall temperatures equal T_ci)
with q''' = (linear power supplied by the harness) / duct_params['q_area'];
t, k, h, T_c are the harness' own inputs (t from the flat-to-flat distances of
the input file).  Tolerance (all residuals are in W/m2):
  1e-9 * max(|h_in dT_in|, |h_out dT_out|, |q''' t|, k|T_so-T_si|/t, |k T'|)
  + 64 eps T_max max(h_in, h_out, 4k/t)
The first term is round-off of the closed-form solution relative to the flux
scale (measured worst ~1e-11); the second is the round-off of a temperature
(eps*T) multiplied by the stiffest conductance of the residual: it is the
only scale left when both coolants are equal and there is no heating.
Ordering tolerance: 16 eps T_max (K).

`slab-geometry` (once per rodded region): the published slab constants are the
ones of the input file: thickness = (ftf_out - ftf_in)/2, L/2 = t/2, L^2/8 =
t^2/8, and q_area = t x (width over which the cell exchanges heat with the
coolant: pin pitch for edge cells, twice the outer corner length of that duct
for corner cells), so that q''' t x width = linear power supplied (heat
"generated in the wall" is what the power distribution supplied).

Part `sweep`: short real sweeps (vf.scenario + Reactor, pins + duct + coolant
power, temperature-dependent duct conductivity ss316) per region kind and
{adiabatic, gap flow}.  `Assembly.calculate` is wrapped on the instance; the
duct temperatures standing after each call must satisfy the same residuals
with the coolant / gap temperatures and film coefficients they were computed
from: rodded and simple regions solve the wall first (level-n coolant and the
film coefficients standing before the call), the 6-node region advances its
coolant first (coolant and film coefficient standing after the call).  The
`activate` of every region is wrapped as well: at a region change the walls
are solved without heating from the mixed coolant of the new region (k at the
temperature DASSH hands to `_update_duct` during that call).
"""
import math

import numpy as np

from ..run import new_result, violation, site_of, guarded
from .. import scenario as S

SQ3 = math.sqrt(3.0)
EPS = float(np.finfo(float).eps)
RTOL = 1e-9          # relative to the flux scale of the cell
FLOOR = 64.0         # x eps x T_max x stiffest conductance
OTOL = 16.0          # x eps x T_max (K), ordering
GTOL = 1e-11         # geometry constants, relative

H_LEVELS = [1e2, 1e4, 1e6]
CORNER_FACTOR = 1.5
KINDS = ['r1', 'r2', 'r3', 'lf-simple', 'lf-6node']
NDUCT = {'r1': 1, 'r2': 2, 'r3': 3, 'lf-simple': 1, 'lf-6node': 1}
SITE_R = 'region_rodded.py:_calc_duct_temp'
SITE_U = 'region_unrodded.py:_calc_duct_temp'
RESIDUALS = ('curvature', 'inner-flux', 'outer-flux', 'energy-balance')


# ----------------------------------------------------------------------
# alphabet
def alphabet(tier, kind):
    nd = NDUCT[kind]
    rodded = kind.startswith('r')
    a = {}
    lv = range(len(H_LEVELS))
    if tier == 'quick':
        # layers alternate between two levels: every duct sees all 3 x 3 pairs
        a['film'] = [[(p if l % 2 == 0 else q) for l in range(nd + 1)] for p in lv for q in lv]
        a['temps'] = ['hot-in', 'hot-out', 'equal', 'nonuniform']
        a['heat'] = ['zero', 'none', 'small', 'large', 'nonuniform'] if rodded else ['zero']
        a['gapform'] = ['cells', 'pair'] if rodded else ['cells']
    else:
        film = [[]]
        for l in range(nd + 1):
            film = [f + [p] for f in film for p in lv]
        a['film'] = film
        a['temps'] = ['hot-in', 'hot-out', 'equal', 'nonuniform', 'zigzag']
        a['heat'] = (['zero', 'none', 'small', 'large', 'huge', 'nonuniform', 'one-cell']
                     if rodded else ['zero'])
        a['gapform'] = ['cells', 'pair'] if rodded else ['cells']
    a['adiabatic'] = [False, True]
    return a


def cases(tier):
    rings = [2, 3] if tier == 'quick' else [2, 3, 4]
    ks = ['5', '25'] if tier == 'quick' else ['5', '25', 'lin']
    out = []
    for kind in KINDS:
        for n in rings:
            for k in ks:
                for t_mm in (0.5, 3.0):
                    # the level of the innermost film coefficient is part of
                    # the case only to spread the work over the workers
                    for f0 in range(len(H_LEVELS)):
                        out.append({'kind': kind, 'rings': n, 'k': k, 't_mm': t_mm, 'film0': f0})
    return out


K_COEFF = {'5': [5.0], '25': [25.0], 'lin': [10.0, 0.02]}   # lowest order first


def k_of(kname, T):
    co = K_COEFF[kname]
    return float(sum(c * T ** i for i, c in enumerate(co)))


def build_scn(c):
    kind, n = c['kind'], c['rings']
    nd = NDUCT[kind]
    t = c['t_mm'] * 1e-3
    byp = 0.002
    oftf = round(0.012 * n + 0.03 + (nd - 1) * 2 * (t + byp), 9)
    kw = dict(ducts=nd, duct_t=t, byp_t=byp, oftf=oftf, duct_mat='wall')
    L = 0.2
    if kind == 'lf-simple':
        kw['lowfi'] = {'model': 'simple'}
    elif kind == 'lf-6node':
        kw['regions'] = {'upper': {'z_lo': 0.1, 'z_hi': L, 'vf_coolant': 0.35, 'model': '6node'}}
    if nd > 1:
        kw['bypass_fraction'] = 0.05
    dsn = S.design(n, **kw)
    scn = S.single(dsn, 0.5 * n, length=L)
    scn['materials'] = {'wall': {'thermal_conductivity': list(K_COEFF[c['k']])}}
    scn['power'] = {'asm': {'1': {'rings': n, 'nduct': nd, 'cells': [0.0, L], 'q': 100.0,
                                  'pins': 'uniform', 'duct': None, 'cool': None}}}
    return scn, dsn


def pick_region(rx, kind):
    a = rx.assemblies[0]
    want = {'lf-simple': 'simple', 'lf-6node': '6node'}.get(kind)
    for reg in a.region:
        if want is None and reg.is_rodded:
            return reg
        if want is not None and (not reg.is_rodded) and reg.model == want:
            return reg
    return None


# ----------------------------------------------------------------------
# deterministic patterns
def _frac(x):
    return x - np.floor(x)


def layer_temps(pattern, nlayer, ncell):
    """temperature of every coolant layer (interior edge/corner cells,
    bypass gaps, inter-assembly gap) adjacent to the ducts, per duct cell"""
    j = np.arange(ncell, dtype=float)
    out = []
    for l in range(nlayer):
        if pattern == 'hot-in':
            v = np.full(ncell, 800.0 - 50.0 * l)
        elif pattern == 'hot-out':
            v = np.full(ncell, 600.0 + 50.0 * l)
        elif pattern == 'equal':
            v = np.full(ncell, 700.0)
        elif pattern == 'zigzag':
            v = np.full(ncell, 800.0 if l % 2 == 0 else 600.0)
        elif pattern == 'nonuniform':
            v = 650.0 + 100.0 * _frac(0.6180339887 * (j + 1.0) + 0.37 * l)
        else:
            raise ValueError(pattern)
        out.append(v)
    return out


def heat_pattern(name, nd, ncell):
    """linear power (W/m) per duct cell, flat array nd*ncell (None allowed)"""
    n = nd * ncell
    j = np.arange(n, dtype=float)
    if name == 'none':
        return None
    if name == 'zero':
        return np.zeros(n)
    if name == 'small':
        return np.full(n, 20.0)
    if name == 'large':
        return np.full(n, 2000.0)
    if name == 'huge':
        return np.full(n, 2.0e5)
    if name == 'nonuniform':
        p = 2000.0 * _frac(0.7548776662 * (j + 1.0))
        p[::5] = 0.0
        return p
    if name == 'one-cell':
        p = np.zeros(n)
        p[1::ncell] = 2000.0
        return p
    raise ValueError(name)


# ----------------------------------------------------------------------
# oracle
def bvp_check(Tci, Tsi, Tmw, Tso, Tco, hi, ho, k, t, q3, adiabatic):
    """residuals (W/m2) of the slab boundary-value problem per cell, their
    tolerance, and the ordering defect (K) for unheated cells.
    Returns (dict name -> (worst ratio residual/tol, cell, residual, tol, flux scale,
    worst residual/scale over the cells whose tolerance is set by the flux scale)),
    ordering (worst defect K, cell, tolK), finite flag."""
    Tsi, Tmw, Tso = [np.asarray(x, dtype=float) for x in (Tsi, Tmw, Tso)]
    n = Tmw.shape[0]
    Tci = np.broadcast_to(np.asarray(Tci, dtype=float), (n,))
    hi = np.broadcast_to(np.asarray(hi, dtype=float), (n,))
    q3 = np.broadcast_to(np.asarray(q3, dtype=float), (n,))
    finite = bool(np.all(np.isfinite(Tsi)) and np.all(np.isfinite(Tmw)) and np.all(np.isfinite(Tso)))
    if not finite:
        return None, None, False
    qt = q3 * t
    f_in = hi * (Tci - Tsi)
    g_in = k * (3.0 * Tsi + Tso - 4.0 * Tmw) / t
    g_out = -k * (Tsi + 3.0 * Tso - 4.0 * Tmw) / t
    curv = 4.0 * k * (Tsi + Tso - 2.0 * Tmw) / t
    if adiabatic:
        f_out = np.zeros(n)
        G = np.maximum(hi, 4.0 * k / t)
        Tmax = np.max(np.abs([Tci, Tsi, Tmw, Tso]), axis=0)
    else:
        Tco = np.broadcast_to(np.asarray(Tco, dtype=float), (n,))
        ho = np.broadcast_to(np.asarray(ho, dtype=float), (n,))
        f_out = ho * (Tso - Tco)
        G = np.maximum(np.maximum(hi, ho), 4.0 * k / t)
        Tmax = np.max(np.abs([Tci, Tsi, Tmw, Tso, Tco]), axis=0)
    scale = np.max(np.abs([f_in, f_out, qt, k * (Tso - Tsi) / t, g_in, g_out]), axis=0)
    tol = RTOL * scale + FLOOR * EPS * Tmax * G
    res = {'curvature': curv + qt,
           'inner-flux': f_in - g_in,
           'outer-flux': f_out - g_out,
           'energy-balance': f_in + qt - f_out}
    out = {}
    for name, rv in res.items():
        ratio = np.abs(rv) / tol
        i = int(np.argmax(ratio))
        # relative residual where the flux scale (not the round-off floor) sets the tolerance
        dom = RTOL * scale >= FLOOR * EPS * Tmax * G
        rel = float(np.max(np.abs(rv[dom]) / scale[dom])) if np.any(dom) else 0.0
        out[name] = (float(ratio[i]), i, float(rv[i]), float(tol[i]), float(scale[i]), rel)
    # ordering of unheated cells
    cold = (q3 == 0.0)
    order = None
    if np.any(cold):
        tolK = OTOL * EPS * Tmax
        if adiabatic:
            seq = [Tci, Tsi, Tmw, Tso]
            d = np.max(np.abs([seq[i] - seq[i + 1] for i in range(3)]), axis=0)
        else:
            seq = [Tci, Tsi, Tmw, Tso, Tco]
            s = np.sign(Tci - Tco)
            steps = np.array([seq[i] - seq[i + 1] for i in range(4)])
            # s != 0: every step has the sign of the overall difference (or
            # is zero); s == 0: every step is zero
            d = np.where(s != 0.0, np.max(-steps * s, axis=0), np.max(np.abs(steps), axis=0))
        d = np.where(cold, d - tolK, -np.inf)
        i = int(np.argmax(d))
        order = (float(d[i] + tolK[i]), i, float(tolK[i]), int(np.sum(cold)))
    return out, order, True


def judge(V, scen, site, what, res, order, finite, worst):
    """append violations for one duct; update worst-ratio bookkeeping"""
    if not finite:
        V.append(violation('non-finite', scen, '%s: non-finite duct temperature' % what, site=site))
        return
    for name in RESIDUALS:
        ratio, cell, rv, tol, scale, rel = res[name]
        worst[name] = max(worst.get(name, 0.0), rel)
        worst['residual/tolerance'] = max(worst.get('residual/tolerance', 0.0), ratio)
        if ratio > 1.0:
            V.append(violation(name, dict(scen, cell=cell),
                               '%s: %s residual %.6g W/m2 in cell %d (flux scale %.6g W/m2)'
                               % (what, name, rv, cell, scale), rv, 0.0, tol, site=site))
    if order is not None:
        d, cell, tolK, ncold = order
        if d > tolK:
            V.append(violation('ordering', dict(scen, cell=cell),
                               '%s: unheated cell %d: surface / mid-wall temperatures are not ordered '
                               'between the adjacent coolant temperatures (defect %.6g K)' % (what, cell, d),
                               d, '<= 0', tolK, site=site))


# ----------------------------------------------------------------------
def cell_types(reg):
    """0 = edge, 1 = corner for every duct cell, from the published map"""
    sc = reg.subchannel
    nc = sc.n_sc['coolant']['total']
    nd = sc.n_sc['duct']['total']
    return np.asarray(sc.type[nc:nc + nd], dtype=int) - 3


def geometry_check(c, reg, dsn, V):
    n = c['rings']
    P = dsn['pin_pitch']
    ftf = dsn['duct_ftf']
    dftf = [ftf[i:i + 2] for i in range(0, len(ftf), 2)]
    dp = reg.duct_params
    bad = []
    for i, (fi, fo) in enumerate(dftf):
        t = 0.5 * (fo - fi)
        wc = 0.5 * (fo / SQ3 - (n - 1) * P)      # half of what the edge cells leave of the outer hexagon side
        want = {'thickness': t, 'L/2': 0.5 * t, 'L^2/8': t * t / 8.0,
                'q_area-edge': P * t, 'q_area-corner': 2.0 * wc * t}
        have = {'thickness': dp['thickness'][i], 'L/2': dp['L/2'][i], 'L^2/8': dp['L^2/8'][i],
                'q_area-edge': dp['q_area'][i][0], 'q_area-corner': dp['q_area'][i][1]}
        for key in sorted(want):
            if not abs(float(have[key]) - want[key]) <= GTOL * abs(want[key]):
                bad.append((i, key, float(have[key]), want[key]))
    for i, key, h, w in bad:
        V.append(violation('slab-geometry', dict(c, duct=i, constant=key),
                           "duct %d: published duct_params %s = %.12g, input geometry gives %.12g"
                           % (i, key, h, w), h, w, GTOL * abs(w),
                           site='region_rodded.py:calculate_geometry'))
    return not bad


def role(i, nd):
    if nd == 1:
        return 'single'
    return 'inner' if i == 0 else ('outer' if i == nd - 1 else 'middle')


def run_case(c):
    r = new_result()
    V = r['violations']
    kind = c['kind']
    rodded = kind.startswith('r')
    nd = NDUCT[kind]
    tier = c.get('tier', 'quick')
    scn, dsn = build_scn(c)
    with S.Built(scn) as b:
        rx = b.reactor()
    reg = pick_region(rx, kind)
    if reg is None:
        V.append(violation('harness-no-region', c, 'no region of kind %s was built' % kind))
        r['outcome'] = 'no-region'
        return r
    ftf = dsn['duct_ftf']
    dftf = [ftf[i:i + 2] for i in range(0, len(ftf), 2)]
    if not rodded:
        dftf = dftf[-1:]
    tw = [0.5 * (fo - fi) for fi, fo in dftf]
    site = SITE_R if rodded else SITE_U
    extra = {'states_by_role': {}, 'calls': 0, 'heated_states': 0, 'ordering_cells': 0,
             'adiabatic_states': 0}
    worst = {}
    if rodded:
        geometry_check(c, reg, dsn, V)
        ctype = cell_types(reg)
        ncell = len(ctype)
        n_int = reg.subchannel.n_sc['coolant']['interior']
        qa = np.array([[float(reg.duct_params['q_area'][i][ty]) for ty in ctype] for i in range(nd)])
    else:
        ncell = 6
        ctype = np.array([0, 1, 0, 1, 0, 1])     # only used to vary the gap film coefficient round the duct
        n_node = reg.temp['coolant_int'].shape[0]
    cf = np.where(ctype == 1, CORNER_FACTOR, 1.0)
    al = alphabet(tier, kind)
    only = c.get('only')

    for film in al['film']:
        if film[0] != c['film0']:
            continue
        hl = [H_LEVELS[p] for p in film]
        for tp in al['temps']:
            TL = layer_temps(tp, nd + 1, ncell)
            for hp in al['heat']:
                for gf in al['gapform']:
                    for adi in al['adiabatic']:
                        st = {'film': list(film), 'temps': tp, 'heat': hp, 'gapform': gf, 'adiabatic': adi}
                        if only is not None and any(only.get(kk) != vv for kk, vv in st.items()):
                            continue
                        # ---- write the state into the real region ----
                        T0mw = 640.0
                        reg.temp['duct_mw'][:] = T0mw
                        reg.temp['duct_surf'][:] = T0mw
                        kk = k_of(c['k'], T0mw)
                        t_gap = TL[nd].copy()
                        if gf == 'pair':
                            h_gap = np.array([hl[nd], CORNER_FACTOR * hl[nd]])
                        else:
                            h_gap = hl[nd] * cf
                        h_gap_cells = hl[nd] * cf
                        if rodded:
                            reg.temp['coolant_int'][:n_int] = 555.0
                            reg.temp['coolant_int'][n_int:] = TL[0]
                            reg.coolant_int_params['htc'] = np.array(
                                [0.37 * hl[0], hl[0], CORNER_FACTOR * hl[0]])
                            for ib in range(nd - 1):
                                reg.temp['coolant_byp'][ib] = TL[ib + 1]
                                reg.coolant_byp_params['htc'][ib] = np.array(
                                    [hl[ib + 1], CORNER_FACTOR * hl[ib + 1]])
                            p = heat_pattern(hp, nd, ncell)
                            args = (None if p is None else p.copy(), t_gap.copy(), h_gap.copy(), adi)
                        else:
                            if n_node == 1:
                                # one coolant node: its temperature is that of cell 0
                                Tc = np.array([TL[0][0]])
                            else:
                                Tc = TL[0].copy()
                            reg.temp['coolant_int'][:] = Tc
                            reg.coolant_params['htc'] = hl[0]
                            p = None
                            args = (t_gap.copy(), h_gap.copy(), adi)
                        # ---- the real call ----
                        try:
                            reg._calc_duct_temp(*args)
                        except (Exception, SystemExit) as e:
                            V.append(violation('duct-temp-exception', dict(c, **st),
                                               '%s: %s' % (type(e).__name__, str(e)[:200]), site=site_of(e)))
                            r['states'] += nd
                            r['transitions'] += 1
                            continue
                        r['transitions'] += 1
                        extra['calls'] += 1
                        # ---- oracle, per duct ----
                        for i in range(nd):
                            last = (i == nd - 1)
                            if rodded:
                                Tci = TL[i]
                                hi = hl[i] * cf
                                q3 = np.zeros(ncell) if p is None else p[i * ncell:(i + 1) * ncell] / qa[i]
                            else:
                                Tci = Tc
                                hi = hl[0]
                                q3 = np.zeros(ncell)
                            Tco = TL[i + 1]
                            ho = h_gap_cells if last else hl[i + 1] * cf
                            res, order, fin = bvp_check(
                                Tci, reg.temp['duct_surf'][i, 0], reg.temp['duct_mw'][i],
                                reg.temp['duct_surf'][i, 1], Tco, hi, ho, kk, tw[i], q3, adi and last)
                            scen = dict(c, duct=i, role=role(i, nd), **st)
                            judge(V, scen, site, '%s duct %d (%s)' % (kind, i, role(i, nd)),
                                  res, order, fin, worst)
                            r['states'] += 1
                            rl = role(i, nd)
                            extra['states_by_role'][rl] = extra['states_by_role'].get(rl, 0) + 1
                            if np.any(q3 > 0):
                                extra['heated_states'] += 1
                            if order is not None:
                                extra['ordering_cells'] += order[3]
                            if adi and last:
                                extra['adiabatic_states'] += 1
    r['traces'] = extra['calls']
    r['nontrivial'] = r['states'] > 0
    r['outcome'] = 'ok' if not V else 'violation'
    r['extra'] = extra
    r['info'] = {'worst_relative_residual': {k_: float('%.3g' % v) for k_, v in sorted(worst.items())},
                 'cells': int(ncell), 'region': type(reg).__name__}
    return r


# ----------------------------------------------------------------------
# sweep part
SWEEP_KINDS = {
    'r1': dict(ducts='1', structure='bundle'),
    'r2': dict(ducts='2f', structure='bundle'),
    'r3': dict(ducts='3', structure='bundle'),
    'r2s': dict(ducts='2s', structure='bundle'),       # stagnant bypass gap
    'r3s': dict(ducts='3s', structure='bundle'),
    'lf-simple': dict(ducts='1', structure='lf-simple'),
    'multi': dict(ducts='1', structure='multi'),        # simple region, bundle, 6-node region
    'multi2': dict(ducts='2f', structure='multi'),
}


def sweep_cases(tier):
    out = []
    designs = ['d2'] if tier == 'quick' else ['d2', 'd3']
    for d in designs:
        for sk in sorted(SWEEP_KINDS):
            for wall in ('none', 'flow', 'no_flow', 'duct_average'):
                if tier == 'quick' and wall in ('no_flow', 'duct_average') and sk not in ('r1', 'multi2'):
                    continue
                out.append({'sweep': sk, 'design': d, 'wall': wall,
                            'L': 0.06 if tier == 'quick' else 0.12})
        # tabulated coolant (film coefficients change along the height; a region is activated with heated coolant)
        for sk in ('multi', 'multi2', 'r1'):
            out.append({'sweep': sk, 'design': d, 'wall': 'flow', 'coolant': 'sodium', 'L': 0.06 if tier == 'quick' else 0.12})
        # [Setup] se2geo = True (another corner geometry), walls heated
        for sk in ('r1', 'r2', 'multi'):
            out.append({'sweep': sk, 'design': d, 'wall': 'flow', 'se2': True, 'L': 0.06 if tier == 'quick' else 0.12})
        # a long march of very small steps (wall temperature changes by a few hundredths of a kelvin per step)
        for wall in ('none', 'flow'):
            out.append({'sweep': 'r1', 'design': d, 'wall': wall, 'fine': True, 'L': 0.06 if tier == 'quick' else 0.12})
        for sk in ('multi', 'multi2', 'r2', 'lf-simple'):
            for form in ('outer-first', 'ducts-reversed', 'descending'):
                if form == 'ducts-reversed' and sk in ('multi', 'lf-simple'):
                    continue       # one duct: nothing to reverse
                for wall in (('flow',) if tier == 'quick' else ('none', 'flow')):
                    out.append({'sweep': sk, 'design': d, 'wall': wall, 'ftf': form,
                                'L': 0.06 if tier == 'quick' else 0.12})
    return out


def run_sweep(c):
    from . import c01
    r = new_result()
    V = r['violations']
    cc = dict(SWEEP_KINDS[c['sweep']], design=c['design'], wall=c['wall'], re='lam',
              fam=['CTD', 'CTD', 'CTD'], power='asym', L=c['L'])
    if c.get('coolant'):
        cc['dT'] = 250.0
    scn = c01.build_scn(cc, coolant=c.get('coolant'), dz_user=(c['L'] / 2400.0 if c.get('fine') else None))
    scn['types']['A']['duct_material'] = 'ss316'
    if c.get('se2'):
        scn['setup']['se2geo'] = True
    scn['power']['asm']['1']['fr'] = {'duct': 0.25}
    dsn = scn['types']['A']
    ftf = sorted(dsn['duct_ftf'])
    dftf_all = [ftf[i:i + 2] for i in range(0, len(ftf), 2)]
    # the flat-to-flat values may be listed in any order (the regions sort them)
    if c.get('ftf') == 'outer-first':          # within every duct: outer value first
        dsn['duct_ftf'] = [ftf[i + 1 - 2 * (i % 2)] for i in range(len(ftf))]
    elif c.get('ftf') == 'ducts-reversed':     # outermost duct listed first
        dsn['duct_ftf'] = [x for d in reversed(dftf_all) for x in d]
    elif c.get('ftf') == 'descending':
        dsn['duct_ftf'] = list(reversed(ftf))
    extra = {'sweep_states_by_kind': {}, 'sweep_heated_states': 0}
    worst = {}
    want_adi = (c['wall'] == 'none')
    with S.Built(scn) as b:
        rx = b.reactor()
        asm = rx.assemblies[0]
        last_power = {}
        orig_gps = asm.power.get_power_sweep
        orig_calc = asm.calculate
        kclone = {}

        def k_at(reg, T):
            m = kclone.get(id(reg.duct))
            if m is None:
                m = kclone[id(reg.duct)] = reg.duct.clone()
            m.update(T)
            return float(m.thermal_conductivity)

        def gps(*a, **kw):
            p = orig_gps(*a, **kw)
            last_power['q'] = {kk: (None if v is None else np.array(v, dtype=float, copy=True))
                               for kk, v in p.items()}
            return p

        def snapshot(reg):
            sn = {'Tc': reg.temp['coolant_int'].copy()}
            if reg.is_rodded:
                sn['h'] = np.array(reg.coolant_int_params['htc'], dtype=float, copy=True)
                if reg.n_bypass > 0:
                    sn['Tb'] = reg.temp['coolant_byp'].copy()
                    sn['hb'] = np.array(reg.coolant_byp_params['htc'], dtype=float, copy=True)
            else:
                sn['h'] = float(reg.coolant_params['htc'])
            return sn

        def check(reg, sn, kT, tg, hg, pd, adiabatic, event):
            """residuals of the walls standing in `reg` against the coolant
            state `sn`, gap state (tg, hg), duct power pd, k at kT[i]"""
            rodded = reg.is_rodded
            kindname = ('rodded%d' % reg.n_duct if rodded else reg.model) + event
            nd = reg.temp['duct_mw'].shape[0]
            if rodded:
                ctype = cell_types(reg)
                ncell = len(ctype)
                n_int = reg.subchannel.n_sc['coolant']['interior']
                dftf = dftf_all
                if hg.shape[0] == 2:
                    hg = hg[ctype]
            else:
                ncell = 6
                dftf = dftf_all[-1:]
            for i in range(nd):
                last = (i == nd - 1)
                t = 0.5 * (dftf[i][1] - dftf[i][0])
                kk = k_at(reg, float(kT[i]))
                if rodded:
                    if i == 0:
                        Tci = sn['Tc'][n_int:]
                        hi = sn['h'][1:][ctype]
                    else:
                        Tci = sn['Tb'][i - 1]
                        hi = sn['hb'][i - 1][ctype]
                    if last:
                        Tco, ho = tg, hg
                    else:
                        Tco, ho = sn['Tb'][i], sn['hb'][i][ctype]
                    if pd is None:
                        q3 = np.zeros(ncell)
                    else:
                        # heated cross-section of a wall cell = thickness x width of its outer face (flat plate):
                        # an edge cell is one pin pitch wide, a corner cell the rest of the hexagon side at the
                        # outer flat-to-flat (own geometry, not the code's q_area table)
                        nr_ = reg.n_ring
                        w_edge = float(reg.pin_pitch)
                        w_corner = dftf[i][1] / math.sqrt(3.0) - (nr_ - 1) * w_edge
                        qa = np.array([t * (w_edge if ty == 0 else w_corner) for ty in ctype])
                        q3 = pd[i * ncell:(i + 1) * ncell] / qa
                else:
                    Tci, hi = sn['Tc'], sn['h']
                    Tco, ho = tg, hg
                    q3 = np.zeros(ncell)
                res, order, fin = bvp_check(Tci, reg.temp['duct_surf'][i, 0], reg.temp['duct_mw'][i],
                                            reg.temp['duct_surf'][i, 1], Tco, hi, ho, kk, t, q3,
                                            adiabatic and last)
                scen = dict(c, duct=i, role=role(i, nd), region=kindname, z=float(asm.z))
                judge(V, scen, SITE_R if rodded else SITE_U,
                      'sweep z=%.5f %s duct %d' % (asm.z, kindname, i), res, order, fin, worst)
                r['states'] += 1
                extra['sweep_states_by_kind'][kindname] = extra['sweep_states_by_kind'].get(kindname, 0) + 1
                if np.any(q3 > 0):
                    extra['sweep_heated_states'] += 1

        def calc(dz, t_gap, h_gap, z=None, adiabatic=False, ebal=False):
            reg = asm.active_region
            pre = snapshot(reg)
            kT = np.array(reg.avg_duct_mw_temp, dtype=float, copy=True)
            tg = np.array(t_gap, dtype=float, copy=True)
            hg = np.array(h_gap, dtype=float, copy=True)
            orig_calc(dz, t_gap, h_gap, z=z, adiabatic=adiabatic, ebal=ebal)
            q = last_power.get('q') or {}
            if (not reg.is_rodded) and reg.model == '6node':
                # the 6-node region advances its coolant first and refreshes
                # the film coefficient inside the call: the wall was solved
                # from the state standing now
                sn = snapshot(reg)
            else:
                # rodded / simple: wall first, from level-n coolant and the
                # film coefficients standing before the call
                sn = pre
            # the outer boundary condition is the one the INPUT states (gap model none = adiabatic, every
            # other gap model = coupled), not the flag the Reactor hands down
            check(reg, sn, kT, tg, hg, q.get('duct') if reg.is_rodded else None, want_adi, '')
            r['transitions'] += 1

        def wrap_activate(reg):
            orig_act = reg.activate

            def act(previous_reg, t_gap, h_gap, adiabatic):
                # region change: coolant is mixed, then the walls are solved
                # without heating from the new coolant state; DASSH evaluates
                # k at the temperatures it hands to _update_duct meanwhile
                seen = []
                orig_ud = reg._update_duct

                def ud(T):
                    seen.append(float(T))
                    return orig_ud(T)
                reg._update_duct = ud
                tg = np.array(t_gap, dtype=float, copy=True)
                hg = np.array(h_gap, dtype=float, copy=True)
                try:
                    orig_act(previous_reg, t_gap, h_gap, adiabatic)
                finally:
                    del reg.__dict__['_update_duct']
                nd = reg.temp['duct_mw'].shape[0]
                if len(seen) != nd:       # low-fidelity adiabatic branch: no conduction solve, k immaterial
                    seen = [float(np.mean(reg.temp['coolant_int']))] * nd
                check(reg, snapshot(reg), seen, tg, hg, None, want_adi, '@activate')
                r['transitions'] += 1
            reg.activate = act

        for reg_ in asm.region:
            wrap_activate(reg_)
        asm.power.get_power_sweep = gps
        asm.calculate = calc
        from .. import observe as O
        # multi-region structures are swept to the top (the 6-node region is
        # the last one); pure bundles / low-fidelity assemblies are cut after
        # 1500 steps (every step of the truncated sweep is a checked state)
        cap = None if 'multi' in c['sweep'] else 1500
        O.sweep(rx, None, max_steps=cap)
        dT = float(asm.avg_coolant_temp - rx.inlet_temp)
    r['traces'] = 1
    r['nontrivial'] = r['states'] > 0
    r['outcome'] = 'ok' if not V else 'violation'
    r['extra'] = extra
    r['info'] = {'worst_relative_residual': {k_: float('%.3g' % v) for k_, v in sorted(worst.items())},
                 'steps': r['transitions'], 'coolant_rise_K': float('%.4g' % dT)}
    return r


# ----------------------------------------------------------------------
# part `core`: the outer boundary condition handed to every wall in a real core
def core_cases(tier):
    # a six-cell wall ring whose six neighbours have the same mesh (every wall cell then faces the same mix of gap cells)
    # and rings in mixed surroundings
    lays = [['U'] + ['A'] * 6, ['S'] + ['B'] * 6, ['U', 'A', 'B', 'A', None, 'C', 'A'], ['S', 'B', 'U', None, 'A', 'D', 'B'],
            ['A', 'U', 'U', 'B', 'U', None, 'C']]
    if tier != 'quick':
        lays += [['U', 'B', None, None, 'A', None, 'C'], ['D', 'U', 'S', 'B', 'A', 'U', 'C'], ['B', 'A', 'U', 'S', 'D', 'C', 'A']]
    out = []
    for lay in lays:
        for gm in ('flow', 'no_flow', 'duct_average'):
            out.append({'core': True, 'layout': lay, 'gap_model': gm, 'gapfrac': 0.05, 'max_steps': 40 if tier == 'quick' else 80})
    return out


def run_core(c):
    """In a core the outer coolant of a wall cell is the set of gap cells it faces.  The wall is solved against one film
    coefficient and one temperature per wall cell (checked cell by cell in part `sweep`); the flux it sends out,
    h_i (Ts - T_i), equals the flux to those gap cells each with its own film coefficient, sum_j M_ij h_j (Ts - T_j), for
    every surface temperature iff h_i = sum_j M_ij h_j and h_i T_i = sum_j M_ij h_j T_j (M = the region's gap-to-duct map,
    rows summing to one - C10).  Checked on the arrays the Reactor hands to every assembly at every step."""
    from . import c02
    from .. import observe as O
    r = new_result()
    V = r['violations']
    scn = c02.build_scn(c)
    worst = 0.0
    with S.Built(scn) as b:
        rx = b.reactor()
        core = rx.core
        nonuni = [0]

        def wrap(ai, asm):
            orig = asm.calculate

            def calc(dz, t_gap, h_gap, *a, **kw):
                reg = asm.active_region
                M = np.asarray(reg._map['gap2duct'], dtype=float)
                hj = np.asarray(core.adjacent_coolant_gap_htc(ai), dtype=float)
                Tj = np.asarray(core.adjacent_coolant_gap_temp(ai), dtype=float)
                h_own = M @ hj
                hT_own = M @ (hj * Tj)
                tg = np.asarray(t_gap, dtype=float)
                hg = np.asarray(h_gap, dtype=float) * np.ones_like(tg)
                if float(np.ptp(hj[hj > 0])) > 1e-9 * float(np.max(hj)) and float(np.ptp(Tj[hj > 0])) > 1e-6:
                    nonuni[0] += 1
                sc_ = max(float(np.max(np.abs(hT_own))), 1e-30)
                dev = max(float(np.max(np.abs(hg - h_own))) / max(float(np.max(h_own)), 1e-30),
                          float(np.max(np.abs(hg * tg - hT_own))) / sc_)
                r['states'] += len(tg)
                if dev > 1e-11 and not V:
                    V.append(violation('outer-boundary-not-flux-consistent', dict(c, asm=ai, z=float(getattr(asm, '_z', 0.0))),
                                       'assembly %d (%s region): the film coefficient / temperature handed to the wall cells '
                                       'are not the film-weighted means over the gap cells each wall cell faces, so the '
                                       'outer flux of the wall solution is not the flux to those gap cells'
                                       % (ai, 'pin-bundle' if reg.is_rodded else reg.model), dev, 0.0, 1e-11,
                                       site='reactor.py:_calculate_asm_temperatures'))
                return orig(dz, t_gap, h_gap, *a, **kw)
            asm.calculate = calc
        for ai, asm in enumerate(rx.assemblies):
            wrap(ai, asm)
        O.sweep(rx, None, max_steps=c['max_steps'])
        n = min(len(rx.z) - 1, c['max_steps'])
    r['transitions'] = n
    r['traces'] = 1
    r['nontrivial'] = nonuni[0] > 0
    r['outcome'] = 'ok' if not V else 'violation'
    r['info'] = {'wall_solves_with_non_uniform_gap': nonuni[0]}
    return r


# ----------------------------------------------------------------------
def main(run):
    run.rule = ('slab: full product kind x rings x conductivity x thickness x innermost film level (one case '
                'each) x film-coefficient levels of the other layers x temperature pattern x wall heating x gap-htc form x adiabatic (enumerated '
                'inside the case); one state = one duct of one real _calc_duct_temp call, all inputs distinct. '
                'sweep: region structure x gap model; one state = one duct after one real Assembly.calculate / '
                'region.activate. '
                'A case is non-trivial when at least one duct state was evaluated')
    run.assumptions = ['subchannel type map (edge/corner order of duct cells) is trusted (checked by C08)',
                       'dassh.Material evaluates the user conductivity polynomial / table correctly; DASSH '
                       'evaluates k at the area-averaged mid-wall temperature standing before the call',
                       'q\'\'\' = linear power / published q_area; q_area itself is tied to the input geometry '
                       'by the slab-geometry check']
    cs = [dict(c, tier=run.tier) for c in cases(run.tier)]
    run.check_determinism(run_case, cs[0])
    res = run.explore('slab', cs, run_case, budget_s=600, chunksize=1)
    sw = sweep_cases(run.tier)
    res2 = run.explore('sweep', sw, run_sweep, budget_s=600, chunksize=1)
    # the csv dump of this property's field: every row is the recorded field of that assembly at that plane
    from . import reports as _rep
    run.explore('core', core_cases(run.tier), run_core, budget_s=300, chunksize=1)
    # heat into the walls as booked per assembly (energy-balance table) on cores with un-rodded regions
    run.explore('report-ebal', [c_ for c_ in _rep.cases_ebal(run.tier) if 'R' in c_['layout'].split()],
                _rep.run_ebal, budget_s=300)
    run.explore('report-dumps', _rep.cases_dumps(run.tier), _rep.run_dumps_C11, budget_s=300)
    # vacuity
    ex = run.extra
    need = [('states_by_role', 'single'), ('states_by_role', 'inner'), ('states_by_role', 'middle'),
            ('states_by_role', 'outer'), ('sweep_states_by_kind', 'rodded1'),
            ('sweep_states_by_kind', 'rodded2'), ('sweep_states_by_kind', 'rodded3'),
            ('sweep_states_by_kind', 'simple'), ('sweep_states_by_kind', '6node'),
            ('sweep_states_by_kind', 'rodded1@activate'), ('sweep_states_by_kind', '6node@activate')]
    for grp, key in need:
        if not (ex.get(grp) or {}).get(key):
            run.violations.append(dict(violation('vacuous-alphabet', {'group': grp, 'class': key},
                                                 'no state of class %s/%s was evaluated' % (grp, key)),
                                       part='slab' if grp == 'states_by_role' else 'sweep'))
    for key in ('heated_states', 'ordering_cells', 'adiabatic_states', 'sweep_heated_states'):
        if not ex.get(key):
            run.violations.append(dict(violation('vacuous-alphabet', {'class': key},
                                                 'counter %s is zero' % key), part='slab'))
    for name, rs in (('slab', res), ('sweep', res2)):
        w = {}
        for x in rs:
            for k_, v in ((x.get('info') or {}).get('worst_relative_residual') or {}).items():
                w[k_] = max(w.get(k_, 0.0), v)
        run.notes['worst_relative_residual_' + name] = w


def replay(body):
    if str((body.get('scenario') or {}).get('probe', '')).startswith('report-'):
        from . import reports
        return reports.replay(body)
    sc = dict(body['scenario'])
    if sc.get('core'):
        c = {k: sc[k] for k in ('core', 'layout', 'gap_model', 'gapfrac', 'max_steps')}
        r = guarded(run_core, c, 600)
    elif 'sweep' in sc:
        c = {k: sc[k] for k in ('sweep', 'design', 'wall', 'L', 'ftf', 'fine', 'se2', 'coolant') if k in sc}
        r = guarded(run_sweep, c, 600)
    else:
        c = {k: sc[k] for k in ('kind', 'rings', 'k', 't_mm', 'film0', 'tier') if k in sc}
        if 'film' in sc:
            c['only'] = {k: sc[k] for k in ('film', 'temps', 'heat', 'gapform', 'adiabatic')}
        r = guarded(run_case, c, 600)
    for v in r['violations']:
        print('VIOLATION property=C11 replay=(inline) kind=%s %s observed=%s tol=%s'
              % (v['kind'], v['what'], v.get('observed'), v.get('tolerance')))
    print('outcome', r['outcome'], r.get('info'))
    return 1 if r['violations'] else 0
