"""C09  Inter-assembly gap mesh is well-formed for every core layout.

Code under test: `dassh.core.Core.__init__` (map_asm, map_adjacent_assemblies)
and `Core.load` (-> _collect_sc_geom_params, _which_asm_has_finer_mesh,
_map_asm_gap_adjacency, _index_gap_sc, _need_to_count_side/_corner,
_find_side_sc/_corner_sc, _calculate_gap_xbnds, _determine_gap_sc_types,
_find_adjacent_sc, _calculate_sc_wp, _calculate_asm_sc_wp, _calculate_sc_area,
_calculate_dist_between_sc) and `Core.map_assembly_xy`, driven directly with
real `dassh.Assembly` template objects (built once per process from a real
`DASSH_Input` written by vf.scenario; `Core.load` only reads them).

Alphabet
--------
 p7   every non-empty subset of the 7-position core x every assignment of
      assembly types to the occupied positions.  quick: {R3, R2, U}
      (4^7-1 = 16383 layouts), thorough: {R3, R2, R2p, U} (5^7-1 = 78124).
        R3   3 pin rings  -> 2 edge cells per hex side
        R2   2 pin rings  -> 1 edge cell per hex side
        R2p  2 pin rings, smaller pin pitch -> 1 edge cell, other cell sizes
        U    no pin bundle (low-fidelity region) -> corner cells only
 p19  19 positions, every vacancy set of size <= 2 (191) x two fixed type
      patterns (PATTERNS) over all four types.
 p37  37 positions, full core and every single vacancy (38) x the two patterns.
 reactor  the same oracles on the Core the real `dassh.Reactor` constructs
      (`Reactor._setup_core`: position ids, assembly objects, outer flat-to-flat
      and gap flow handed to Core) for 7-position loadings with vacancies in
      front of occupied positions, duct flat-to-flats listed inner- and outer-
      first; thorough adds 19-position loadings.

Conventions taken from the dassh documentation (not from the code paths under
test): assembly ids follow the spiral of `map_assembly_xy` (ring r starts at
(r-1)*pitch on the +x axis and proceeds counter-clockwise in that frame), hex
side s = column s of `asm_adj` faces the neighbour in direction
60, 0, -60, -120, 180, 120 degrees (diagram in `map_adjacent_assemblies`), the
duct perimeter coordinate starts at the leading vertex of side 0 and walks
sides 0..5; the local cells of an assembly are, per side, the edge cells in
walking order followed by the trailing corner.

Reference model (independent geometric construction, `Model`)
-------------------------------------------------------------
Assembly centres on the hexagonal lattice from an own spiral formula (cross-
checked with `map_assembly_xy`).  For every hex side of every assembly the
mesh (n edge cells of length pp, corner half-length dwc = (h - n pp)/2,
h = oftf/sqrt3) is that of the finer of the two assemblies facing the side
(more edge cells; equal count: the smaller pin pitch; no neighbour: own).
Every local cell gets the 2-D point of its midpoint on the gap centre line
(edge cell k of side s: centre + pitch/2 n_s + (-h/2 + dwc + (k+1/2) pp) t_s;
corner: the lattice vertex centre + pitch/sqrt3 u(theta_s - 30deg)).  Points
are keyed by coordinates rounded to 1e-6 m (neighbouring buckets merged; all
distinct midpoints are > 1 mm apart, round-off is < 1e-15 m).  Cells that are
consecutive along one (assembly, side) chain [leading corner, edge cells,
trailing corner] are adjacent.

Oracles on every layout
-----------------------
 neighbour-table      asm_adj[a][s] is the assembly at lattice site(a)+n_s
 cell-identity        Core's (assembly, local index) -> global id is the same
                      equivalence relation as the model's (assembly, local
                      index) -> geometric key (no split, no merged cells),
                      ids are 1..n_sc without holes
 cell-twice           no cell twice around one assembly
 border-count         every cell borders 1..3 assemblies (edge cells 1..2)
 adjacency-*          `_sc_adj` has no self/duplicate entries, is symmetric and
                      coincides with the model adjacency under the bijection
 shared-side-order    along a shared side cell k of a is cell n-1-k of the
                      neighbour, n = finer count
 finer-mesh-choice    `_geom_params` (count, pitch, corner length) per side
                      equal the model's finer mesh
 cell-types           `_sc_types`, `_asm_sc_types` are 1 exactly at corners
 gap-boundaries       `_asm_sc_xbnds` equal the model boundaries
 perimeter-cover      own wetted lengths (recomputed from `_asm_sc_xbnds`) are
                      positive, sum to 6 h per assembly and equal
                      gap_params['asm wp']; a shared edge cell has the same
                      length from both sides
 area-fraction / mfr-proportional / cell-area / total-area
                      area fractions sum to 1, `_sc_mfr` = flow x fraction,
                      every cell area equals the model area, the total equals
                      the closed form
                        A = E h d + (V1/sqrt3 + (V2+V3) sqrt3/4) d^2
                      (E lattice edges with >= 1 occupied end, Vk lattice
                      vertices touched by exactly k assemblies, d = pitch -
                      oftf).  Derivation: the gap region is the union of the
                      hexagons of flat-to-flat oftf+2d around every assembly
                      minus the ducts.  It decomposes into one d-wide strip of
                      length h per lattice edge (between two ducts, or outside
                      a duct that faces a vacancy / the periphery) and one
                      piece per lattice vertex: with the three duct corners A,
                      B, C at distance d/sqrt3 from the vertex the strips end
                      on the sides of the equilateral triangle ABC (side d,
                      area sqrt3/4 d^2) when two or three assemblies touch the
                      vertex; a lone assembly keeps the kite between its duct
                      corner and the corner of its enlarged hexagon
                      (2 x 1/2 x d x d tan30 = d^2/sqrt3).
 centroid-distance    gap_params['L'][i,j] is the distance between the model
                      midpoints of cell i and its j-th neighbour
 area-depends-on-mesh (cross-case) total area identical for all type
                      assignments of one position subset

Tolerances: lengths 1e-13 m absolute (perimeter 0.21 m, <= 20 accumulated
additions of ~1e-2 m terms: <= 20 x 0.2 x eps = 9e-16 m; two decades margin).
Areas / fractions / flow: relative 16 n_sc eps (each cell area is a sum of <= 8
products, totals add n_sc of them: <= ~8 n_sc eps/2 worst case).  Distances
1e-12 m (2-D construction with cos/sin of lattice angles at |x| <= 0.25 m).
"""
import itertools
import math

import numpy as np

from ..run import new_result, violation, site_of, guarded
from .. import scenario as S

SQ3 = math.sqrt(3.0)
EPS = float(np.finfo(float).eps)
OFTF = 0.06
PITCH = 0.064
DGAP = PITCH - OFTF
HSIDE = OFTF / SQ3
GAP_FLOW = 0.1
TOL_LEN = 1e-13
TOL_DIST = 1e-12
QUANT = 1e-6
TYPES_QUICK = ('R3', 'R2', 'U')
TYPES_ALL = ('R3', 'R2', 'R2p', 'U')
# a fifth type outside the full products: two rings of small pins in a thick-walled duct (FEWER edge cells per side
# than R3 and a SMALLER pin pitch)
TYPE_R2T = 'R2t'
# hex side s faces direction ANG[s] (degrees); lattice step in axial coords
ANG = (60.0, 0.0, -60.0, -120.0, 180.0, 120.0)
STEP = ((0, 1), (1, 0), (1, -1), (0, -1), (-1, 0), (-1, 1))
# spiral: ring k starts at (k, 0) and walks k steps in each of these directions
SPIRAL = ((-1, 1), (-1, 0), (0, -1), (1, -1), (1, 0), (0, 1))
# two fixed type patterns for the 19/37-position families (p = position index)
PATTERNS = {'A': lambda p: TYPES_ALL[(p * 5 + p // 4) % 4],
            'B': lambda p: TYPES_ALL[(p * p + p // 3 + 1) % 4]}


def _unit(deg):
    a = math.radians(deg)
    return (math.cos(a), math.sin(a))


NORMAL = [_unit(a) for a in ANG]
TANGENT = [_unit(a - 90.0) for a in ANG]      # walking direction along side s
VERTEX = [_unit(a - 30.0) for a in ANG]       # trailing vertex of side s


# ----------------------------------------------------------------------
# real template assemblies
_CACHE = {}


def _templates():
    """four real dassh.Assembly objects (one per type) built from one real
    DASSH_Input, their side meshes, and the coolant Material"""
    if 'tpl' in _CACHE:
        return _CACHE['tpl']
    T = {'R3': S.design(3, oftf=OFTF),
         'R2': S.design(2, oftf=OFTF),
         'R2p': S.design(2, oftf=OFTF, pd=1.08, clearance='loose'),
         'U': S.design(2, oftf=OFTF, lowfi={'model': 'simple'}),
         'R2t': S.design(2, oftf=OFTF, duct_t=0.014)}
    assert T['R2t']['pin_pitch'] < T['R3']['pin_pitch'], 'harness: R2t must have the smaller pin pitch'
    assign, pw = [], {}
    for nm, (rg, p) in zip(TYPES_ALL + (TYPE_R2T,), S.core_positions(2)):
        assign.append([nm, rg, p, {'flowrate': 2.0}])
        pw[str(S.asm_id(rg, p) + 1)] = {'rings': T[nm]['num_rings'], 'nduct': 1,
                                        'cells': [0.0, 0.4], 'q': 800.0,
                                        'pins': 'uniform'}
    scn = {'setup': {},
           'core': {'inlet': 623.15, 'length': 0.4, 'pitch': PITCH,
                    'gap_model': 'flow', 'coolant': 'sodium_se2anl_425',
                    'bypass_fraction': 0.05},
           'types': T, 'assign': assign, 'power': {'asm': pw}}
    import dassh
    tpl = {}
    with S.Built(scn) as b:
        inp = b.inp()             # real input parsing; no Reactor, so that a
        for nm in TYPES_ALL + (TYPE_R2T,):      # defect in Core cannot break the templates
            mat = {'coolant': dassh.Material('sodium_se2anl_425'),
                   'duct': dassh.Material('ht9_se2anl_425')}
            tpl[nm] = dassh.assembly.Assembly(nm, (1, 0), inp.data['Assembly'][nm],
                                              mat, 623.15, 2.0)
    mesh = {}
    for nm, asm in tpl.items():
        if asm.has_rodded:
            n = int(asm.rodded.n_ring) - 1
            pp = float(asm.rodded.pin_pitch)
            dwc = 0.5 * (HSIDE - n * pp)       # own formula: symmetric closure
            # precondition on the templates: the duct mesh of the region closes
            assert abs(float(asm.rodded.d['wcorner'][-1, -1]) - dwc) < 1e-15
        else:
            n, pp, dwc = 0, 0.0, 0.5 * HSIDE
        assert abs(float(asm.duct_oftf) - OFTF) < 1e-15
        mesh[nm] = (n, pp, dwc)
    assert mesh['R3'][0] == 2 and mesh['R2'][0] == 1 and mesh['R2p'][0] == 1
    assert mesh['R2p'][1] < mesh['R2'][1]
    _CACHE['tpl'] = (tpl, mesh, dassh.Material('sodium_se2anl_425'))
    return _CACHE['tpl']


# ----------------------------------------------------------------------
# lattice
def lattice_sites(npos):
    """axial lattice coordinates of the spiral positions 0..npos-1"""
    out = [(0, 0)]
    k = 1
    while len(out) < npos:
        i, j = k, 0
        for di, dj in SPIRAL:
            for _ in range(k):
                out.append((i, j))
                i, j = i + di, j + dj
        k += 1
    assert len(out) == npos
    return out


def site_xy(ij):
    return (PITCH * (ij[0] + 0.5 * ij[1]), PITCH * (0.5 * SQ3 * ij[1]))


class Buckets(object):
    """points keyed by coordinates rounded to QUANT; a point that falls into a
    bucket next to an existing key is the same entity"""

    def __init__(self):
        self.d = {}
        self.pts = []

    def key(self, x, y):
        bx, by = int(round(x / QUANT)), int(round(y / QUANT))
        for dx in (0, -1, 1):
            for dy in (0, -1, 1):
                k = self.d.get((bx + dx, by + dy))
                if k is not None:
                    return k
        k = len(self.pts)
        self.d[(bx, by)] = k
        self.pts.append((x, y))
        return k


def finer(ma, mb):
    """the finer of two side meshes (n, pp, dwc): more edge cells; equal count:
    smaller pin pitch"""
    if mb is None:
        return ma
    if ma[0] != mb[0]:
        return ma if ma[0] > mb[0] else mb
    return ma if ma[1] < mb[1] else mb


class Model(object):
    """independent geometric construction for one layout"""

    def __init__(self, npos, types, mesh):
        # types: list of type name or None per spiral position
        self.sites = lattice_sites(npos)
        occ = [p for p in range(npos) if types[p] is not None]
        self.occ = occ
        self.n_asm = len(occ)
        self.ij = [self.sites[p] for p in occ]
        self.xy = [site_xy(s) for s in self.ij]
        self.tname = [types[p] for p in occ]
        at = dict((s, a) for a, s in enumerate(self.ij))
        self.nbr = [[at.get((s[0] + di, s[1] + dj), -1) for di, dj in STEP]
                    for s in self.ij]
        # side meshes
        self.mesh = []
        for a in range(self.n_asm):
            row = []
            for s in range(6):
                b = self.nbr[a][s]
                row.append(finer(mesh[self.tname[a]],
                                 mesh[self.tname[b]] if b >= 0 else None))
            self.mesh.append(row)
        # entities
        B = Buckets()
        self.keys = []        # per assembly: entity key per local cell
        self.xb = []          # per assembly: lower boundary per local cell
        self.side_edges = []  # per assembly, per side: keys of the edge cells
        self.corner = []      # per assembly, per side: key of trailing corner
        for a in range(self.n_asm):
            cx, cy = self.xy[a]
            ks, xs, se, co = [], [], [], []
            for s in range(6):
                n, pp, dwc = self.mesh[a][s]
                mx = cx + 0.5 * PITCH * NORMAL[s][0]
                my = cy + 0.5 * PITCH * NORMAL[s][1]
                ed = []
                for k in range(n):
                    t = -0.5 * HSIDE + dwc + (k + 0.5) * pp
                    ed.append(B.key(mx + t * TANGENT[s][0], my + t * TANGENT[s][1]))
                    xs.append(s * HSIDE + dwc + k * pp)
                c = B.key(cx + PITCH / SQ3 * VERTEX[s][0], cy + PITCH / SQ3 * VERTEX[s][1])
                xs.append(s * HSIDE + dwc + n * pp)
                ks.extend(ed)
                ks.append(c)
                se.append(ed)
                co.append(c)
            self.keys.append(ks)
            self.xb.append(xs)
            self.side_edges.append(se)
            self.corner.append(co)
        self.pts = B.pts
        self.n_ent = len(B.pts)
        # membership, kinds, model areas, adjacency
        self.members = [[] for _ in range(self.n_ent)]
        self.is_corner = [None] * self.n_ent
        area = [0.0] * self.n_ent
        adj = [set() for _ in range(self.n_ent)]
        self.kind_clash = []
        for a in range(self.n_asm):
            loc = 0
            for s in range(6):
                n, pp, dwc = self.mesh[a][s]
                width = 0.5 * DGAP if self.nbr[a][s] >= 0 else DGAP
                chain = [self.corner[a][s - 1]] + self.side_edges[a][s] + [self.corner[a][s]]
                for u, v in zip(chain[:-1], chain[1:]):
                    adj[u].add(v)
                    adj[v].add(u)
                for k in self.side_edges[a][s]:
                    self._mark(k, False, a, loc)
                    area[k] += pp * width
                    loc += 1
                self._mark(self.corner[a][s], True, a, loc)
                loc += 1
                # the two corner halves on this side
                area[self.corner[a][s - 1]] += dwc * width
                area[self.corner[a][s]] += (HSIDE - dwc - n * pp) * width
        for k in range(self.n_ent):
            if self.is_corner[k]:
                nb = len(self.members[k])
                area[k] += DGAP ** 2 * (SQ3 / 4.0 if nb >= 2 else 1.0 / SQ3)
        self.area = area
        self.adj = adj
        # closed-form total from lattice counts only
        edges = set()
        verts = {}
        for a, (i, j) in enumerate(self.ij):
            for s in range(6):
                di, dj = STEP[s]
                edges.add((2 * i + di, 2 * j + dj))          # twice the edge midpoint
                d2 = STEP[(s + 1) % 6]
                v = (3 * i + di + d2[0], 3 * j + dj + d2[1])  # three times the vertex
                verts[v] = verts.get(v, 0) + 1
        self.n_edges = len(edges)
        self.vk = [sum(1 for x in verts.values() if x == k) for k in (1, 2, 3)]
        assert sum(self.vk) == len(verts)
        self.total_area = (self.n_edges * HSIDE * DGAP
                           + (self.vk[0] / SQ3 + (self.vk[1] + self.vk[2]) * SQ3 / 4.0)
                           * DGAP ** 2)

    def _mark(self, k, corner, a, loc):
        if self.is_corner[k] is None:
            self.is_corner[k] = corner
        elif self.is_corner[k] != corner:
            self.kind_clash.append(k)
        self.members[k].append((a, loc))


# ----------------------------------------------------------------------
def _reactor_for(types, ftf=None, swept=False):
    """real Reactor for a 7/19-position loading of the template types (2 kg/s each, gap flow 5 %)"""
    T = {'R3': S.design(3, oftf=OFTF), 'R2': S.design(2, oftf=OFTF),
         'R2p': S.design(2, oftf=OFTF, pd=1.08, clearance='loose'),
         'U': S.design(2, oftf=OFTF, lowfi={'model': 'simple'})}
    if ftf == 'outer-first':      # the order of the two flat-to-flat values of a duct is free
        for d in T.values():
            f = list(d['duct_ftf'])
            d['duct_ftf'] = [f[i + 1 - 2 * (i % 2)] for i in range(len(f))]
    nring = 2 if len(types) == 7 else 3
    assign, pw = [], {}
    for t, (rg, p) in zip(types, S.core_positions(nring)):
        if t is None:
            continue
        assign.append([t, rg, p, {'flowrate': 2.0}])
        pw[str(S.asm_id(rg, p) + 1)] = {'rings': T[t]['num_rings'], 'nduct': 1, 'cells': [0.0, 0.4],
                                        'q': 800.0, 'pins': 'uniform'}
    used = sorted(set(t for t in types if t))
    scn = {'setup': {'calc_energy_balance': True} if swept else {},
           'core': {'inlet': 623.15, 'length': 0.4, 'pitch': PITCH, 'gap_model': 'flow',
                                 'coolant': 'sodium_se2anl_425', 'bypass_fraction': 0.05},
           'types': {t: T[t] for t in used}, 'assign': assign, 'power': {'asm': pw}}
    with S.Built(scn) as b:
        if not swept:
            return b.reactor()
        # the whole run of a user: sweep, tally of the energy balance, output tables written; the gap mesh read
        # afterwards is still the one the Core was loaded with
        rx = b.reactor(write_output=True)
        rx.temperature_sweep()
        rx.postprocess()
        return rx


def reactor_cases(tier):
    """loadings built through the real Reactor: every occupancy pattern of the 7 positions in which the
    highest ring holds an assembly (DASSH sizes the core from it) x a fixed type rotation, listed inner-
    and outer-first; thorough adds a second type rotation and 19-position loadings with <= 2 vacancies"""
    out = []
    rots = [('R3', 'R2', 'U')] if tier == 'quick' else [('R3', 'R2', 'U'), ('U', 'R2p', 'R3', 'R2')]
    for rot in rots:
        for mask in range(2, 128):
            if not (mask >> 1):
                continue
            names = [rot[(p + bin(mask).count('1')) % len(rot)] if (mask >> p) & 1 else '-' for p in range(7)]
            if tier == 'quick' and bin(mask).count('1') not in (2, 3, 5, 6, 7):
                continue
            for ftf in (None, 'outer-first'):
                if ftf and tier == 'quick' and mask % 3:
                    continue
                c = _case('reactor', names)
                c['via'] = 'reactor'
                c['ftf'] = ftf
                out.append(c)
                if ftf is None and rot == rots[0] and (tier != 'quick' or mask % 4 == 2):
                    out.append(dict(c, swept=True))
    if tier != 'quick':
        for pat in sorted(PATTERNS):
            base = [PATTERNS[pat](p) for p in range(19)]
            for nv in range(3):
                for vac in itertools.combinations(range(0, 19, 3), nv):
                    names = list(base)
                    for p in vac:
                        names[p] = '-'
                    c = _case('reactor', names)
                    c['via'] = 'reactor'
                    c['ftf'] = None
                    out.append(c)
    return out


def parse_layout(c):
    names = c['layout'].split()
    return [None if x == '-' else x for x in names]


def run_case(c):
    from dassh.core import Core
    r = new_result()
    V = r['violations']
    tpl, mesh, cool = _templates()
    types = parse_layout(c)
    npos = len(types)

    def bad(kind, what, obs=None, exp=None, tol=None, site=None):
        V.append(violation(kind, c, what, obs, exp, tol, site=site))

    M = Model(npos, types, mesh)
    # the model's own consistency (harness assertion, not a dassh statement)
    assert not M.kind_clash
    assert abs(sum(M.area) - M.total_area) <= 16 * M.n_ent * EPS * M.total_area
    asm_list = np.array([float(p) if types[p] is not None else np.nan
                         for p in range(npos)])
    gap_flow = float(c.get('gap_flow') or GAP_FLOW)
    try:
        if c.get('via') == 'reactor':
            # the Core the real Reactor constructs for this loading (Reactor._setup_core: position ids,
            # assembly objects, outer flat-to-flat and gap flow handed to Core)
            rx = _reactor_for(types, c.get('ftf'), c.get('swept', False))
            core = rx.core
            gap_flow = float(core.gap_flow_rate)
            want = 0.05 / 0.95 * 2.0 * M.n_asm
            if abs(gap_flow - want) > 1e-12 * want:
                bad('gap-flow', 'gap flow rate of the Reactor\'s Core is not bypass_fraction x total flow',
                    gap_flow, want, 1e-12 * want, site='reactor.py:_setup_core')
            r['transitions'] += 2
        else:
            core = Core(asm_list, PITCH, gap_flow, cool, inlet_temperature=623.15,
                        model='flow')
            r['transitions'] += 1
            core.load([tpl[t] for t in M.tname])
            r['transitions'] += 1
            if c.get('then'):
                # another Core, of another loading, built and loaded afterwards in this process: everything checked
                # below is read from the FIRST one (what a Core keeps must be its own)
                ty2 = [None if x == '-' else x for x in c['then'].split()]
                al2 = np.array([float(p) if ty2[p] is not None else np.nan for p in range(len(ty2))])
                core2 = Core(al2, PITCH, 3.0 * gap_flow, cool, inlet_temperature=623.15, model='flow')
                core2.load([tpl[t] for t in ty2 if t is not None])
                r['transitions'] += 2
    except (Exception, SystemExit) as e:
        bad('load-exception', 'Core()/Core.load raised %s: %s'
            % (type(e).__name__, str(e)[:200]), site=site_of(e))
        r['outcome'] = 'load-exception'
        r['nontrivial'] = True
        return r
    r['traces'] = 1
    r['nontrivial'] = True
    n_asm = M.n_asm
    cls = {}
    if c.get('via') == 'reactor':
        # the duct <-> gap hand-off the sweep uses is built for THIS assembly's gap cells: exactly its
        # cells are covered (arrays are padded to the largest cell count of the core)
        for ai, a in enumerate(rx.assemblies):
            ng = int(np.sum(np.asarray(core._asm_sc_adj[ai]) > 0))
            for reg in a.region:
                d2g = np.asarray(reg._map['duct2gap'], dtype=float)
                g2d = np.asarray(reg._map['gap2duct'], dtype=float)
                okk = (d2g.shape[0] >= ng and g2d.shape[1] >= ng
                       and np.all(np.abs(d2g[:ng].sum(axis=1) - 1.0) < 1e-12) and not np.any(d2g[ng:])
                       and not np.any(g2d[:, ng:]) and np.all(g2d[:, :ng].max(axis=0) > 0.0)
                       and np.all(np.abs(g2d.sum(axis=1) - 1.0) < 1e-12))
                if not okk:
                    bad('sweep-map-cover', 'duct<->gap maps of assembly %d (%s) do not cover exactly its %d gap cells '
                        '(rows of duct2gap summing to one: %d, gap columns used by gap2duct: %d)'
                        % (ai, a.name, ng, int(np.sum(np.abs(d2g.sum(axis=1) - 1.0) < 1e-12)),
                           int(np.sum(g2d.max(axis=0) > 0.0))), site='reactor.py:_setup_gap_mesh_params')
                    break

    # ---- neighbour table and centres -------------------------------
    adj_ok = (core.asm_adj.shape == (n_asm, 6)
              and all(int(core.asm_adj[a][s]) - 1 == M.nbr[a][s]
                      for a in range(n_asm) for s in range(6)))
    if not adj_ok:
        bad('neighbour-table', 'asm_adj differs from the lattice neighbours (side s faces %s deg)'
            % (ANG,), core.asm_adj.tolist(), [[b + 1 for b in row] for row in M.nbr],
            site='core.py:map_adjacent_assemblies')
    try:
        xy = core.map_assembly_xy()
        r['transitions'] += 1
        dxy = float(np.max(np.abs(np.asarray(xy) - np.asarray(M.xy)))) \
            if np.shape(xy) == (n_asm, 2) else float('inf')
        if dxy > TOL_DIST:
            bad('assembly-xy', 'map_assembly_xy differs from the lattice positions of the assemblies '
                '(centre position %s)' % ('vacant' if types[0] is None else 'occupied'),
                np.asarray(xy).tolist()[:4], [list(p) for p in M.xy[:4]], TOL_DIST,
                site='core.py:map_assembly_xy')
    except Exception as e:
        bad('assembly-xy-exception', 'map_assembly_xy raised %s: %s (centre position %s)'
            % (type(e).__name__, str(e)[:120], 'vacant' if types[0] is None else 'occupied'),
            site=site_of(e))

    # ---- shapes ------------------------------------------------------
    A = np.asarray(core._asm_sc_adj)
    n_sc = int(core.n_sc)
    nloc = [len(k) for k in M.keys]
    if A.shape[0] != n_asm or A.ndim != 2:
        bad('shape', '_asm_sc_adj rows', list(A.shape), n_asm)
        r['outcome'] = 'violation:shape'
        return r
    rows = []
    for a in range(n_asm):
        nz = np.nonzero(A[a])[0]
        if len(nz) != nloc[a] or (len(nz) and nz[-1] != len(nz) - 1):
            bad('local-count', 'assembly %d (%s) lists %d gap cells, model %d'
                % (a, M.tname[a], len(nz), nloc[a]), len(nz), nloc[a],
                site='core.py:_map_asm_gap_adjacency')
        rows.append([int(x) for x in A[a][:len(nz)]])
    if V and any(v['kind'] == 'local-count' for v in V):
        r['outcome'] = 'violation:local-count'
        return r
    if list(np.asarray(core._n_sc_per_asm)) != nloc:
        bad('shape', '_n_sc_per_asm', np.asarray(core._n_sc_per_asm).tolist(), nloc)

    # ---- identity of cells: same equivalence relation ----------------
    g2k, k2g = {}, {}
    split, merged = [], []
    for a in range(n_asm):
        if len(set(rows[a])) != len(rows[a]):
            bad('cell-twice', 'a gap cell appears twice around assembly %d' % a, rows[a],
                site='core.py:_index_gap_sc')
        for loc, (g, k) in enumerate(zip(rows[a], M.keys[a])):
            if g2k.setdefault(g, k) != k:
                merged.append((a, loc, g))
            if k2g.setdefault(k, g) != g:
                split.append((a, loc, g, k2g[k]))
    if merged:
        a, loc, g = merged[0]
        bad('cell-identity-merged', 'global cell %d is used for geometrically different cells '
            '(e.g. assembly %d local %d at %s and another at %s); %d such entries'
            % (g, a, loc, _pt(M, M.keys[a][loc]), _pt(M, g2k[g]), len(merged)),
            merged[:4], [], site='core.py:_index_gap_sc')
    if split:
        a, loc, g, g0 = split[0]
        bad('cell-identity-split', 'one geometric cell (%s, seen from assembly %d local %d) has two '
            'global ids %d and %d; %d such entries' % (_pt(M, M.keys[a][loc]), a, loc, g0, g, len(split)),
            split[:4], [], site='core.py:_index_gap_sc')
    if sorted(g2k) != list(range(1, n_sc + 1)):
        bad('cell-ids', 'global ids are not 1..n_sc', [min(g2k), max(g2k), len(g2k)], [1, n_sc, n_sc])
    if merged or split or len(g2k) != M.n_ent or sorted(g2k) != list(range(1, n_sc + 1)):
        if not (merged or split):
            bad('cell-count', 'number of gap cells', len(g2k), M.n_ent)
        r['outcome'] = 'violation:' + V[-1]['kind']
        r['states'] = len(g2k)
        return r
    r['states'] = n_sc
    key_of = [g2k[g + 1] for g in range(n_sc)]          # 0-based id -> entity

    # ---- border count --------------------------------------------------
    cnt = np.zeros(n_sc, dtype=int)
    for a in range(n_asm):
        for g in rows[a]:
            cnt[g - 1] += 1
    for g in range(n_sc):
        k = key_of[g]
        hi = 3 if M.is_corner[k] else 2
        if not (1 <= cnt[g] <= hi) or cnt[g] != len(M.members[k]):
            bad('border-count', 'cell %d borders %d assemblies (model %d, allowed 1..%d)'
                % (g + 1, cnt[g], len(M.members[k]), hi), int(cnt[g]), len(M.members[k]))
            break

    # ---- types ---------------------------------------------------------
    st = np.asarray(core._sc_types)
    if st.shape != (n_sc,) or any(int(st[g]) != int(M.is_corner[key_of[g]]) for g in range(n_sc)):
        bad('cell-types', '_sc_types is not 1 exactly at the corner cells',
            st.tolist()[:24], [int(M.is_corner[key_of[g]]) for g in range(min(n_sc, 24))],
            site='core.py:_determine_gap_sc_types')
    for a in range(n_asm):
        want = [int(M.is_corner[k]) for k in M.keys[a]]
        got = [int(x) for x in np.asarray(core._asm_sc_types[a]).tolist()]
        if got != want:
            bad('cell-types', '_asm_sc_types[%d] is not 1 exactly at the corner cells' % a,
                got, want, site='core.py:_determine_gap_sc_types')
            break

    # ---- adjacency -------------------------------------------------------
    SA = np.asarray(core._sc_adj)
    if SA.shape != (n_sc, 3):
        bad('shape', '_sc_adj shape', list(SA.shape), [n_sc, 3])
    else:
        nb = []
        for g in range(n_sc):
            lst = [int(x) for x in SA[g] if x != 0]
            if len(set(lst)) != len(lst) or (g + 1) in lst or any(x < 1 or x > n_sc for x in lst):
                bad('adjacency-self-or-duplicate', 'row %d of _sc_adj has a self, duplicate or '
                    'out-of-range entry' % g, lst, site='core.py:_find_adjacent_sc')
            nb.append(set(x - 1 for x in lst if 1 <= x <= n_sc))
        asym = [(i + 1, j + 1) for i in range(n_sc) for j in sorted(nb[i]) if i not in nb[j]]
        if asym:
            bad('adjacency-asymmetric', 'cell i lists j but j does not list i (%d pairs)' % len(asym),
                asym[:6], [], site='core.py:_find_adjacent_sc')
        ent2g = dict((k, g) for g, k in enumerate(key_of))
        wrong = []
        for g in range(n_sc):
            want = set(ent2g[k] for k in M.adj[key_of[g]])
            r['transitions'] += len(want)
            if want != nb[g]:
                wrong.append((g + 1, sorted(x + 1 for x in nb[g]), sorted(x + 1 for x in want)))
        if wrong:
            g, got, want = wrong[0]
            bad('adjacency-mismatch', 'neighbours of cell %d (%s at %s) differ from the geometric '
                'adjacency; %d cells differ' % (g, 'corner' if M.is_corner[key_of[g - 1]] else 'edge',
                                                _pt(M, key_of[g - 1]), len(wrong)),
                got, want, site='core.py:_find_adjacent_sc')
        # centroid distances
        L = np.asarray(core.gap_params['L'])
        worst = None
        for g in range(n_sc):
            x0, y0 = M.pts[key_of[g]]
            for j in range(3):
                h = int(SA[g, j]) - 1
                if h < 0:
                    want = 0.0
                elif 0 <= h < n_sc:
                    x1, y1 = M.pts[key_of[h]]
                    want = math.hypot(x1 - x0, y1 - y0)
                else:
                    continue
                e = abs(float(L[g, j]) - want)
                if e > TOL_DIST and (worst is None or e > worst[0]):
                    worst = (e, g, j, float(L[g, j]), want)
        if worst and not wrong and not asym:
            e, g, j, got, want = worst
            bad('centroid-distance', "gap_params['L'][%d,%d] (%s cell -> cell %d) is not the distance "
                'between the cell midpoints' % (g, j, 'corner' if M.is_corner[key_of[g]] else 'edge',
                                                int(SA[g, j])), got, want, TOL_DIST,
                site='core.py:_calculate_dist_between_sc')

    # ---- shared sides: finer mesh, opposite direction -------------------
    GP = core._geom_params
    for a in range(n_asm):
        off = 0
        for s in range(6):
            n, pp, dwc = M.mesh[a][s]
            gn = int(GP['sc_per_side'][a][s])
            gpp, gdwc = (float(x) for x in GP['dims'][a][s])
            b = M.nbr[a][s]
            if gn != n or abs(gpp - pp) > 1e-15 or abs(gdwc - dwc) > 1e-15:
                bad('finer-mesh-choice', 'side %d of assembly %d (%s, neighbour %s): mesh (cells, pitch, '
                    'corner half) is not that of the finer assembly'
                    % (s, a, M.tname[a], M.tname[b] if b >= 0 else 'none'),
                    [gn, gpp, gdwc], [n, pp, dwc], 1e-15, site='core.py:_which_asm_has_finer_mesh')
            if b > a:
                mine = rows[a][off:off + n]
                offb = sum(M.mesh[b][t][0] + 1 for t in range((s + 3) % 6))
                theirs = rows[b][offb:offb + M.mesh[b][(s + 3) % 6][0]]
                if mine != theirs[::-1]:
                    bad('shared-side-order', 'side %d of assembly %d and side %d of assembly %d: cell k '
                        'is not cell n-1-k of the neighbour' % (s, a, (s + 3) % 6, b),
                        [mine, theirs], site='core.py:_find_side_sc')
                t1, t2 = M.tname[a], M.tname[b]
                cls['pair:' + '/'.join(sorted((t1, t2)))] = 1
            off += n + 1

    # ---- boundaries and wetted lengths ------------------------------------
    XB = np.asarray(core._asm_sc_xbnds)
    AW = np.asarray(core.gap_params['asm wp'])
    hexp = 6.0 * OFTF / SQ3
    wl = []
    for a in range(n_asm):
        xb = XB[a][:nloc[a]]
        if XB.shape != A.shape or np.any(XB[a][nloc[a]:] != 0.0):
            bad('shape', '_asm_sc_xbnds padding / shape', list(XB.shape), list(A.shape))
        e = float(np.max(np.abs(xb - np.asarray(M.xb[a]))))
        if e > TOL_LEN:
            i = int(np.argmax(np.abs(xb - np.asarray(M.xb[a]))))
            bad('gap-boundaries', 'boundary %d of assembly %d (%s) is not at the finer-mesh position'
                % (i, a, M.tname[a]), float(xb[i]), M.xb[a][i], TOL_LEN,
                site='core.py:_calculate_gap_xbnds')
        w = np.empty(nloc[a])
        w[:-1] = xb[1:] - xb[:-1]
        w[-1] = hexp - xb[-1] + xb[0]
        wl.append(w)
        if np.any(w <= 0.0):
            bad('perimeter-cover', 'non-positive wetted length around assembly %d' % a,
                float(w.min()), '> 0', site='core.py:_calculate_gap_xbnds')
        if abs(float(w.sum()) - hexp) > TOL_LEN:
            bad('perimeter-cover', 'wetted lengths around assembly %d do not sum to the hexagon '
                'perimeter' % a, float(w.sum()), hexp, TOL_LEN, site='core.py:_calculate_gap_xbnds')
        if AW.shape != A.shape or float(np.max(np.abs(AW[a][:nloc[a]] - w))) > TOL_LEN \
                or np.any(AW[a][nloc[a]:] != 0.0) or abs(float(AW[a].sum()) - hexp) > TOL_LEN:
            bad('perimeter-cover', "gap_params['asm wp'][%d] differs from the lengths between the "
                'published boundaries' % a, AW[a][:nloc[a]].tolist()[:8], w.tolist()[:8], TOL_LEN,
                site='core.py:_calculate_asm_sc_wp')
    for k in range(M.n_ent):
        if not M.is_corner[k] and len(M.members[k]) == 2:
            (a, i), (b, j) = M.members[k]
            if abs(wl[a][i] - wl[b][j]) > TOL_LEN:
                bad('shared-cell-length', 'edge cell %d has different lengths on its two assemblies '
                    '%d and %d' % (k2g[k], a, b), float(wl[a][i]), float(wl[b][j]), TOL_LEN,
                    site='core.py:_calculate_gap_xbnds')
                break

    # ---- areas and flow split -----------------------------------------------
    ar = np.asarray(core.gap_params['area'], dtype=float)
    tol_a = 16 * n_sc * EPS
    tot = float(np.sum(ar))
    if ar.shape != (n_sc,) or not np.all(np.isfinite(ar)) or np.any(ar <= 0.0):
        bad('cell-area', 'areas not finite and positive', ar.tolist()[:8],
            site='core.py:_calculate_sc_area')
    else:
        fr = np.asarray(core.gap_params['area frac'], dtype=float)
        if abs(float(fr.sum()) - 1.0) > tol_a or float(np.max(np.abs(fr * tot / ar - 1.0))) > tol_a:
            bad('area-fraction', 'area fractions do not sum to one / are not area over total',
                float(fr.sum()), 1.0, tol_a, site='core.py:load')
        mf = np.asarray(core._sc_mfr, dtype=float)
        e = float(np.max(np.abs(mf / gap_flow * tot / ar - 1.0)))
        if e > tol_a or abs(float(mf.sum()) / gap_flow - 1.0) > tol_a:
            bad('mfr-proportional', '_sc_mfr is not gap flow x area / total area', e, 0.0, tol_a,
                site='core.py:load')
        ma = np.array([M.area[key_of[g]] for g in range(n_sc)])
        rel = np.abs(ar / ma - 1.0)
        if float(rel.max()) > tol_a:
            g = int(np.argmax(rel))
            k = key_of[g]
            bad('cell-area', 'area of %s cell %d (bordering %d assemblies) differs from strip length x '
                'width + corner piece; %d cells differ'
                % ('corner' if M.is_corner[k] else 'edge', g + 1, len(M.members[k]),
                   int(np.sum(rel > tol_a))), float(ar[g]), float(ma[g]), tol_a,
                site='core.py:_calculate_sc_area')
        gt = float(core.gap_params['total area'])
        if abs(gt / M.total_area - 1.0) > tol_a or abs(tot / gt - 1.0) > tol_a:
            bad('total-area', 'total gap area differs from E h d + (V1/sqrt3 + (V2+V3) sqrt3/4) d^2 '
                'with E=%d, V=%s' % (M.n_edges, M.vk), gt, M.total_area, tol_a,
                site='core.py:_calculate_sc_area')

    # ---- bookkeeping ----------------------------------------------------------
    for k in range(M.n_ent):
        if M.is_corner[k]:
            cls['corner-%d' % len(M.members[k])] = 1
        else:
            cls['edge-%d' % len(M.members[k])] = 1
    for a in range(n_asm):
        for s in range(6):
            b = M.nbr[a][s]
            if b >= 0 and M.mesh[a][s] != mesh[M.tname[a]]:
                cls['side-takes-neighbour-mesh'] = 1
                if M.mesh[a][s][0] == mesh[M.tname[a]][0]:
                    cls['side-tie-smaller-pitch'] = 1
    if types[0] is None:
        cls['centre-vacant'] = 1
    if len(set(M.tname)) > 1:
        cls['mixed-types'] = 1
    r['extra'] = {'class': cls, 'cells': n_sc, 'assemblies': n_asm}
    r['info'] = {'n_asm': n_asm, 'n_sc': n_sc, 'area': float(core.gap_params['total area']),
                 'model_area': M.total_area, 'E': M.n_edges, 'V': M.vk}
    if V:
        r['outcome'] = 'violation:' + V[0]['kind']
    return r


def _pt(M, k):
    return '(%.5f, %.5f)' % M.pts[k]


# ----------------------------------------------------------------------
def _case(part, names):
    mask = sum(1 << p for p, x in enumerate(names) if x != '-')
    return {'part': part, 'npos': len(names), 'layout': ' '.join(names), 'mask': mask,
            'n_asm': sum(1 for x in names if x != '-'),
            'centre': 'vacant' if names[0] == '-' else 'occupied'}


def p7_cases(tier):
    ty = TYPES_QUICK if tier == 'quick' else TYPES_ALL
    out = []
    for mask in range(1, 128):
        occ = [p for p in range(7) if (mask >> p) & 1]
        for combo in itertools.product(ty, repeat=len(occ)):
            names = ['-'] * 7
            for p, t in zip(occ, combo):
                names[p] = t
            out.append(_case('p7', names))
    assert len(out) == (len(ty) + 1) ** 7 - 1
    # the thick-walled two-ring type next to the three-ring one: every 7-position layout over {-, R3, R2t} with at
    # least one R2t
    for combo in itertools.product(('-', 'R3', TYPE_R2T), repeat=7):
        if TYPE_R2T in combo:
            out.append(_case('p7', list(combo)))
    return out


def big_cases(npos, max_vac):
    out = []
    for pat in sorted(PATTERNS):
        base = [PATTERNS[pat](p) for p in range(npos)]
        for nv in range(max_vac + 1):
            for vac in itertools.combinations(range(npos), nv):
                names = list(base)
                for p in vac:
                    names[p] = '-'
                c = _case('p%d' % npos, names)
                c['pattern'] = pat
                c['vacant'] = ','.join(str(p) for p in vac)
                out.append(c)
    return out


def main(run):
    run.rule = ('p7: every non-empty subset of the 7 positions x every assignment of the tier\'s type set '
                'to the occupied positions ((k+1)^7-1 layouts, k = 3 quick / 4 thorough); p19: every '
                'vacancy set of size <= 2 x two fixed type patterns; p37: full core and every single '
                'vacancy x the two patterns.  Every layout is a distinct case (layout string); it is '
                'non-trivial when the real Core was constructed and loaded and compared with the model.')
    run.assumptions = [
        'reference model (lattice positions, side meshes, cell midpoints, adjacency, areas) written '
        'independently of dassh.core; conventions (spiral numbering as in map_assembly_xy, side s of '
        'asm_adj faces 60,0,-60,-120,180,120 deg, perimeter coordinate starts at side 0) taken from the '
        'dassh docstrings',
        'finer mesh = more edge cells, at equal count the smaller pin pitch',
        'gap region = union of hexagons of flat-to-flat oftf + 2 d_gap round the assemblies minus the '
        'ducts (a duct facing a vacancy or the periphery keeps a full-width strip)',
        'Core.load is driven with real dassh.Assembly template objects built once from a real DASSH_Input; '
        'the same object stands at several positions (load only reads has_rodded, rodded.n_ring, '
        'rodded.pin_pitch, rodded.d[wcorner], duct_oftf); all types share oftf 60 mm, pitch 64 mm',
    ]
    _templates()                       # build once in the parent; workers inherit by fork
    c7 = p7_cases(run.tier)
    c19 = big_cases(19, 2)
    c37 = big_cases(37, 1)
    run.check_determinism(run_case, c7[len(c7) // 2])
    res7 = run.explore('p7', c7, run_case, budget_s=60, chunksize=64)
    run.explore('reactor', reactor_cases(run.tier), run_case, budget_s=120, chunksize=4)
    # an almost stagnant gap (2e-5 kg/s: microgram-per-second cells): the flow is still split in proportion
    # to the cell areas and sums to the gap flow; every fully occupied 7-position loading
    low = [dict(x, part='p7low', gap_flow=2.0e-5) for x in c7 if x['n_asm'] == 7]
    # and a thousand times less (cells of 1e-10 kg/s and below)
    low += [dict(x, part='p7low', gap_flow=2.0e-8) for x in c7 if x['n_asm'] == 7]
    run.explore('p7low', low, run_case, budget_s=60, chunksize=64)
    # a second Core built afterwards (two fixed loadings) - every fully occupied and every two-assembly loading first
    then = [dict(x, part='p7then', then=t2) for x in c7 if x['n_asm'] in (2, 7) and 'R2t' not in x['layout']
            for t2 in ('R2 - U - R3 - -', 'U R3 R3 R2 U R2 R3')]
    run.explore('p7then', then, run_case, budget_s=120, chunksize=64)
    run.explore('p19', c19, run_case, budget_s=120, chunksize=4)
    run.explore('p37', c37, run_case, budget_s=300, chunksize=1)
    # cross-case: total area identical for every type assignment of one subset
    groups = {}
    for c, r in zip(c7, res7):
        if r.get('info'):
            groups.setdefault(c['mask'], []).append((r['info']['area'], c))
    worst = 0.0
    for mask in sorted(groups):
        g = groups[mask]
        lo = min(g, key=lambda x: x[0])
        hi = max(g, key=lambda x: x[0])
        rel = hi[0] / lo[0] - 1.0
        worst = max(worst, rel)
        if rel > 16 * 130 * EPS:
            v = violation('area-depends-on-mesh', dict(hi[1], other_layout=lo[1]['layout']),
                          'total gap area of one position subset differs between two type assignments',
                          hi[0], lo[0], 16 * 130 * EPS, site='core.py:_calculate_sc_area')
            run.violations.append(dict(v, part='p7'))
    run.max_extra('max_rel_spread_of_total_area_within_subset', worst)
    run.notes['subsets_compared'] = len(groups)
    # vacuity
    seen = set(run.extra.get('class', {}))
    want = ['corner-1', 'corner-2', 'corner-3', 'edge-1', 'edge-2', 'side-takes-neighbour-mesh',
            'centre-vacant', 'mixed-types', 'pair:R2/R3', 'pair:R3/U', 'pair:R2/U', 'pair:U/U',
            'pair:R2/R2p', 'side-tie-smaller-pitch']
    for w in want:
        if w not in seen:
            run.violations.append(dict(violation(
                'vacuous-alphabet', {'class': w}, 'layout class never produced: ' + w), part='all'))


def replay(body):
    r = guarded(run_case, body['scenario'], 600)
    for v in r['violations']:
        print('VIOLATION property=C09 replay=(inline) kind=%s %s observed=%s expected=%s'
              % (v['kind'], v['what'], v['observed'], v['expected']))
    print('outcome', r['outcome'], r.get('info'))
    return 1 if r['violations'] else 0
