"""C02  Inter-assembly heat exchange is conservative; core balance closes.

Every step of every sweep of every enumerated core layout is a checked state.
Per step and assembly: heat leaving through the outer duct, recomputed on the
DUCT mesh from the outer-surface temperature and the mapped gap temperature /
film coefficient, equals the heat credited to the gap cells it touches,
recomputed on the GAP mesh with the harness's own wetted lengths (from the
published cell boundaries).  Core.ebal['asm'] is only a second comparison.
Gap: d(sum m_g cp T_g) equals the sum of all credits (conduction only moves
heat).  Whole (possibly truncated) sweep: assembly + gap enthalpy rise equals
power delivered for the discretely conservative class.
"""
import itertools

import math

import numpy as np

from ..run import new_result, violation, site_of
from .. import scenario as S
from .. import observe as O

TOL = 1e-9
OFTF = 0.060
PITCH = 0.064
L = 0.16
CP = None


def types(names, gapfrac):
    t = {}
    if 'A' in names:
        t['A'] = S.design(3, pd=1.20, oftf=OFTF, clearance='mid')
    if 'A2' in names:
        # the same bundle with a pin pitch 0.5 % larger: gap meshes that are nearly, not exactly, equal
        t['A2'] = S.design(3, pd=1.206, oftf=OFTF, clearance='mid')
    if 'E' in names:
        # five rings of pins half the size of A's at (half A's pitch) x (1 + 2e-5): a duct mesh that is nearly, not
        # exactly, commensurate with A's - cell boundaries 0.3 ... 0.8 um apart
        a_ = S.design(3, pd=1.20, oftf=OFTF, clearance='mid')
        t['E'] = dict(a_, num_rings=5, pin_pitch=round(0.5 * a_['pin_pitch'] * (1.0 + 2.0e-5), 12),
                      pin_diameter=round(0.5 * a_['pin_diameter'], 9), clad_thickness=round(0.5 * a_['clad_thickness'], 9),
                      wire_diameter=round(0.5 * a_['wire_diameter'], 9))
        e_ = t['E']
        # a thicker wall takes up the room the smaller pins leave (same outer flat-to-flat)
        e_['duct_ftf'] = [round(4.0 * math.sqrt(3.0) * e_['pin_pitch'] + e_['pin_diameter'] + 2.0 * e_['wire_diameter']
                                + 0.12 * e_['pin_pitch'], 6), a_['duct_ftf'][-1]]
    if 'B' in names:
        t['B'] = S.design(2, pd=1.30, oftf=OFTF, clearance='loose')
    if 'C' in names:
        t['C'] = S.design(4, pd=1.12, oftf=OFTF, clearance='tight')
    if 'U' in names:
        t['U'] = S.design(3, pd=1.20, oftf=OFTF, clearance='mid', lowfi={'model': 'simple'})
    if 'D' in names:
        # unequal wall thicknesses (inside out): a slip between the two walls must show
        t['D'] = S.design(3, pd=1.20, oftf=OFTF, clearance='mid', ducts=2, byp_t=0.002,
                          bypass_fraction=0.1, duct_t=[0.0015, 0.003])
    if 'Ds' in names:
        t['Ds'] = S.design(3, pd=1.20, oftf=OFTF, clearance='mid', ducts=2, byp_t=0.002,
                           bypass_fraction=0.0, duct_t=[0.0015, 0.003])
    if 'S' in names:
        t['S'] = S.design(3, pd=1.20, oftf=OFTF, clearance='mid',
                          regions={'lower': {'z_lo': 0.0, 'z_hi': L / 4, 'vf_coolant': 0.3},
                                   'upper': {'z_lo': 3 * L / 4, 'z_hi': L, 'vf_coolant': 0.3,
                                             'model': '6node'}})
    if 'S5' in names:
        t['S5'] = S.design(3, pd=1.20, oftf=OFTF, clearance='mid',
                           regions={'lower': {'z_lo': 0.0, 'z_hi': L / 4, 'vf_coolant': 0.3,
                                              'convection_factor': 0.5},
                                    'upper': {'z_lo': 3 * L / 4, 'z_hi': L, 'vf_coolant': 0.3,
                                              'model': '6node', 'convection_factor': 0.5}})
    return t


RINGS = {'A': 3, 'A2': 3, 'E': 5, 'B': 2, 'C': 4, 'U': 3, 'D': 3, 'Ds': 3, 'S': 3, 'S5': 3}
NDUCT = {'D': 2, 'Ds': 2}


def build_scn(c):
    """c: {'layout': [type or None per position of the hex core], 'gapfrac', 'gap_model', 'seed'}"""
    lay = c['layout']
    nring = 1 if len(lay) == 1 else (2 if len(lay) == 7 else (3 if len(lay) == 19 else 4))
    pos = S.core_positions(nring)
    names = sorted(set(x for x in lay if x))
    t = types(names, c['gapfrac'])
    assign = []
    power = {}
    for i, (ty, (ring, p)) in enumerate(zip(lay, pos)):
        if not ty:
            continue
        flow = 0.9 * (0.7 + 0.08 * (i % 7))
        assign.append([ty, ring, p, {'flowrate': round(flow, 6)}])
        aid = S.asm_id(ring, p) + 1
        q = 2500.0 * (0.5 + 0.25 * ((i * 3) % 5))
        power[str(aid)] = {'rings': RINGS[ty], 'nduct': NDUCT.get(ty, 1), 'cells': [0.0, L / 2, L],
                           'q': q, 'pins': 'asym', 'duct': None if c.get('nopow_duct') else 'asym', 'cool': 'asym',
                           'axial': ['up', 'mid'], 'seed': (c.get('seed', 0) + i) % 4}
    # DASSH sizes the core from the highest ring that holds an assembly
    scn = {'setup': {'calc_energy_balance': True},
           'core': {'inlet': 623.15, 'length': L, 'pitch': PITCH,
                    'gap_model': c.get('gap_model', 'flow'),
                    'bypass_fraction': c['gapfrac'], 'coolant': c.get('coolant', 'sodium_se2anl_425')},
           'types': t, 'assign': assign, 'power': {'asm': power}}
    if c.get('dz'):
        scn['setup']['axial_mesh_size'] = c['dz']
    if c.get('dump'):
        # csv dumps written at every plane (reporting only)
        scn['setup']['Dump'] = {'average': True, 'gap': True, 'duct': True}
    if c.get('conv'):
        # the low-flow wall treatment switched on for every assembly
        scn['setup']['conv_approx'] = True
        scn['setup']['conv_approx_dz_cutoff'] = 1.0
    if c.get('ftf') == 'outer-first':
        # the order of the two flat-to-flat values of a duct is free in the input
        for d in t.values():
            f = list(d['duct_ftf'])
            d['duct_ftf'] = [f[i + 1 - 2 * (i % 2)] for i in range(len(f))]
    return scn


def own_wp(core):
    """wetted length of every (assembly, local gap cell) from the published
    cell boundaries, by the harness's own interval arithmetic"""
    hex_perim = 6.0 * core.duct_oftf / np.sqrt(3.0)
    out = np.zeros(core._asm_sc_adj.shape)
    for a in range(core.n_asm):
        idx = np.where(core._asm_sc_adj[a] > 0)[0]
        xb = core._asm_sc_xbnds[a][idx]
        n = len(idx)
        for j in range(n):
            if j < n - 1:
                out[a, idx[j]] = xb[j + 1] - xb[j]
            else:
                out[a, idx[j]] = hex_perim - xb[j] + xb[0]
    return out


class GapRecorder(object):
    def __init__(self, rx, arec):
        self.rx = rx
        self.core = rx.core
        self.arec = arec
        self.wp = own_wp(rx.core)
        self.steps = []
        core = rx.core
        orig = core.calculate_gap_temperatures
        rec = self
        self.cp_clone = core.gap_coolant.clone()

        def calc(dz, t_duct):
            Tg0 = core.coolant_gap_temp.copy()
            eb0 = core.ebal['asm'].copy()
            td = np.array(t_duct, dtype=float, copy=True)
            orig(dz, t_duct)
            h = core.coolant_gap_params['htc']
            adj = core._asm_sc_adj
            hh = np.where(adj > 0, h[np.maximum(adj, 1) - 1], 0.0)
            tg = np.where(adj > 0, Tg0[np.maximum(adj, 1) - 1], 0.0)
            credit = hh * rec.wp * dz * (td - tg)
            credit = np.where(adj > 0, credit, 0.0)
            m = core.gap_flow_rate * core.gap_params['area'] / np.sum(core.gap_params['area'])
            Tb = float(np.dot(m, 0.5 * (Tg0 + core.coolant_gap_temp)) / np.sum(m)) if np.sum(m) > 0 else Tg0[0]
            rec.cp_clone.update(Tb)
            cp = rec.cp_clone.heat_capacity
            dH = float(np.dot(m, core.coolant_gap_temp - Tg0)) * cp
            # floor: film conductance x 1 K (temperature differences carry
            # round-off of ~1e-13 K)
            floor = float(np.sum(hh * rec.wp)) * dz
            rec.steps.append({'dz': dz, 'credit_asm': credit.sum(axis=1),
                              'credit_abs': max(float(np.abs(credit).sum()), floor),
                              'tally_asm': (core.ebal['asm'] - eb0).sum(axis=1),
                              'tally_diff': float(np.max(np.abs((core.ebal['asm'] - eb0) - credit))),
                              'dH_gap': dH, 'm_err': abs(float(np.sum(m)) - core.gap_flow_rate),
                              'finite': bool(np.all(np.isfinite(core.coolant_gap_temp)))})

        core.calculate_gap_temperatures = calc


def run_case(c):
    r = new_result()
    V = r['violations']
    scn = build_scn(c)
    with S.Built(scn) as b:
        try:
            rx = b.reactor()
        except SystemExit as e:
            V.append(violation('setup-rejected', c, 'valid generated core rejected', site=site_of(e)))
            r['outcome'] = 'rejected'
            return r
        nasm = len(rx.assemblies)
        arec = O.Recorder(rx)
        # the gap model and the gap flow of the Core are the ones the input asks for
        want_model = None if c.get('gap_model', 'flow') == 'none' else c.get('gap_model', 'flow')
        if rx.core.model != want_model:
            V.append(violation('gap-model-not-as-input', c, 'the Core runs the gap model %r, the input asks for %r'
                               % (rx.core.model, want_model), rx.core.model, want_model, None,
                               site='reactor.py:_setup_core'))
        elif want_model == 'flow':
            wf = c['gapfrac'] / (1.0 - c['gapfrac']) * sum(float(a.flow_rate) for a in rx.assemblies)
            if abs(float(rx.core.gap_flow_rate) - wf) > 1e-12 * wf or \
                    abs(float(np.sum(rx.core._sc_mfr)) - wf) > 1e-9 * wf:
                V.append(violation('gap-flow-not-as-input', c, 'gap flow of the Core (total / sum over the gap cells) is '
                                   'not bypass_fraction x core flow', [float(rx.core.gap_flow_rate),
                                                                       float(np.sum(rx.core._sc_mfr))], wf, 1e-9 * wf,
                                   site='core.py:load'))
        grec = GapRecorder(rx, arec) if rx.core.model is not None else None
        cap = c.get('max_steps', 60)
        full = len(rx.z) - 1
        has_switch = any(len(a.region) > 1 for a in rx.assemblies)
        if has_switch:
            cap = min(full, 3000)
        O.sweep(rx, arec, max_steps=cap)
        nstep = min(full, cap)
        core = rx.core
        kinds = [[('rodded' if reg.is_rodded else reg.model) for reg in a.region] for a in rx.assemblies]
        # per-step records are appended assembly by assembly
        recs = arec.records
        assert len(recs) == nstep * nasm
        shared = 0
        if core.model is not None:
            cnt = np.bincount(core._asm_sc_adj[core._asm_sc_adj > 0].ravel())
            shared = int(np.sum(cnt >= 2))
        tot_asm_dH = 0.0
        tot_gap_dH = 0.0
        tot_power = 0.0
        tot_scale = 0.0
        worst = 0.0
        prev_out = {}
        for s in range(nstep):
            g = grec.steps[s] if grec else None
            if g is not None and not g['finite']:
                V.append(violation('non-finite', c, 'non-finite gap temperature at step %d' % s))
                break
            sumcred = 0.0
            for a in range(nasm):
                sr = recs[s * nasm + a]
                if not sr['finite']:
                    V.append(violation('non-finite', c, 'non-finite temperature at step %d asm %d' % (s, a)))
                    break
                scale = max(sr['scale'], abs(sr['Q_out']), 1e-12)
                if core.model is None:
                    if sr['Q_out'] != 0.0:
                        V.append(violation('adiabatic-leak', c, 'heat crosses an outer duct wall with the adiabatic option'))
                else:
                    cred = float(g['credit_asm'][a])
                    scale = max(scale, abs(cred))
                    sumcred += cred
                    x = abs(sr['Q_out'] - cred) / scale
                    worst = max(worst, x)
                    if x > TOL:
                        V.append(violation('duct-gap-mismatch', dict(c, asm=a, region=kinds[a][sr['region']]),
                                           'heat leaving the outer duct of assembly %d (duct mesh) != heat credited to '
                                           'its gap cells (gap mesh) at z=%.5f' % (a, sr['z']),
                                           sr['Q_out'], cred, TOL * scale))
                        break
                    if abs(float(g['tally_asm'][a]) - cred) > TOL * scale:
                        V.append(violation('core-tally', dict(c, asm=a), 'Core.ebal differs from the recomputed credit',
                                           float(g['tally_asm'][a]), cred, TOL * scale))
                        break
                tot_asm_dH += sr['dH_int'] * sr['cp_c'] + sum(bb['dH'] * bb['cp_c'] for bb in sr['byp'] if bb.get('flowing'))
                tot_power += 0.0
                tot_scale += abs(sr['dH_int'] * sr['cp_c']) + abs(sr['Q_out'])
                # six-node regions: wall heat taken from the coolant at level n
                # equals the heat per metre credited to the gap at level n-1
                if sr['kind'] == '6node' and core.model is not None:
                    key = (a, sr['region'])
                    if key in prev_out:
                        lhs = -sr['Qw_int'] / sr['dz']
                        rhs = prev_out[key]
                        sc6 = max(abs(lhs), abs(rhs), sr['scale'] / sr['dz'])
                        if abs(lhs - rhs) > TOL * sc6:
                            V.append(violation('sixnode-lag-identity', dict(c, asm=a),
                                               'six-node region: wall heat per metre taken from the coolant != heat per '
                                               'metre credited to the gap one level earlier (z=%.5f)' % sr['z'],
                                               lhs, rhs, TOL * sc6))
                    prev_out[key] = sr['Q_out'] / sr['dz']
            if V:
                break
            if g is not None:
                if core.model == 'flow':
                    sc = max(abs(g['dH_gap']), g['credit_abs'], 1e-12)
                    if abs(g['dH_gap'] - sumcred) > TOL * sc:
                        V.append(violation('gap-balance', c, 'gap enthalpy rise != sum of heat credited by the ducts '
                                           '(conduction between gap cells must only move heat) at step %d' % s,
                                           g['dH_gap'], sumcred, TOL * sc))
                        break
                    if g['m_err'] > 1e-12 * max(core.gap_flow_rate, 1e-30):
                        V.append(violation('gap-mass', c, 'gap cell flows do not sum to the gap flow'))
                        break
                    tot_gap_dH += g['dH_gap']
                if g['tally_diff'] > TOL * max(g['credit_abs'], 1e-12):
                    V.append(violation('core-tally', c, 'Core.ebal entries differ from recomputed credits'))
                    break
        # whole-sweep closure for the discretely conservative class
        delivered = sum(sum(a._power_delivered.values()) for a in rx.assemblies)
        conservative = (core.model in ('flow', None)
                        and not any('6node' in k for k in kinds)
                        and not any(a.has_rodded and a.rodded.n_bypass > 0
                                    and np.sum(a.rodded.byp_flow_rate) == 0 for a in rx.assemblies))
        info = {'steps': nstep, 'asm': nasm, 'shared_gap_cells': shared, 'worst_step_rel': worst}
        if not V and conservative:
            rise = tot_asm_dH + tot_gap_dH
            sc = max(abs(delivered), abs(rise), 1e-9)
            info['sweep_rel_imbalance'] = (rise - delivered) / sc
            if abs(rise - delivered) > 1e-8 * sc:
                qduct = sum(a._power_delivered['duct'] for a in rx.assemblies)
                if c.get('conv') and qduct > 0 and not c.get('nopow_duct'):
                    # low-flow wall treatment with heated walls: reported as the share of the wall heat that is lost
                    V.append(violation('sweep-balance-conv-approx-heated-wall', c,
                                       'conv_approx with heated duct walls: assembly + gap enthalpy rise != power delivered '
                                       'over the sweep; observed = missing heat / heat generated in the duct walls '
                                       '(rise %.6g W, delivered %.6g W)' % (rise, delivered),
                                       float((delivered - rise) / qduct), 0.0, 1e-8 * sc / qduct))
                else:
                    V.append(violation('sweep-balance', c, 'assembly + gap enthalpy rise != power delivered over the sweep',
                                       rise, delivered, 1e-8 * sc))
        # solver-side summary: region tallies agree with what the table prints
        r['states'] = nstep * (nasm + (1 if grec else 0)) + 1
        r['transitions'] = nstep * (nasm + (1 if grec else 0))
        r['traces'] = 1
        if c.get('resweep') and not V and not has_switch:
            # the same Reactor reset to the inlet and swept again: the same temperatures (heat carried over from the
            # first sweep would be heat from nowhere)
            def snap():
                out_ = [np.array(core.coolant_gap_temp, dtype=float, copy=True)] if core.model is not None else []
                for a_ in rx.assemblies:
                    out_.append(np.array(a_.active_region.temp['coolant_int'], dtype=float, copy=True))
                    out_.append(np.array(a_.active_region.temp['duct_mw'], dtype=float, copy=True).ravel())
                return np.concatenate([x.ravel() for x in out_])
            first = snap()
            for k_ in range(int(c['resweep'])):
                rx.reset()
                O.sweep(rx, None, max_steps=cap)
                again = snap()
                r['traces'] += 1
                r['transitions'] += nstep * nasm
                dev = float(np.max(np.abs(again - first)))
                if not dev <= 1e-9:
                    V.append(violation('resweep-differs', dict(c, sweep=k_ + 2),
                                       'sweep %d of the same Reactor after reset() ends with other temperatures than the '
                                       'first sweep' % (k_ + 2), dev, 0.0, 1e-9, site='reactor.py:reset'))
                    break
        r['nontrivial'] = bool(shared > 0 or core.model is None)
        r['outcome'] = 'ok' if not V else 'violation'
        r['extra'] = {'shared_cells': shared, 'mixed_mesh_layouts': int(len(set(RINGS[x] for x in c['layout'] if x)) > 1),
                      'layouts_with_vacancy': int(any(x is None for x in c['layout'])),
                      'conservative_class': int(conservative), 'region_changes': len(arec.region_changes)}
        r['info'] = info
    return r


def layouts7(alphabet, min_n=1, max_n=7):
    out = []
    for combo in itertools.product([None] + list(alphabet), repeat=7):
        n = sum(1 for x in combo if x)
        if n < min_n or n > max_n:
            continue
        if combo[1:] != (None,) * 6 or combo[0]:
            out.append(list(combo))
    return out


def cases(tier):
    out = []
    if tier == 'quick':
        # every non-empty subset of the 7-position core x assignment of {A, B}
        for lay in layouts7(['A', 'B']):
            out.append({'layout': lay, 'gapfrac': 0.05, 'gap_model': 'flow', 'max_steps': 25})
        # every layout with at most two assemblies over all type letters
        for lay in layouts7(['A', 'B', 'C', 'U', 'D', 'Ds', 'S', 'S5'], 1, 2):
            if any(x in ('C', 'U', 'D', 'Ds', 'S', 'S5') for x in lay if x):
                out.append({'layout': lay, 'gapfrac': 0.02, 'gap_model': 'flow', 'max_steps': 40})
        full = [['A', 'B', 'U', 'D', 'S', 'C', 'A'], ['D', 'A', None, 'B', 'U', 'S5', 'Ds'],
                ['U', 'U', 'A', 'U', None, 'B', 'U']]
        for lay in full:
            for gm in ('flow', 'none'):
                for gf in (0.002, 0.05):
                    out.append({'layout': lay, 'gapfrac': gf, 'gap_model': gm, 'max_steps': 60})
        out.append({'layout': ['A'] * 7 + ['B', None] * 6, 'gapfrac': 0.05, 'gap_model': 'flow', 'max_steps': 20})
        for lay in (['A', 'A2', 'A', 'A2', 'A', 'A', 'A2'], ['A2', 'A', 'A2', None, 'A', 'A2', 'A']):
            out.append({'layout': lay, 'gapfrac': 0.05, 'gap_model': 'flow', 'max_steps': 40})
        for lay in (['A', 'E', 'A', 'E', 'A', 'A', 'E'], ['E', 'A', 'E', None, 'A', 'E', 'A']):
            out.append({'layout': lay, 'gapfrac': 0.05, 'gap_model': 'flow', 'max_steps': 40})
        # dumps switched on (an observer must not change the balance)
        for lay in (['A', 'B', 'U', 'D', 'C', 'A', 'D'], ['B', 'A', None, 'A', 'C', 'B', 'A']):
            out.append({'layout': lay, 'gapfrac': 0.05, 'gap_model': 'flow', 'max_steps': 40, 'dump': True})
        # the same Reactor reset and swept a second and a third time
        for lay in (['A', 'B', 'A', 'B', 'A', 'A', 'B'], ['B', 'A', None, 'A', 'D', 'B', 'A'], ['A', 'B', 'U', 'D', 'A', 'A', 'D']):
            for gm in ('flow', 'no_flow'):
                out.append({'layout': lay, 'gapfrac': 0.05, 'gap_model': gm, 'max_steps': 40, 'resweep': 2})
        # a requested step far below every limit: 1600 planes (the first 60 are swept)
        for lay in (['A', 'B', 'A', None, 'U', 'A', 'B'], ['D', 'A', None, None, None, None, None]):
            out.append({'layout': lay, 'gapfrac': 0.05, 'gap_model': 'flow', 'max_steps': 60, 'dz': 1.0e-4})
        # a very small gap flow (still the flowing-gap model)
        for lay in (['A', 'B', 'A', None, None, None, None], ['D', None, 'A', 'U', None, None, None]):
            out.append({'layout': lay, 'gapfrac': 0.0008, 'gap_model': 'flow', 'max_steps': 30})
        for lay in full:
            out.append({'layout': lay, 'gapfrac': 0.05, 'gap_model': 'flow', 'max_steps': 60, 'ftf': 'outer-first'})
        # low-flow wall treatment (conv_approx) on every assembly; without wall heating the scheme is discretely
        # conservative, with wall heating it is not (known finding K13)
        for lay in (['A', 'B', 'U', 'D', 'C', 'A', 'D'], ['D', 'A', None, None, None, None, None],
                    ['D', None, 'D', None, None, None, None], ['B', None, None, 'C', None, None, None]):
            for nopow in (True, False):
                out.append({'layout': lay, 'gapfrac': 0.05, 'gap_model': 'flow', 'max_steps': 60, 'conv': True,
                            'nopow_duct': nopow})
    else:
        for lay in layouts7(['A', 'B', 'C', 'U', 'D'], 1, 2):
            for nopow in (True, False):
                out.append({'layout': lay, 'gapfrac': 0.05, 'gap_model': 'flow', 'max_steps': 40, 'conv': True,
                            'nopow_duct': nopow})
        for lay in layouts7(['A', 'B', 'U', 'D', 'S'], 2, 2):
            out.append({'layout': lay, 'gapfrac': 0.05, 'gap_model': 'flow', 'max_steps': 40, 'ftf': 'outer-first'})
        for lay in layouts7(['A', 'A2'], 2, 3):
            out.append({'layout': lay, 'gapfrac': 0.05, 'gap_model': 'flow', 'max_steps': 40})
        for lay in layouts7(['A', 'E'], 2, 2):
            out.append({'layout': lay, 'gapfrac': 0.05, 'gap_model': 'flow', 'max_steps': 40})
        for lay in layouts7(['A', 'B', 'D'], 2, 2):
            out.append({'layout': lay, 'gapfrac': 0.0008, 'gap_model': 'flow', 'max_steps': 30})
        for lay in layouts7(['A', 'B', 'U']):
            out.append({'layout': lay, 'gapfrac': 0.05, 'gap_model': 'flow', 'max_steps': 25})
        for lay in layouts7(['A', 'B', 'C', 'U', 'D', 'Ds', 'S', 'S5'], 1, 2):
            for gf in (0.002, 0.05):
                out.append({'layout': lay, 'gapfrac': gf, 'gap_model': 'flow', 'max_steps': 40})
        for lay in layouts7(['A', 'B', 'U', 'D', 'S'], 3, 3):
            for gf in (0.002, 0.05):
                out.append({'layout': lay, 'gapfrac': gf, 'gap_model': 'flow', 'max_steps': 40})
        for lay in layouts7(['A', 'B'], 1, 7):
            out.append({'layout': lay, 'gapfrac': 0.05, 'gap_model': 'none', 'max_steps': 15})
        for lay in layouts7(['A', 'B', 'U', 'D'], 2, 2):
            for gm in ('flow', 'no_flow', 'duct_average'):
                out.append({'layout': lay, 'gapfrac': 0.05, 'gap_model': gm, 'max_steps': 40, 'resweep': 2})
        # 19 positions, at most two vacancies, two type patterns
        pats = [['A', 'B'] * 9 + ['A'], ['C', 'A', 'U', 'D', 'B', 'S', 'A'] * 3][:2]
        for pat in pats:
            pat = (pat * 3)[:19]
            for k in range(0, 3):
                for vac in itertools.combinations(range(19), k):
                    lay = [None if i in vac else pat[i] for i in range(19)]
                    out.append({'layout': lay, 'gapfrac': 0.05, 'gap_model': 'flow', 'max_steps': 12})
    for c in out:
        c['seed'] = 0
    return out


def main(run):
    run.rule = ('every non-empty subset of the 7-position core x type assignment from the stated letters (quick: {A,B} '
                'exhaustively, all letters for <= 2 assemblies; thorough: {A,B,U} exhaustively, all letters for <= 2 and five letters for 3 assemblies, '
                '19 positions with <= 2 vacancies); non-trivial = layout with at least one gap cell shared by two '
                'assemblies, or an adiabatic core')
    run.assumptions = ['wetted lengths recomputed from the published gap cell boundaries (_asm_sc_xbnds)',
                       'sweeps truncated at max_steps (closure is asserted on the truncated prefix)']
    cs = cases(run.tier)
    for c in cs:
        c['seed'] = run.seed % 4
    run.check_determinism(run_case, cs[len(cs) // 2])
    run.explore('core', cs, run_case, budget_s=300)
    # the summary table of dassh.out through which a user reads this property (vf/props/reports.py)
    from . import reports
    run.explore('report-interasm', reports.cases_interasm(run.tier), reports.run_interasm, budget_s=300)
    # the core rows of the energy-balance table (heat through the duct walls per assembly and of the gap) on cores
    run.explore('report-ebal', [c_ for c_ in reports.cases_ebal(run.tier) if len(c_['layout'].split()) > 1],
                reports.run_ebal, budget_s=300)
    # the csv dump of this property's field: every row is the recorded field of that assembly at that plane
    from . import reports as _rep
    run.explore('report-dumps', _rep.cases_dumps(run.tier), _rep.run_dumps_C02, budget_s=300)
    for k in ('shared_cells', 'mixed_mesh_layouts', 'layouts_with_vacancy', 'conservative_class'):
        if not run.extra.get(k):
            run.violations.append(dict(violation('vacuous-alphabet', {'what': k}, 'alphabet never produced ' + k),
                                       part='core'))


def replay(body):
    if str((body.get('scenario') or {}).get('probe', '')).startswith('report-'):
        from . import reports
        return reports.replay(body)
    from ..run import guarded
    c = {k: v for k, v in body['scenario'].items() if k not in ('asm', 'region')}
    r = guarded(run_case, c, 900)
    for v in r['violations']:
        print('VIOLATION property=C02 replay=(inline) kind=%s %s observed=%s expected=%s'
              % (v['kind'], v['what'], v.get('observed'), v.get('expected')))
    print('outcome', r['outcome'], r.get('info'))
    return 1 if r['violations'] else 0
