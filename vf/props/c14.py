"""C14  Pressure drop is non-negative, additive and step-size independent.

One case = one complete real sweep (`Reactor.temperature_sweep` with the
`pressure_drop` dump switched on) of a single assembly with constant coolant
properties.  Alphabet (full product inside each family, see `cases`):

  bundle     w2 w3 w4 (wire wrapped, rings 2/3/4)   b2 b3 b4 (bare, rings 2/3/4)
  friction   CTD NOV ENG UCTD CTS REH  (bare bundles: CTD, UCTD - the other four
             are refused by DASSH's own applicability check for bare rods)
  flow       lam / trans / turb  (bundle Re 300 / 3000 / 50000)
  step_case  limit (no user step) | half (half of the default step) | mm3 |
             cap1cm | dyadic (1/256 m) | mm1.25     (user steps above the
             stability limit are ignored by DASSH: the step actually used is
             read back and recorded; coincident sweeps are merged by `key`)
  grid_case  none | plane (on an interior plane of the mesh actually used) |
             inside (strictly inside a step) | inlet (z = bundle inlet) |
             outlet (z = bundle outlet; = core end for structure 'bundle') |
             two (two grids inside one step) | fixed3 (0.05 / 0.15 / 0.25 m)
  grid_model K (loss_coeff = 1.5) | REH | CDD (solidity 0.3)
  gravity    off | on
  structure  bundle (pins over the whole core) |
             multi  (reflector 'simple' 0..0.0625, pins 0.0625..0.25,
                     reflector '6node' 0.25..0.3: bundle bounds are interior
                     planes and dyadic)

Oracle (per sweep; TOL is relative to the respective total):
  * every dumped running value (total, friction, grid, gravity) is >= 0 and
    non-decreasing from plane to plane (exact comparison: sums of non-negative
    increments are monotone in floating point);
  * dumped total == friction + grid + gravity at every plane;
  * running friction at plane z == sum_r f_r rho v_r^2 / (2 De_r) * (length of
    region r below z); running gravity == rho g z (g = 9.80665) or 0;
  * final: Assembly.pressure_drop == sum_r region.pressure_drop == sum of the
    parts of region._pressure_drop, per region friction == f L rho v^2/(2 De),
    gravity == rho g L, and the bundle's grid part == n K rho v^2 / 2 with
    n = number of input grid positions with bundle_lo <= z_g <= bundle_hi.
    CONVENTION for a grid exactly at the bundle inlet / outlet: it is inside
    the bundle.  This is DASSH's own definition (`check_spacergrid` drops
    positions z < z_lo or z > z_hi with a warning and keeps the bounds
    silently), and the statement says "each spacer grid [inside the bundle] is
    counted exactly once wherever it lies relative to the axial planes".
    f, v, De, K(REH/CDD) are the region's published static parameters read
    BEFORE the sweep; rho, mu are the harness's own Material; K = 1.5 for the
    'K' model is the input value.  Second, independent checks: v == m/(rho A);
    for CTD friction f is recomputed from the published bundle constants with
    the harness's own Reynolds number and regime bounds;
  * PressureDropTable row == object state to print precision;
  * cross-sweep (parent): friction, gravity (and the grid part of sweeps that
    passed the count check) agree between all step cases of one scenario.

TOL = 1e-10: round-off of the accumulation is <= (number of steps <= ~300) x
2.2e-16 ~ 7e-14 relative, the step lengths sum to the region length to ~1e-14
(planes are rounded to 1e-12 m but all step sizes used have <= 9 decimals);
the smallest genuine error (one step or one grid missing / doubled) is
>= 1/300.  1e-10 lies four orders above the first and seven below the second.
"""
import math
import os

import numpy as np

from ..run import new_result, violation, site_of, canon
from .. import scenario as S
from .c01 import flow_for_re

TOL = 1e-10
TOL_TABLE = 5.1e-5      # '{:.4E}': half a unit of the 5th significant digit
G = 9.80665
L = 0.3
LO, HI = 0.0625, 0.25   # dyadic bundle bounds of structure 'multi'
PLATE = 0.0013          # thickness of the plate of structure 'plate'
KGRID = 1.5
COOLANT = 'sodium_se2anl_425'
SITE_GRID = 'RoddedRegion.calculate_spacergrid_pressure_drop'

BUNDLES = {
    'w2': dict(rings=2, pd=1.20, clearance='tight', wire=True),
    'w3': dict(rings=3, pd=1.08, clearance='mid', wire=True),
    'w4': dict(rings=4, pd=1.35, clearance='loose', wire=True),
    'b2': dict(rings=2, pd=1.20, clearance='tight', wire=False),
    'b3': dict(rings=3, pd=1.20, clearance='mid', wire=False),
    'b4': dict(rings=4, pd=1.30, clearance='mid', wire=False),
}
FAM = {
    'CTD': ('CTD', 'CTD', 'CTD'), 'UCTD': ('UCTD', 'UCTD', 'UCTD'),
    'NOV': ('NOV', 'NOV', 'MIT'), 'ENG': ('ENG', 'MIT', 'MIT'),
    'CTS': ('CTS', 'CTD', 'MIT'), 'REH': ('REH', 'NOV', 'KC-BARE'),
}
FRICTIONS = ['CTD', 'NOV', 'ENG', 'UCTD', 'CTS', 'REH']
FRICTIONS_BARE = ['CTD', 'UCTD']
RE = {'lam': 300.0, 'trans': 3000.0, 'turb': 50000.0}
FLOWS = ['lam', 'trans', 'turb']
STEPS = {'limit': None, 'half': 'half', 'mm3': 0.003, 'cap1cm': 0.01,
         'dyadic': 0.00390625, 'mm1.25': 0.00125,
         # 150 steps end 5 nm below the core top: a last step of 5 nm (a real distance, not round-off)
         'nm-short': 0.001999999967}
STEP_CASES = ['limit', 'half', 'mm3', 'cap1cm', 'dyadic', 'mm1.25', 'nm-short']
GRID_CASES = ['plane', 'inside', 'inlet', 'outlet', 'two', 'fixed3', 'fixed3-desc', 'fixed4-dup']
MESH_DEPENDENT = ('plane', 'inside', 'two')
N_GRIDS = {'none': 0, 'plane': 1, 'inside': 1, 'inlet': 1, 'outlet': 1, 'two': 2, 'fixed3': 3, 'fixed3-desc': 3, 'fixed4-dup': 4}


# ----------------------------------------------------------------------
def case(bundle, friction, flow, step_case, grid_case='none', grid_model='K',
         gravity=True, structure='multi'):
    return dict(bundle=bundle, friction=friction, flow=flow, step_case=step_case,
                grid_case=grid_case, grid_model=grid_model, gravity=bool(gravity),
                structure=structure)


def cases(tier):
    out = []
    if tier == 'quick':
        # A  friction / gravity closed forms, no grids
        for b, fr in [('w3', f) for f in FRICTIONS] + [('b3', f) for f in FRICTIONS_BARE]:
            for fl in FLOWS:
                for st in STEP_CASES:
                    out.append(case(b, fr, fl, st))
        for fl in FLOWS:
            for st in STEP_CASES:
                for grav, struc in ((False, 'multi'), (True, 'bundle'), (False, 'bundle')):
                    out.append(case('w3', 'CTD', fl, st, gravity=grav, structure=struc))
        for b in ('w2', 'w4', 'b2', 'b4'):
            for fl in ('lam', 'turb'):
                for st in ('limit', 'dyadic'):
                    out.append(case(b, 'CTD', fl, st))
        for fl in FLOWS:
            for st in STEP_CASES:
                out.append(case('w3', 'CTD', fl, st, structure='plate'))
        # B  grids on a bare bundle, every grid case x every step x both structures
        for fl in ('lam', 'turb'):
            for st in STEP_CASES:
                for gc in GRID_CASES:
                    for struc in ('bundle', 'multi'):
                        out.append(case('b3', 'CTD', fl, st, gc, structure=struc))
        for st in STEP_CASES:
            for gc in GRID_CASES:
                out.append(case('b3', 'UCTD', 'trans', st, gc))
        # C  correlated grid loss coefficient;  D  wire wrap + grids (allowed, warning only)
        for st in ('cap1cm', 'dyadic'):
            for gc in ('fixed3', 'two'):
                for gm in ('REH', 'CDD'):
                    out.append(case('b3', 'CTD', 'turb', st, gc, gm))
        for st in STEP_CASES:
            out.append(case('w3', 'NOV', 'turb', st, 'fixed3'))
    else:
        # A  full product
        for b in sorted(BUNDLES):
            for fr in (FRICTIONS if BUNDLES[b]['wire'] else FRICTIONS_BARE):
                for fl in FLOWS:
                    for st in STEP_CASES:
                        for grav in (False, True):
                            for struc in ('bundle', 'multi', 'plate'):
                                if struc == 'plate' and (b not in ('w3', 'b3') or fr != 'CTD'):
                                    continue
                                out.append(case(b, fr, fl, st, gravity=grav, structure=struc))
        # B  full product on the bare bundles
        for b in ('b2', 'b3', 'b4'):
            for fr in FRICTIONS_BARE:
                for fl in FLOWS:
                    for st in STEP_CASES:
                        for gc in GRID_CASES:
                            for grav in (False, True):
                                for struc in ('bundle', 'multi'):
                                    out.append(case(b, fr, fl, st, gc, 'K', grav, struc))
        # C  correlated loss coefficients
        for fl in FLOWS:
            for st in STEP_CASES:
                for gc in GRID_CASES:
                    for gm in ('REH', 'CDD'):
                        for struc in ('bundle', 'multi'):
                            out.append(case('b3', 'CTD', fl, st, gc, gm, True, struc))
        # D  wire wrap + grids, all friction correlations
        for fr in FRICTIONS:
            for fl in FLOWS:
                for st in STEP_CASES:
                    for gc in GRID_CASES:
                        out.append(case('w3', fr, fl, st, gc, 'K', True, 'multi'))
    return out


# ----------------------------------------------------------------------
def bounds(c):
    """[(name-independent) region bounds bottom to top], bundle index"""
    if c['structure'] == 'bundle':
        return [(0.0, L)], 0
    if c['structure'] == 'plate':
        return [(0.0, LO), (LO, LO + PLATE), (LO + PLATE, HI), (HI, L)], 2
    return [(0.0, LO), (LO, HI), (HI, L)], 1


def build_scn(c, user_dz, grid_z):
    bd = BUNDLES[c['bundle']]
    regions = None
    if c['structure'] == 'multi':
        regions = {'lower': {'z_lo': 0.0, 'z_hi': LO, 'vf_coolant': 0.3},
                   'upper': {'z_lo': HI, 'z_hi': L, 'vf_coolant': 0.35, 'model': '6node'}}
    elif c['structure'] == 'plate':
        # a support plate thinner than most steps between the lower region and the bundle: two region boundaries
        # inside one nominal step
        regions = {'lower': {'z_lo': 0.0, 'z_hi': LO, 'vf_coolant': 0.3},
                   'plate': {'z_lo': LO, 'z_hi': LO + PLATE, 'vf_coolant': 0.15},
                   'upper': {'z_lo': HI, 'z_hi': L, 'vf_coolant': 0.35}}
    spacer = None
    if grid_z:
        if c['grid_model'] == 'K':
            spacer = {'loss_coeff': KGRID, 'axial_positions': list(grid_z)}
        else:
            spacer = {'corr': c['grid_model'], 'axial_positions': list(grid_z), 'solidity': 0.3}
    dsn = S.design(bd['rings'], pd=bd['pd'], clearance=bd['clearance'], wire=bd['wire'],
                   corr=FAM[c['friction']], regions=regions, spacer=spacer)
    flow = flow_for_re(dsn, RE[c['flow']])
    setup = {'include_gravity_head_loss': bool(c['gravity'])}
    if user_dz is not None:
        setup['axial_mesh_size'] = user_dz
    setup['Dump'] = {'pressure_drop': True}
    # about 40 K mixed-mean rise; the coolant properties do not depend on it
    pw = {'rings': bd['rings'], 'nduct': 1, 'cells': [0.0, L], 'pins': 'uniform',
          'q': flow * 1272.0 * 40.0 / (S.n_pins(bd['rings']) * L)}
    return S.single(dsn, flow, length=L, power=pw, coolant=COOLANT, setup=setup), flow


def nominal_grids(n, lo, hi):
    return [round(lo + (i + 1) * (hi - lo) / (n + 1), 6) for i in range(n)]


def place_grids(gc, z, lo, hi):
    """grid positions for grid case gc relative to the planes z actually used"""
    if gc == 'none':
        return []
    if gc == 'inlet':
        return [lo]
    if gc == 'outlet':
        return [hi]
    if gc == 'fixed3':
        return [0.05, 0.15, 0.25]
    if gc == 'fixed3-desc':
        return [0.25, 0.05, 0.15]      # the order of the listed positions is free
    if gc == 'fixed4-dup':
        return [0.05, 0.15, 0.15, 0.25]      # two grids listed at the same elevation are two grids
    zz = [float(x) for x in z]
    interior = [i for i, p in enumerate(zz) if lo < p < hi and i + 1 < len(zz) and zz[i + 1] <= hi]
    i = interior[len(interior) // 2]
    p, pn = zz[i], zz[i + 1]
    if gc == 'plane':
        return [p]
    if gc == 'inside':
        return [round(0.5 * (p + pn), 10)]
    if gc == 'two':
        return [round(p + (pn - p) / 3.0, 10), round(p + 2.0 * (pn - p) / 3.0, 10)]
    raise ValueError(gc)


def relation(zg, z, lo, hi):
    """how one grid lies relative to the planes (exact float comparison)"""
    if zg < lo or zg > hi:
        return 'outside-bundle'
    tags = []
    if zg == lo:
        tags.append('at-inlet')
    if zg == hi:
        tags.append('at-outlet')
    if not tags:
        tags.append('on-plane' if any(zg == float(p) for p in z) else 'inside-step')
    return '+'.join(tags)


class Rejected(Exception):
    def __init__(self, errors, exc):
        Exception.__init__(self, '; '.join(errors)[:300])
        self.site = site_of(exc)


def _reactor(b):
    cap = S.capture_log()
    try:
        with cap:
            return b.reactor()
    except SystemExit as e:
        raise Rejected(cap.errors, e)


def probe(c, user_dz, grid_z):
    """build only: (step used, planes)"""
    scn, _ = build_scn(c, user_dz, grid_z)
    with S.Built(scn) as b:
        rx = _reactor(b)
        return float(rx.req_dz), np.array(rx.z, dtype=float)


def region_static(reg):
    """published static parameters of one region: f, v, De, flow area"""
    if reg.is_rodded:
        return (float(reg.coolant_int_params['ff']), float(reg.coolant_int_params['vel']),
                float(reg.bundle_params['de']), float(reg.bundle_params['area']))
    if getattr(reg, '_rr_equiv', None) is not None:
        de = float(reg._rr_equiv.bundle_params['de'])
        area = float(reg._rr_equiv.bundle_params['area'])
    else:
        de = float(reg._params['de'])
        area = float(reg.total_area['coolant_int'])
    return float(reg.coolant_params['ff']), float(reg.coolant_params['vel']), de, area


def ctd_friction(reg, flow, mu):
    """bundle friction factor from the published CTD bundle constants with the
    harness's own Reynolds number, regime bounds and intermittency blend"""
    cfb = reg.corr_constants['ff']['Cf_b']
    re = flow / float(reg.bundle_params['area']) * float(reg.bundle_params['de']) / mu
    p2d = reg.pin_pitch / reg.pin_diameter
    re_l = 300.0 * 10 ** (1.7 * (p2d - 1.0))
    re_t = 1.0e4 * 10 ** (0.7 * (p2d - 1.0))
    f_l = float(cfb['laminar']) / re
    f_t = float(cfb['turbulent']) / re ** 0.18
    if re <= re_l:
        return f_l, 'laminar'
    if re >= re_t:
        return f_t, 'turbulent'
    x = (math.log10(re) - math.log10(re_l)) / (math.log10(re_t) - math.log10(re_l))
    return f_l * (1.0 - x) ** (1.0 / 3.0) + f_t * x ** (1.0 / 3.0), 'transition'


def rel(a, b, scale=None):
    s = max(abs(a), abs(b)) if scale is None else scale
    return abs(a - b) / s if s > 0 else abs(a - b)


# ----------------------------------------------------------------------
def run_case(c):
    import dassh
    r = new_result()
    V = r['violations']
    bnds, ib = bounds(c)
    lo, hi = bnds[ib]
    extra = {'builds': 0}
    r['extra'] = extra

    def bad(kind, what, obs=None, exp=None, tol=None, site=None):
        V.append(violation(kind, c, what, obs, exp, tol, site=site))

    gc = c['grid_case']
    n_in = N_GRIDS[gc]
    try:
        # -- step requested; mesh actually used; grid positions ------------
        user = STEPS[c['step_case']]
        # probing builds carry the same number of in-bundle grids as the final
        # one (the CTD / UCTD flow split, hence the stability limit, depends on it)
        nominal = nominal_grids(n_in, lo, hi) if gc in MESH_DEPENDENT else place_grids(gc, None, lo, hi)
        if user == 'half':
            req0, _ = probe(c, None, nominal)
            extra['builds'] += 1
            user = round(req0 / 2.0, 9)
        zA = None
        if gc in MESH_DEPENDENT:
            _, zA = probe(c, user, nominal)
            extra['builds'] += 1
            grid_z = place_grids(gc, zA, lo, hi)
        else:
            grid_z = place_grids(gc, None, lo, hi)
        scn, flow = build_scn(c, user, grid_z)
        b = S.Built(scn)
    except Rejected as e:
        bad('setup-rejected', 'valid generated input rejected at set-up: %s' % e, site=e.site)
        r['outcome'] = 'rejected'
        return r
    try:
        try:
            rx = _reactor(b)
        except Rejected as e:
            bad('setup-rejected', 'valid generated input rejected at set-up: %s' % e, site=e.site)
            r['outcome'] = 'rejected'
            return r
        extra['builds'] += 1
        used = float(rx.req_dz)
        z = np.array(rx.z, dtype=float)
        limit = math.floor(float(np.min(rx.min_dz['dz'])) * 1e6) / 1e6
        if user is not None and used == user:
            how = 'user-step-honoured'
        elif user is not None:
            how = 'user-step-ignored'
        else:
            how = 'default-step'
        how += '/cap' if (used == 0.01 and limit > 0.01) else ('/limit' if used == limit else '')
        if zA is not None and not np.array_equal(z, zA):
            bad('harness-mesh-changed', 'planes differ between the probing and the final build',
                [len(zA), len(z)], None)
            return r
        asm = rx.assemblies[0]
        regs = asm.region
        if len(regs) != len(bnds) or any(
                [float(g.z[0]), float(g.z[1])] != list(bb) for g, bb in zip(regs, bnds)):
            bad('harness-regions', 'axial regions differ from the scenario',
                [list(map(float, g.z)) for g in regs], bnds)
            return r
        mat = dassh.Material(COOLANT)
        mat.update(float(rx.inlet_temp))
        rho, mu = float(mat.density), float(mat.viscosity)
        # -- published static parameters (before the sweep) -----------------
        stat = [region_static(g) for g in regs]
        coef = [f * rho * v * v / (2.0 * de) for (f, v, de, ar) in stat]      # Pa per m
        lens = [bb[1] - bb[0] for bb in bnds]
        for g, (f, v, de, ar), bb in zip(regs, stat, bnds):
            if float(g.coolant.density) != rho:
                bad('density-not-constant', 'region coolant density differs from the material value',
                    float(g.coolant.density), rho)
            v_h = flow / (rho * ar)
            if rel(v, v_h) > 1e-12:
                bad('velocity-static', 'published static velocity of region "%s" != m / (rho A)' % g.name,
                    v, v_h, 1e-12)
            if not (f > 0 and v > 0 and de > 0):
                bad('static-params', 'non-positive static friction parameters in region "%s"' % g.name,
                    [f, v, de], '> 0')
        rod = regs[ib]
        regime = None
        if c['friction'] == 'CTD':
            f_h, regime = ctd_friction(rod, flow, mu)
            if rel(stat[ib][0], f_h) > TOL:
                bad('friction-factor-ctd', 'published CTD bundle friction factor differs from the value '
                    'recomputed from the bundle constants (%s)' % regime, stat[ib][0], f_h, TOL)
            extra['regime'] = {regime: 1}
        kept = [float(x) for x in rod.corr_constants['grid']['z']] if 'grid' in rod.corr_constants else []
        want = [g for g in grid_z if lo <= g <= hi]
        if kept != want:
            bad('grid-filter', 'grid positions retained by DASSH differ from those inside the bundle',
                kept, want)
        if want:
            kk = KGRID if c['grid_model'] == 'K' else float(rod.coolant_int_params['grid_loss_coeff'])
            if c['grid_model'] == 'K' and float(rod.coolant_int_params['grid_loss_coeff']) != KGRID:
                bad('grid-loss-coeff', 'published loss coefficient differs from the input value',
                    float(rod.coolant_int_params['grid_loss_coeff']), KGRID)
            unit = kk * rho * stat[ib][1] ** 2 / 2.0
        else:
            unit = 0.0
        rels = [relation(g, z, lo, hi) for g in grid_z]
        if gc == 'two' and not any(z[i] < grid_z[0] < grid_z[1] < z[i + 1] for i in range(len(z) - 1)):
            bad('harness-grid-placement', 'the two grids are not inside one step', grid_z)
        if (gc == 'plane' and rels != ['on-plane']) or (gc in ('inside', 'two') and set(rels) != {'inside-step'}):
            bad('harness-grid-placement', 'grid placement does not realise the grid case', rels)
        extra['grid_relation'] = {}
        for t in rels:
            extra['grid_relation'][t] = extra['grid_relation'].get(t, 0) + 1

        # -- the sweep -------------------------------------------------------
        rx.temperature_sweep()
        nstep = len(z) - 1
        r['states'] = nstep + 1
        r['transitions'] = nstep
        r['traces'] = 1
        extra.update(sweeps=1, steps=nstep, step_used={how: 1},
                     region_changes=len(regs) - 1)
        d = np.loadtxt(os.path.join(b.dir, 'pressure_drop.csv'), delimiter=',', ndmin=2)
        worst = 0.0
        fr_tot_x = sum(cf * ln for cf, ln in zip(coef, lens))
        gr_tot_x = rho * G * L if c['gravity'] else 0.0
        if d.shape != (nstep, 7):
            bad('dump-rows', 'pressure-drop dump does not have one row per step', list(d.shape), [nstep, 7])
        else:
            names = {3: 'total', 4: 'friction', 5: 'spacer_grid', 6: 'gravity'}
            seen = set()
            prev = np.zeros(7)
            for k in range(nstep):
                row = d[k]
                zk = float(z[k + 1])
                for j, nm in names.items():
                    if not np.isfinite(row[j]):
                        if ('nan', nm) not in seen:
                            seen.add(('nan', nm))
                            bad('non-finite', 'running %s pressure drop is not finite at z=%.6f' % (nm, zk),
                                float(row[j]))
                        continue
                    if row[j] < 0.0 and ('neg', nm) not in seen:
                        seen.add(('neg', nm))
                        bad('negative-' + nm, 'running %s pressure drop is negative at z=%.6f' % (nm, zk),
                            float(row[j]), '>= 0')
                    if row[j] < prev[j] and ('dec', nm) not in seen:
                        seen.add(('dec', nm))
                        bad('decreasing-' + nm, 'running %s pressure drop decreases from plane %d to %d (z=%.6f)'
                            % (nm, k, k + 1, zk), [float(prev[j]), float(row[j])], 'non-decreasing')
                x = rel(row[3], row[4] + row[5] + row[6])
                if x > TOL and 'sum' not in seen:
                    seen.add('sum')
                    bad('not-additive', 'dumped total != friction + grid + gravity at z=%.6f' % zk,
                        float(row[3]), float(row[4] + row[5] + row[6]), TOL)
                fx = sum(cf * min(max(zk - bb[0], 0.0), bb[1] - bb[0]) for cf, bb in zip(coef, bnds))
                x = rel(row[4], fx, fr_tot_x)
                worst = max(worst, x)
                if x > TOL and 'fr' not in seen:
                    seen.add('fr')
                    bad('friction-running', 'running friction pressure drop at z=%.6f (plane %d, step %.9g) '
                        'differs from sum_r f L_r(z) rho v^2 / (2 De)' % (zk, k + 1, float(rx.dz[k])),
                        float(row[4]), fx, TOL * fr_tot_x)
                gx = rho * G * zk if c['gravity'] else 0.0
                x = rel(row[6], gx, gr_tot_x) if c['gravity'] else abs(row[6])
                worst = max(worst, x)
                if x > TOL and 'gr' not in seen:
                    seen.add('gr')
                    bad('gravity-running', 'running gravity head at z=%.6f (plane %d) differs from rho g z'
                        % (zk, k + 1), float(row[6]), gx, TOL * gr_tot_x)
                prev = row

        # -- final object state ---------------------------------------------
        parts = [dict((k, float(v)) for k, v in g._pressure_drop.items()) for g in regs]
        fr = [p['friction'] for p in parts]
        gr = [p['gravity'] for p in parts]
        sg = [p.get('spacer_grid', 0.0) for p in parts]
        total = float(asm.pressure_drop)
        by_reg = [float(g.pressure_drop) for g in regs]
        tsum = sum(fr) + sum(sg) + sum(gr)
        for g, p in zip(regs, parts):
            for k, v in sorted(p.items()):
                if not (v >= 0.0):
                    bad('negative-part', 'region "%s" %s pressure drop is negative or NaN' % (g.name, k), v, '>= 0')
        if rel(total, sum(by_reg)) > TOL:
            bad('assembly-total', 'Assembly.pressure_drop != sum of the region pressure drops '
                '(a finished region was lost or counted twice)', total, sum(by_reg), TOL)
        if rel(total, tsum) > TOL:
            bad('not-additive', 'Assembly.pressure_drop != friction + grid + gravity summed over the regions',
                total, tsum, TOL)
        for g, p, t in zip(regs, parts, by_reg):
            if rel(t, sum(p.values())) > TOL:
                bad('region-total', 'region "%s" pressure_drop != sum of its parts' % g.name, t, sum(p.values()), TOL)
        if d.shape == (nstep, 7) and nstep:
            last = d[-1]
            obj = [total, sum(fr), sum(sg), sum(gr)]
            if any(rel(float(last[3 + j]), obj[j]) > TOL for j in range(4)):
                bad('dump-vs-state', 'last dumped row differs from the object state',
                    [float(x) for x in last[3:]], obj, TOL)
        for g, cf, ln, f_o, g_o in zip(regs, coef, lens, fr, gr):
            x = rel(f_o, cf * ln)
            worst = max(worst, x)
            if x > TOL:
                bad('friction-closed-form', 'friction pressure drop of region "%s" != f L rho v^2 / (2 De)'
                    % g.name, f_o, cf * ln, TOL)
            gx = rho * G * ln if c['gravity'] else 0.0
            x = rel(g_o, gx) if c['gravity'] else abs(g_o)
            worst = max(worst, x)
            if x > TOL:
                bad('gravity-closed-form', 'gravity head of region "%s" != rho g L' % g.name, g_o, gx, TOL)
        sg_x = len(want) * unit
        grid_ok = True
        counted = None
        if want:
            counted = sg[ib] / unit
            key = '%s:%d->%s' % (gc, len(want), ('%.6g' % counted))
            extra['grid_count'] = {key: 1}
            if abs(sg[ib] - sg_x) > TOL * unit:
                grid_ok = False
                if abs(counted - round(counted)) > 1e-6:
                    kind = 'grid-loss-closed-form'      # not a whole number of K rho v^2 / 2
                else:
                    kind = 'grid-undercount' if sg[ib] < sg_x else 'grid-overcount'
                near = []
                for gz in want:
                    i = int(np.searchsorted(z, gz))
                    near.append([float(z[max(i - 1, 0)]), gz, float(z[min(i, len(z) - 1)])])
                bad(kind, 'bundle spacer-grid loss is %.6g x K rho v^2/2 but %d grid(s) lie inside the bundle '
                    '[%.4f, %.4f] (grid case %s: %s; step used %.9g m)'
                    % (counted, len(want), lo, hi, gc, ', '.join(rels), used),
                    {'spacer_grid': sg[ib], 'counted': counted, 'plane_below/grid/plane_at_or_above': near},
                    {'spacer_grid': sg_x, 'counted': len(want)}, TOL * unit, site=SITE_GRID)
        elif sum(sg) != 0.0:
            grid_ok = False
            bad('grid-overcount', 'spacer-grid loss without a grid inside the bundle', sum(sg), 0.0,
                site=SITE_GRID)

        # -- the printed table ------------------------------------------------
        try:
            txt = dassh.table.PressureDropTable(len(regs)).generate(rx)
            lines = [ln for ln in txt.splitlines() if ln.strip()]
            i0 = max(i for i, ln in enumerate(lines) if set(ln.strip()) == {'-'})
            tok = lines[i0 + 1].split()[-(4 + len(regs)):]
            exp_t = [total, sum(fr), sum(sg) if sum(sg) > 0.0 else None,
                     sum(gr) if c['gravity'] else None] + by_reg
            for name, t, e in zip(['Total', 'Friction', 'SpacerGrid', 'Gravity']
                                  + ['Region %d' % (i + 1) for i in range(len(regs))], tok, exp_t):
                if e is None:
                    ok = (t == '---')
                else:
                    try:
                        ok = rel(float(t) * 1e6, e) <= TOL_TABLE
                    except ValueError:
                        ok = False
                if not ok:
                    bad('table-mismatch', 'PressureDropTable column "%s" differs from the object state' % name,
                        t, None if e is None else e / 1e6, TOL_TABLE)
                    break
        except Exception as e:      # noqa
            bad('table-exception', 'PressureDropTable.generate: %s: %s' % (type(e).__name__, str(e)[:200]),
                site=site_of(e))

        # -- the same march through the other entry of Assembly.calculate: plane positions handed in ------------
        # (stand-alone drivers pass z = the upper plane of the step; the Reactor lets the assembly count).  The same
        # planes, the same steps: the same parts of the pressure drop.
        if c.get('explicit_z', True) and not V:
            try:
                rx2 = _reactor(b)
                a2 = rx2.assemblies[0]
                z2, dz2 = np.asarray(rx2.z, dtype=float), np.asarray(rx2.dz, dtype=float)
                gt = np.ones(a2.duct_outer_surf_temp.shape[0])
                for j in range(1, len(z2)):
                    gt = np.ones(a2.duct_outer_surf_temp.shape[0])
                    a2.calculate(float(dz2[j - 1]), gt, gt, z=float(z2[j]), adiabatic=True)
                    if j + 1 < len(z2) and a2.check_region_update(z2[j + 1]):
                        a2.update_region(z2[j + 1], rx2.core.adjacent_coolant_gap_temp(0),
                                         rx2.core.adjacent_coolant_gap_htc(0), True)
                r['traces'] += 1
                r['transitions'] += len(z2) - 1
                parts2 = [dict((k, float(v)) for k, v in g._pressure_drop.items()) for g in a2.region]
                for nm, mine in (('friction', sum(fr)), ('spacer_grid', sum(sg)), ('gravity', sum(gr))):
                    oth = sum(p_.get(nm, 0.0) for p_ in parts2)
                    if rel(oth, mine, max(total, 1e-300)) > TOL:
                        bad('explicit-z-differs', '%s pressure drop of the march with plane positions handed to '
                            'Assembly.calculate(z=...) differs from that of the Reactor\'s own march over the same planes'
                            % nm, oth, mine, TOL * total, site='assembly.py:calculate')
                        break
            except Rejected:
                pass
            except Exception as e:      # noqa
                bad('explicit-z-exception', 'march with explicit plane positions: %s: %s'
                    % (type(e).__name__, str(e)[:200]), site=site_of(e))

        base = dict(c)
        del base['step_case']
        r['key'] = canon(dict(base, dz_used=used))
        r['nontrivial'] = bool(nstep >= 2 and total > 0.0)
        r['outcome'] = 'ok' if not V else 'violation'
        r['info'] = {'dz_used': used, 'how': how, 'steps': nstep, 'total': total, 'friction': sum(fr),
                     'spacer_grid': sum(sg), 'gravity': sum(gr), 'grids_in_bundle': len(want),
                     'grids_counted': counted, 'grid_ok': grid_ok, 'grid_z': grid_z,
                     'worst_rel_residual': float(worst), 'regime': regime}
        return r
    finally:
        b.close()


# ----------------------------------------------------------------------
def cross_step(run, cs, results):
    """friction, gravity (and correctly counted grid losses) must not depend
    on the step case"""
    groups = {}
    for c, r in zip(cs, results):
        if not r.get('info'):
            continue
        base = dict(c)
        del base['step_case']
        groups.setdefault(canon(base), []).append((c, r['info']))
    ngroups = 0
    worst = 0.0
    for k in sorted(groups):
        g = groups[k]
        if len(g) < 2:
            continue
        ngroups += 1
        c0, i0 = g[0]
        for c1, i1 in g[1:]:
            for part in ('friction', 'gravity', 'spacer_grid'):
                if part == 'spacer_grid' and not (i0['grid_ok'] and i1['grid_ok']):
                    continue
                x = rel(i0[part], i1[part])
                worst = max(worst, x)
                if x > TOL:
                    v = violation('step-dependent-' + part, dict(c1, ref_step_case=c0['step_case']),
                                  '%s pressure drop differs between step cases %s (dz %.9g) and %s (dz %.9g)'
                                  % (part, c0['step_case'], i0['dz_used'], c1['step_case'], i1['dz_used']),
                                  i1[part], i0[part], TOL)
                    run.violations.append(dict(v, part='sweep'))
    run.notes['cross_step_groups'] = ngroups
    run.notes['cross_step_worst_rel_difference'] = worst


# ----------------------------------------------------------------------
# several assemblies of one type (clones of one template) with spacer grids and gravity, different flows:
# every assembly must report its own closed-form losses
def sibling_cases(tier):
    out = []
    for bundle in (('b3',) if tier == 'quick' else ('b2', 'b3', 'w3')):
        for nasm in (2, 3, 7) if tier != 'quick' else (2, 4):
            for gm in ('K', 'REH'):
                for structure in ('bundle', 'multi'):
                    for dz in (None, 0.007):
                        out.append(dict(bundle=bundle, friction='CTD', flow='turb', step_case='limit',
                                        grid_case='fixed3', grid_model=gm, gravity=True, structure=structure,
                                        nasm=nasm, user_dz=dz))
    return out


def run_siblings(c):
    r = new_result()
    V = r['violations']
    grid_z = [0.05, 0.15, 0.25]
    scn, flow = build_scn(c, c.get('user_dz'), grid_z)
    pos = S.core_positions(2)[:c['nasm']]
    spec = scn['power']['asm']['1']
    scn['assign'] = [['A', rg, p, {'flowrate': flow * (1.0 + 0.4 * i)}] for i, (rg, p) in enumerate(pos)]
    scn['power']['asm'] = {str(S.asm_id(rg, p) + 1): dict(spec) for rg, p in pos}
    regs, bi = bounds(c)
    lo, hi = regs[bi]
    n_in = sum(1 for z in grid_z if lo - 1e-12 <= z <= hi + 1e-12)
    with S.Built(scn) as b:
        rx = _reactor(b)
        stat = [[region_static(reg) for reg in a.region] for a in rx.assemblies]
        kg = [float(a.rodded.coolant_int_params.get('grid_loss_coeff', float('nan'))) for a in rx.assemblies]
        rx.temperature_sweep()
        rho = float(dassh_density())
        for ai, a in enumerate(rx.assemblies):
            fr = sum(f * (z1 - z0) * rho * v * v / (2.0 * de) for (f, v, de, ar), (z0, z1) in zip(stat[ai], regs))
            gv = rho * 9.80665 * L
            v_b = stat[ai][bi][1]
            gd = n_in * kg[ai] * rho * v_b * v_b / 2.0
            parts = {'friction': 0.0, 'spacer_grid': 0.0, 'gravity': 0.0}
            for reg in a.region:
                for k, x in reg._pressure_drop.items():
                    parts[k] += float(x)
            for nm, got, want in (('friction', parts['friction'], fr), ('gravity', parts['gravity'], gv),
                                  ('spacer_grid', parts['spacer_grid'], gd),
                                  ('total', float(a.pressure_drop), fr + gv + gd)):
                if abs(got - want) > TOL * max(abs(want), 1e-9):
                    V.append(violation('sibling-' + nm, dict(c, asm=int(a.id)),
                                       '%s pressure drop of assembly %d (one of %d clones of a type) differs from its '
                                       'closed form' % (nm, a.id, c['nasm']), got, want, TOL * max(abs(want), 1e-9),
                                       site='RoddedRegion.calculate_spacergrid_pressure_drop' if nm == 'spacer_grid' else None))
            r['states'] += len(rx.z)
        r['transitions'] = (len(rx.z) - 1) * len(rx.assemblies)
    r['traces'] = 1
    r['nontrivial'] = True
    r['outcome'] = 'ok' if not V else 'violation'
    return r


def lowfi_cases(tier):
    out = []
    for model in ('simple', '6node'):
        for grav in (True, False):
            for structure in ('bundle', 'multi'):
                for flow in (('turb',) if tier == 'quick' else FLOWS):
                    for bundle in (('w3',) if tier == 'quick' else ('w2', 'w3', 'b3')):
                        out.append(dict(probe='lowfi', model=model, gravity=grav, structure=structure, flow=flow,
                                        bundle=bundle, friction='CTD', step_case='limit', grid_case='none',
                                        grid_model='K'))
    return out


def run_lowfi(c):
    """an assembly run with use_low_fidelity_model next to the same assembly pin-resolved: parts non-negative,
    total = friction + grid + gravity = sum of regions, gravity part = rho g L over the WHOLE core length
    (0 with gravity off) for both, friction of the low-fidelity bundle = f L rho v^2 / (2 De) with the
    friction factor, velocity and hydraulic diameter the region publishes"""
    r = new_result()
    V = r['violations']
    scn, flow = build_scn(c, None, [])
    low = dict(scn['types']['A'])
    low['use_low_fidelity_model'] = True
    # (the documented key; region_unrodded.make reads the undocumented key `model` instead, so both values
    # build the single-node model - see DESIGN.md 11.2)
    low['low_fidelity_model'] = c['model']
    scn['types']['B'] = low
    spec = scn['power']['asm']['1']
    scn['assign'] = [['A', 1, 1, {'flowrate': flow}], ['B', 2, 1, {'flowrate': flow}], ['B', 2, 2, {'flowrate': 0.6 * flow}]]
    scn['power']['asm'] = {'1': dict(spec), '2': dict(spec), '3': dict(spec)}
    with S.Built(scn) as b:
        rx = _reactor(b)
        stat = [[region_static(reg) for reg in a.region] for a in rx.assemblies]
        rx.temperature_sweep()
        rho = float(dassh_density())
        gv = rho * 9.80665 * L if c['gravity'] else 0.0
        regs, bi = bounds(c)
        for ai, a in enumerate(rx.assemblies):
            parts = {'friction': 0.0, 'spacer_grid': 0.0, 'gravity': 0.0}
            for reg in a.region:
                for k, x in reg._pressure_drop.items():
                    parts[k] += float(x)
            fr = sum(f * (z1 - z0) * rho * v * v / (2.0 * de) for (f, v, de, ar), (z0, z1) in zip(stat[ai], regs))
            sc = dict(c, asm=int(a.id), kind_of_assembly='low-fidelity' if ai else 'pin bundle')
            for nm, got, want in (('gravity', parts['gravity'], gv), ('friction', parts['friction'], fr),
                                  ('total', float(a.pressure_drop), fr + gv),
                                  ('regions', sum(float(reg.pressure_drop) for reg in a.region), fr + gv)):
                if abs(got - want) > TOL * max(abs(want), 1e-9) + (1e-9 if want == 0.0 else 0.0):
                    V.append(violation('lowfi-' + nm, sc, '%s part of the pressure drop of assembly %d (%s) differs from '
                                       'its closed form' % (nm, a.id, sc['kind_of_assembly']), got, want,
                                       TOL * max(abs(want), 1e-9),
                                       site='region_unrodded.py' if ai else 'region_rodded.py'))
            if min(parts.values()) < 0.0:
                V.append(violation('lowfi-negative-part', sc, 'negative pressure drop part', parts, '>= 0'))
            r['states'] += len(rx.z)
        r['transitions'] = (len(rx.z) - 1) * 3
    r['traces'] = 1
    r['nontrivial'] = True
    r['outcome'] = 'ok' if not V else 'violation'
    return r


def dassh_density():
    import dassh
    return dassh.Material(COOLANT).density


def main(run):
    run.rule = ('one case = one complete sweep; families A (no grids: bundle x friction x flow x step x gravity x '
                'structure), B (bare bundles with grids: ... x grid case), C (REH / CDD loss coefficient), '
                'D (wire wrap + grids), each a full product of the letters listed in cases(); '
                'non-trivial = sweep finished with >= 2 steps and a positive pressure drop; sweeps whose '
                'requested steps lead to the same step actually used are the same execution and are merged '
                '(key = scenario without step_case + step used)')
    run.assumptions = [
        'closed forms use the friction factor, velocity, hydraulic diameter (and REH/CDD loss coefficient) '
        'published by each region before the sweep; density and viscosity are the harness\'s own Material',
        'a grid exactly at the bundle inlet or outlet is inside the bundle (DASSH input check keeps it silently)',
        'NOV / ENG / CTS / REH friction are not combined with bare bundles (refused by DASSH applicability check; '
        'the CTS crash before that check is recorded elsewhere)',
        'VERIF_SEED is not used']
    cs = cases(run.tier)
    run.check_determinism(run_case, cs[0])
    res = run.explore('sweep', cs, run_case, budget_s=120, chunksize=4)
    cross_step(run, cs, res)
    run.explore('siblings', sibling_cases(run.tier), run_siblings, budget_s=300, chunksize=1)
    run.explore('lowfi', lowfi_cases(run.tier), run_lowfi, budget_s=300, chunksize=1)
    # the csv dump of this property's field: every row is the recorded field of that assembly at that plane
    from . import reports as _rep
    run.explore('report-dumps', _rep.cases_dumps(run.tier), _rep.run_dumps_C14, budget_s=300)
    run.notes['worst_rel_residual'] = max([x['info']['worst_rel_residual'] for x in res if x.get('info')] or [0.0])
    # vacuity
    need = [('step_used', 'user-step-honoured'), ('step_used', 'user-step-ignored'),
            ('step_used', 'default-step'), ('grid_relation', 'on-plane'), ('grid_relation', 'inside-step'),
            ('grid_relation', 'at-inlet'), ('grid_relation', 'at-outlet'), ('grid_relation', 'outside-bundle'),
            ('regime', 'laminar'), ('regime', 'transition'), ('regime', 'turbulent')]
    for grp, lab in need:
        if not any(k.startswith(lab) for k in run.extra.get(grp, {})):
            run.violations.append(dict(violation('vacuous-alphabet', {}, '%s "%s" never occurred' % (grp, lab)),
                                       part='sweep'))
    if not run.extra.get('region_changes'):
        run.violations.append(dict(violation('vacuous-alphabet', {}, 'no region change observed'), part='sweep'))


def replay(body):
    if str((body.get('scenario') or {}).get('probe', '')).startswith('report-'):
        from . import reports
        return reports.replay(body)
    from ..run import guarded
    sc = dict(body['scenario'])
    sc.pop('ref_step_case', None)
    for k in ('asm', 'kind_of_assembly'):
        if sc.get('probe') == 'lowfi':
            sc.pop(k, None)
    fn = run_lowfi if sc.get('probe') == 'lowfi' else (run_siblings if body.get('part') == 'siblings' else run_case)
    r = guarded(fn, sc, 600)
    for v in r['violations']:
        print('VIOLATION property=C14 replay=(inline) kind=%s %s observed=%s expected=%s'
              % (v['kind'], v['what'], v.get('observed'), v.get('expected')))
    print('outcome', r['outcome'], r.get('info'))
    return 1 if r['violations'] else 0
