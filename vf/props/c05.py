"""C05  Axial mesh is finite, monotone, exact on boundaries, within limit.

Part A (explicit-state search on the narrowest seam).  The three real methods
`Reactor._setup_axial_region_bnds`, `_setup_overall_axial_mesh_req` and
`_setup_zpts/_check_dz` are driven on a bare `Reactor` instance
(`Reactor.__new__`) that carries only the attributes these methods read.

  stage 1 'stub-setup'  every input of the alphabet (core length x boundary
          set with near-coincident partner x requirement x user request) is
          pushed through the two real set-up methods; the user rule, the
          limit and the 1 cm cap are judged here; the result is the canonical
          walker state (rounded boundary tuple, chosen step).
  stage 2 'stub-walk'   every DISTINCT canonical state is walked once by the
          real `_setup_zpts` under the deterministic progress monitor and the
          mesh oracle is evaluated on every plane.  Merging is sound because
          `_setup_zpts/_check_dz` read nothing but axial_bnds, core_length
          (= axial_bnds[-1]) and req_dz.
  join    in the parent: each input inherits the verdict of its state, so a
          violation is reported with the *input* that reaches it.

Part B 'ctor' binds the seam to the real constructor: full inputs are built
with vf.scenario, `dassh.Reactor(...)` is constructed under the same monitor
(class-level patch inside the worker), the same oracle is applied to
Reactor.z / dz / axial_bnds / req_dz / min_dz and the stub-driven mesh for the
same (bounds, requirements, request) must equal Reactor.z bit for bit.

Non-termination is detected by the progress monitor (non-positive step, plane
not advancing, or more than L/dz + #boundaries + 10 calls) - never by the
clock; the SIGALRM budget of vf.run.guarded is only a backstop.
"""
import copy
import itertools
import math

import numpy as np

from ..run import (new_result, violation, site_of, guarded, NoProgress,
                   canon)
from .. import scenario as S

# ----------------------------------------------------------------------
# tolerances (derived, not tuned)
GRID = 1e-12             # dassh resolves planes to 1e-12 m (np.around(., 12))
TOL_DZ = 0.5e-12 * 1.001   # one rounding of a clipped step to the 1e-12 grid
TOL_DIFF = 1.0e-12 * 1.001  # two roundings (both planes) in z[i+1] - z[i]
CAP = 0.01               # 1 cm accuracy cap of _setup_overall_axial_mesh_req


def tol_bnd(L):
    """supplied boundary -> nearest plane: half a grid cell plus round-off of
    the unit conversions (x*100*1e-2, x/0.3048*0.3048: a few ulp of L)"""
    return 0.5e-12 + 8.0 * float(np.spacing(max(abs(L), 1e-3)))


# ----------------------------------------------------------------------
# alphabet (DESIGN.md, C05 / E)
FT = 12.30315 * 2.54 * 12.0 / 100.0      # 12.30315 ft written in metres
LONG = [('0.3', 0.3), ('1.0', 1.0), ('3.75', 3.75), ('12.30315ft', FT)]
LONG_Q = [('0.3', 0.3), ('12.30315ft', FT)]
SHORT = [('3mm', 0.003)]
REQS = [('3e-7', 3e-7), ('9.99e-7', 9.99e-7), ('1e-6', 1e-6),
        ('1.0000001e-6', 1.0000001e-6), ('1e-5', 1e-5), ('1/3mm', 1e-3 / 3.0),
        ('3.34567mm', 3.34567e-3), ('1cm', 0.01), ('1.00001cm', 0.0100001),
        ('5cm', 0.05)]
OFFS = [('1e-13', 1e-13), ('1e-9', 1e-9), ('1e-7', 1e-7)]
HOWS = ['1e-13', '1e-9', '1e-7', 'cm', 'ft']
OFFV = dict(OFFS)


def floor_um(m):
    """the requirement as dassh reports it: smallest requirement rounded
    down to a whole micrometre (independent recomputation)"""
    return math.floor(m * 1e6) / 1e6


def req_list(req):
    """three requirements (two assemblies + gap), minimum in the middle"""
    return [2.0 * req, req, 0.06 + req]


def user_values(req):
    """user request alphabet for one requirement, duplicates (by value)
    removed, first label wins"""
    m = min(req_list(req))
    f = floor_um(m)
    raw = [('none', None), ('zero', 0.0), ('subres', 1e-13), ('tiny', 1e-6),
           ('half', f / 2.0), ('equal', f), ('truemin', m),
           ('above-floor', float(np.nextafter(f, np.inf))),
           ('above-min', float(np.nextafter(m, np.inf))), ('1m', 1.0)]
    out, seen = [], set()
    for lab, v in raw:
        k = repr(v)
        if k in seen:
            continue
        seen.add(k)
        out.append((lab, v))
    return out


def expected_step(req, user):
    """harness-side estimate used ONLY to choose a core length that keeps a
    legitimate mesh small (it is not part of any oracle)"""
    m = min(req_list(req))
    f = floor_um(m)
    if user is not None and user <= f:
        return user
    return min(f, CAP)


def degenerate(m, user):
    """inputs for which 'fails with an error' is an acceptable outcome: a
    requirement or a request below dassh's own 1e-6 m resolution"""
    return bool(m < 1e-6 or (user is not None and user < 1e-6))


def boundary_sets(tier):
    """list of (ks, partner_of, partner_how)"""
    out = []
    if tier == 'thorough':
        for n in range(0, 5):
            for ks in itertools.combinations(range(1, 8), n):
                out.append((list(ks), None, None))
                for how, _ in OFFS:
                    out.append((list(ks), '0', how))
                for of in [str(k) for k in ks] + ['L']:
                    for how in HOWS:
                        out.append((list(ks), of, how))
    else:
        for n in range(0, 2):
            for ks in itertools.combinations(range(1, 8), n):
                out.append((list(ks), None, None))
                for how, _ in OFFS:
                    out.append((list(ks), '0', how))
                for of in [str(k) for k in ks] + ['L']:
                    for how in HOWS:
                        out.append((list(ks), of, how))
        for ks in itertools.combinations(range(1, 8), 2):
            out.append((list(ks), None, None))
            out.append((list(ks), str(ks[0]), '1e-9'))
            out.append((list(ks), str(ks[1]), 'ft'))
    return out


def stub_cases(tier):
    bsets = boundary_sets(tier)
    long_ = LONG if tier == 'thorough' else LONG_Q
    out = []
    for rname, req in REQS:
        m = min(req_list(req))
        for ulab, user in user_values(req):
            s = expected_step(req, user)
            if s < 1e-4:
                lens = SHORT
            elif s < 1e-3 and tier != 'thorough':
                # quick: the short core, and for the plain 1/3 mm requirement also the long one (11 250 steps)
                lens = long_ if (rname == '1/3mm' and ulab == 'none') else long_[:1]
            else:
                lens = long_
            for lname, L in lens:
                for ks, of, how in bsets:
                    out.append({
                        'part': 'stub', 'Lname': lname, 'L': L, 'ks': ks,
                        'partner_of': of, 'partner': how,
                        'reqname': rname, 'req': req,
                        'user': ulab, 'user_dz': user,
                        'req_floor_zero': bool(floor_um(m) == 0.0),
                        'user_zero': bool(user is not None and user == 0.0)})
    return out


# ----------------------------------------------------------------------
# materialise a stub case: boundary values per input channel
def _m2ft2m(x):
    return (x * 100 / 2.54 / 12.0) * 2.54 * 12.0 / 100.0


def _m2cm2m(x):
    return (x * 100.0) / 100.0


def materialise(c):
    """-> dict(R=[(z_lo, z_hi)...], U=[...], P=[... m], supplied=[... m])
    channels: R AxialRegion edges (m), U requested planes (m), P user power
    mesh (handed over in cm; the code under test multiplies by 1e-2)."""
    L = c['L']
    chans = 'RUP'
    R, U, P = [(0.0, L)], [], []
    supplied = [0.0, L]
    where = {'0': 'R', 'L': 'R'}
    base = {'0': 0.0, 'L': L}

    def put(ch, v, top=False):
        if ch == 'R':
            R.append((0.0, v) if top else (v, L))
        elif ch == 'U':
            U.append(v)
        else:
            P.append(v)
        supplied.append(v)

    for i, k in enumerate(c['ks']):
        v = k * L / 8.0
        ch = chans[i % 3]
        where[str(k)] = ch
        base[str(k)] = v
        put(ch, v)
    if c['partner_of'] is not None:
        of, how = c['partner_of'], c['partner']
        bv = base[of]
        if how in OFFV:
            pv = bv - OFFV[how] if of == 'L' else bv + OFFV[how]
        elif how == 'cm':
            pv = _m2cm2m(bv)
        else:
            pv = _m2ft2m(bv)
        ch = chans[(chans.index(where[of]) + 1) % 3]
        put(ch, pv, top=(of == 'L'))
    return {'R': R, 'U': U, 'P': P, 'supplied': supplied}


# ----------------------------------------------------------------------
# the seam: a bare Reactor that carries only what the three methods read
class _Inp(object):
    def __init__(self, asm):
        self.data = {'Assembly': asm}


def new_stub(msgs):
    from dassh.reactor import Reactor
    from dassh.logged_class import LoggedClass
    o = Reactor.__new__(Reactor)
    LoggedClass.__init__(o, 0, 'dassh.reactor.Reactor')

    def log(level, message, indent=None):
        msgs.append((str(level).lower(), str(message)))
        return LoggedClass.log(o, level, message, indent)
    o.log = log
    return o


def mon_limit(o):
    s = float(o.req_dz)
    L = float(o.core_length)
    n = 0
    if s > 0 and math.isfinite(L / s):
        n = int(L / s)
    return n + len(o.axial_bnds) + 10


def mon_step(st, o, z, real):
    """deterministic progress monitor round one `_check_dz` call"""
    if st.get('limit') is None:
        st['limit'] = mon_limit(o)
        st['calls'] = 0
        st['last'] = None
    st['calls'] += 1
    if st['calls'] > st['limit']:
        e = NoProgress('_check_dz called %d times > L/dz + #bnds + 10 = %d'
                       % (st['calls'], st['limit']))
        e.reason = 'call-bound'
        raise e
    zf = float(z)
    if st['last'] is not None and not zf > st['last']:
        e = NoProgress('plane did not advance: z = %r after z = %r (step %r)'
                       % (zf, st['last'], float(o.req_dz)))
        e.reason = 'plane-not-advancing'
        raise e
    st['last'] = zf
    step = real(z)
    if not step > 0:
        e = NoProgress('_check_dz(%r) returned non-positive step %r'
                       % (zf, float(step)))
        e.reason = 'nonpositive-step'
        raise e
    return step


def monitor_instance(o):
    real = o._check_dz
    st = {}

    def wrapped(z):
        return mon_step(st, o, z, real)
    o._check_dz = wrapped
    return st


def last_error(msgs):
    for lev, m in reversed(msgs):
        if lev in ('error', 'critical'):
            return m
    return None


# ----------------------------------------------------------------------
# oracles (shared by part A and part B)
def judge_bounds(supplied, bnds, core_length, bad):
    b = np.asarray(bnds, dtype=float)
    L = max(supplied)
    tol = tol_bnd(L)
    if b.ndim != 1 or len(b) < 2 or not np.all(np.isfinite(b)):
        bad('bounds-malformed', 'axial_bnds is not a finite 1-d array of >= 2 values',
            b.tolist(), None, None)
        return
    if not np.all(np.diff(b) > 0):
        bad('bounds-not-increasing', 'merged boundaries are not strictly increasing',
            b.tolist(), None, None)
    if b[0] != 0.0:
        bad('bounds-start', 'first merged boundary is not 0', float(b[0]), 0.0, 0)
    if float(core_length) != float(b[-1]):
        bad('core-length', 'core_length is not the last merged boundary',
            float(core_length), float(b[-1]), 0)
    if abs(float(core_length) - L) > tol:
        bad('core-length', 'core_length differs from the largest supplied boundary',
            float(core_length), L, tol)
    for v in supplied:
        d = float(np.min(np.abs(b - v)))
        if d > tol:
            bad('boundary-lost', 'supplied boundary %r has no merged boundary within the rounding resolution' % v,
                d, 0.0, tol)
            break


def judge_step(reqs, user, got, base, bad):
    """limit, user rule and cap.  m = smallest requirement; f = m rounded
    down to a micrometre = the limit dassh reports ('Axial step size
    required').  user <= f must be honoured, user > m must be ignored, a
    request in the window (f, m] may be either (both are stable)."""
    m = float(min(reqs))
    f = floor_um(m)
    got = float(got)
    verdict = 'none'
    if not got <= m:
        bad('step-exceeds-requirement', 'chosen step exceeds the smallest stability requirement',
            got, m, 0)
    if base is not None:
        base = float(base)
        if not (base <= m and base <= CAP):
            bad('cap-1cm-exceeded' if base <= m else 'step-exceeds-requirement',
                'step chosen without a user request exceeds min(requirement, 1 cm)',
                base, min(m, CAP), 0)
    if user is None:
        if not got <= CAP:
            bad('cap-1cm-exceeded', 'no user request, step above 1 cm', got, CAP, 0)
        return verdict
    user = float(user)
    honoured = (got == user)
    ignored = (base is not None and got == base)
    if user <= f:
        verdict = 'honoured'
        if not honoured:
            bad('user-step-not-honoured', 'request at/below the limit %r was not used' % f,
                got, user, 0)
    elif user > m:
        verdict = 'ignored'
        if not ignored:
            bad('user-step-not-ignored', 'request above the requirement %r changed the step' % m,
                got, base, 0)
    else:
        verdict = 'window-honoured' if honoured else 'window-ignored'
        if not (honoured or ignored):
            bad('user-step-rule', 'request in the window (floored, true] neither honoured nor ignored',
                got, [user, base], 0)
    if not honoured and not got <= CAP:
        bad('cap-1cm-exceeded', 'user request not used, step above 1 cm', got, CAP, 0)
    return verdict


def judge_mesh(z, dz, bnds, core_length, step, bad):
    """the property on one finished mesh; returns small statistics"""
    z = np.asarray(z, dtype=float)
    dz = np.asarray(dz, dtype=float)
    b = np.asarray(bnds, dtype=float)
    L = float(core_length)
    step = float(step)
    st = {'planes': int(len(z)), 'clipped': 0, 'min_step': None}
    if z.ndim != 1 or len(z) < 2:
        bad('mesh-empty', 'fewer than two planes', int(len(z)), '>= 2', 0)
        return st
    if not (np.all(np.isfinite(z)) and np.all(np.isfinite(dz))):
        bad('mesh-not-finite', 'NaN/inf among planes or steps', None, None, 0)
        return st
    if z[0] != 0.0:
        bad('mesh-start', 'first plane is not 0', float(z[0]), 0.0, 0)
    if z[-1] != L:
        bad('mesh-end', 'last plane is not exactly the core length', float(z[-1]), L, 0)
    d = np.diff(z)
    if not np.all(d > 0):
        i = int(np.argmin(d))
        bad('mesh-not-increasing', 'planes not strictly increasing at index %d' % i,
            [float(z[i]), float(z[i + 1])], None, 0)
    if len(dz) != len(z) - 1:
        bad('dz-length', 'len(dz) != len(z) - 1', int(len(dz)), int(len(z) - 1), 0)
    elif len(dz):
        if not np.all(dz > 0):
            bad('dz-nonpositive', 'non-positive step in dz', float(np.min(dz)), '> 0', 0)
        if float(np.max(dz)) > step + TOL_DZ:
            bad('step-exceeds-chosen', 'a step in dz exceeds the chosen step',
                float(np.max(dz)), step, TOL_DZ)
        st['clipped'] = int(np.sum(dz < step))
        st['min_step'] = float(np.min(dz))
    if float(np.max(d)) > step + TOL_DIFF:
        bad('step-exceeds-chosen', 'a plane distance exceeds the chosen step',
            float(np.max(d)), step, TOL_DIFF)
    planes = set(z.tolist())
    miss = [float(x) for x in b.tolist() if float(x) not in planes]
    if miss:
        bad('boundary-not-a-plane', '%d merged boundaries are not planes, first %r' % (len(miss), miss[0]),
            miss[:4], 'all of axial_bnds in z', 0)
    return st


def judge_reject(m, user, msg, where, bad):
    if not degenerate(m, user):
        bad('valid-input-rejected', 'SystemExit in %s for an input with requirement and request >= 1e-6 m: %s'
            % (where, msg), None, None, None)
    if not msg:
        bad('exit-without-message', 'SystemExit in %s without an error message' % where,
            None, None, None)


# ----------------------------------------------------------------------
# Part A, stage 1: inputs -> canonical walker state
def _drive_setup(vals, reqs, user, msgs):
    o = new_stub(msgs)
    o._options = {'axial_mesh_size': user,
                  'axial_plane': list(vals['U']) if vals['U'] else None}
    o.power = {}
    if vals['P']:
        zfm = np.array(sorted(set([0.0, max(vals['supplied'][:2])] + vals['P']))) * 100.0
        o.power['user'] = [(1.0, {'zfm': zfm})]
    asm = {'A': {'AxialRegion': {}}}
    for i, (lo, hi) in enumerate(vals['R']):
        asm['A']['AxialRegion']['rods' if i == 0 else 'r%d' % i] = {'z_lo': lo, 'z_hi': hi}
    o._setup_axial_region_bnds(_Inp(asm))
    o.min_dz = {'dz': list(reqs), 'sc': ['1-22'] * len(reqs)}
    return o


def setup_stage(c):
    r = new_result()
    V = r['violations']

    def bad(kind, what, obs=None, exp=None, tol=None, site=None):
        V.append(violation(kind, c, what, obs, exp, tol,
                           site or 'reactor.py:_setup_overall_axial_mesh_req'))

    def bad_b(kind, what, obs=None, exp=None, tol=None):
        V.append(violation(kind, c, what, obs, exp, tol,
                           'reactor.py:_setup_axial_region_bnds'))

    vals = materialise(c)
    reqs = req_list(c['req'])
    user = c['user_dz']
    m = min(reqs)
    msgs = []
    o = _drive_setup(vals, reqs, user, msgs)
    r['transitions'] += 1
    judge_bounds(vals['supplied'], o.axial_bnds, o.core_length, bad_b)
    r['state'] = None
    r['verdict'] = None
    # differential partner: the same input without a request
    base = None
    if user is not None:
        ob = _drive_setup(vals, reqs, None, [])
        try:
            ob._setup_overall_axial_mesh_req()
            base = float(ob.req_dz)
        except SystemExit:
            base = None
        r['transitions'] += 2
    try:
        o._setup_overall_axial_mesh_req()
        r['transitions'] += 1
    except SystemExit:
        judge_reject(m, user, last_error(msgs), '_setup_overall_axial_mesh_req', bad)
        r['outcome'] = 'rejected'
        r['states'] = 1
        return r
    if user is None:
        base = float(o.req_dz)
    r['verdict'] = judge_step(reqs, user, o.req_dz, base, bad)
    r['state'] = {'bnds': [float(x) for x in o.axial_bnds], 'step': float(o.req_dz)}
    r['key'] = canon([r['state']['bnds'], r['state']['step']])
    r['nontrivial'] = True
    r['states'] = 1
    r['outcome'] = 'state'
    r['info'] = {'bnds': r['state']['bnds'], 'step': r['state']['step'],
                 'verdict': r['verdict']}
    return r


# ----------------------------------------------------------------------
# Part A, stage 2: walk one canonical state with the real _setup_zpts
def walk(bnds, step, step_obj=None):
    """-> dict(outcome, planes, calls, bad=[(kind, what, obs, exp, tol, site)], stats)"""
    msgs = []
    o = new_stub(msgs)
    o.axial_bnds = np.array(bnds, dtype=float)
    o.core_length = o.axial_bnds[-1]
    o.req_dz = np.float64(step) if step_obj is None else step_obj
    st = monitor_instance(o)
    out = {'outcome': 'mesh', 'planes': 0, 'calls': 0, 'bad': [], 'stats': None,
           'msg': None, 'z': None, 'dz': None}

    def bad(kind, what, obs=None, exp=None, tol=None, site='reactor.py:_setup_zpts'):
        out['bad'].append([kind, what, obs, exp, tol, site])
    try:
        z, dz = o._setup_zpts()
    except NoProgress as e:
        out['outcome'] = 'NONTERM:' + e.reason
        out['calls'] = st.get('calls', 0)
        bad('nontermination', 'mesh walker cannot finish: %s' % e,
            {'step': float(step), 'core_length': float(o.core_length),
             'calls': st.get('calls', 0)}, 'a finite mesh or an error exit', None,
            site_of(e) + ':' + e.reason)
        return out
    except SystemExit:
        out['outcome'] = 'rejected'
        out['msg'] = last_error(msgs)
        out['calls'] = st.get('calls', 0)
        return out
    except Exception as e:          # any other dassh exception: own kind/site
        out['outcome'] = 'EXC:' + site_of(e)
        bad('mesh-exception', '%s: %s' % (type(e).__name__, str(e)[:200]),
            None, None, None, site_of(e))
        return out
    out['calls'] = st.get('calls', 0)
    out['planes'] = int(len(z))
    out['stats'] = judge_mesh(z, dz, o.axial_bnds, o.core_length, o.req_dz, bad)
    out['z'], out['dz'] = z, dz
    return out


def run_walk(s):
    r = new_result()
    w = walk(s['bnds'], s['step'])
    w.pop('z')
    w.pop('dz')
    r['walk'] = w
    r['states'] = w['planes']
    r['transitions'] = w['calls']
    r['traces'] = 1
    r['outcome'] = w['outcome'] if not w['bad'] or w['outcome'] != 'mesh' else 'mesh-bad'
    r['info'] = {'planes': w['planes'], 'calls': w['calls'], 'stats': w['stats']}
    return r


def join_case(c, w):
    """verdict of one input from the verdict of its canonical state"""
    out = []
    m = min(req_list(c['req']))
    for kind, what, obs, exp, tol, site in w['bad']:
        out.append(violation(kind, c, what, obs, exp, tol, site))
    if w['outcome'] == 'rejected':
        def bad(kind, what, obs=None, exp=None, tol=None):
            out.append(violation(kind, c, what, obs, exp, tol, 'reactor.py:_setup_zpts'))
        judge_reject(m, c['user_dz'], w['msg'], '_setup_zpts', bad)
    return out


def run_stub_full(c):
    """one input through both stages in-process (replay, determinism test)"""
    r = setup_stage(c)
    if r.get('state') is None:
        return r
    w = walk(r['state']['bnds'], r['state']['step'])
    r['states'] += w['planes']
    r['transitions'] += w['calls']
    r['traces'] = 1
    r['violations'].extend(join_case(c, w))
    r['outcome'] = w['outcome']
    r['info'] = dict(r['info'], planes=w['planes'], calls=w['calls'], stats=w['stats'])
    return r


# ----------------------------------------------------------------------
# Part B: the real constructor
UNITF = {'m': 1.0, 'cm': 100.0, 'ft': 100 / 2.54 / 12.0}


def ctor_cases(tier):
    base = {'part': 'ctor', 'layout': 'single', 'unit': 'm', 'bset': 'plain',
            'length': 0.4, 'flow': 0.5, 'gap': 'none', 'bypass': 0.0,
            'user': 'none', 'user_dz': None, 'lenround': None}

    def mk(**kw):
        c = dict(base)
        c.update(kw)
        if c['user'] == 'tiny':
            c['length'] = 0.003
        c['user_dz'] = {'zero': 0.0, 'subres': 1e-13, 'tiny': 1e-6,
                        'file5mm': 0.005, '1m': 1.0}.get(c['user'])
        return c
    out = []
    users = ['none', 'zero', 'subres', 'tiny', 'half', 'equal', 'above', '1m', 'file5mm']
    if tier == 'thorough':
        for unit in ('m', 'cm', 'ft'):
            for bset in ('plain', 'mid', 'near', 'sub'):
                for u in users:
                    out.append(mk(unit=unit, bset=bset, user=u, flow=0.01))
        for unit in ('m', 'cm', 'ft'):
            for bset in ('plain', 'mid', 'near', 'sub'):
                out.append(mk(unit=unit, bset=bset))
    else:
        for unit in ('m', 'cm', 'ft'):
            for bset in ('plain', 'mid', 'near'):
                out.append(mk(unit=unit, bset=bset))
        for u in users:
            out.append(mk(bset='near', user=u, flow=0.01))
        for unit in ('cm', 'ft'):
            for u in ('file5mm', 'zero', 'tiny'):
                out.append(mk(unit=unit, bset='mid', user=u, flow=0.01))
    # a honoured 5 mm request with a plane a hair past a whole number of steps; core lengths whose value in the
    # input unit x conversion factor is not the nearest double of the rounded length (100.7 cm, 100.9 cm)
    out.append(mk(bset='hair5', user='file5mm', flow=0.5))
    for unit in ('cm', 'ft'):
        out.append(mk(unit=unit, bset='noise', flow=0.5))
    for Lm in (1.007, 1.009):
        out.append(mk(unit='cm', length=Lm, lenround=4, flow=0.5))
        out.append(mk(unit='cm', length=Lm, lenround=4, flow=0.5, user='file5mm'))
    for u in ('half', 'equal', 'above'):      # requirement above the 1 cm cap
        out.append(mk(bset='mid', user=u, flow=0.5))
    for cool in (None, 'sodium'):
        out.append(mk(bset='mid', tol=0.05, coolant=cool))
        out.append(mk(bset='plain', tol=0.01, flow=0.01, coolant=cool))
    out.append(mk(layout='core7', bset='mid', gap='no_flow', tol=0.05))
    out.append(mk(unit='ft', lenround=6))
    out.append(mk(unit='ft', lenround=6, user='half', flow=0.01))
    for flow in (0.001, 1e-4, 1e-6):
        out.append(mk(bset='mid', flow=flow))
    out.append(mk(bset='mid', flow=1e-6, user='1m'))
    for gap, byp in (('none', 0.0), ('no_flow', 0.0), ('flow', 0.01), ('flow', 1e-5)):
        out.append(mk(layout='core7', bset='mid', gap=gap, bypass=byp))
    out.append(mk(layout='core7', bset='near', gap='flow', bypass=0.01, user='half'))
    for first in ('A', 'B'):
        for bset in ('plain', 'mid'):
            out.append(mk(layout='core7ab', bset=bset, gap='none', first=first))
    for gap in ('none', 'no_flow'):
        out.append(mk(layout='core7', bset='mid', gap=gap, eqT=True))
        out.append(mk(layout='core7', bset='plain', gap=gap, eqT=True, flow=0.05))
    out.append(mk(layout='core7', bset='near', gap='duct_average', bypass=0.0, user='equal', unit='cm'))
    seen, uniq = set(), []
    for c in out:
        k = canon(c)
        if k not in seen:
            seen.add(k)
            uniq.append(c)
    return uniq


def ctor_scenario(c, user_file):
    """-> (scenario dict, expected boundaries in m by our own conversion)"""
    L = c['length']
    bset = c['bset']
    regions, planes = None, None
    cells = [0.0, L / 2.0, L]
    lowup = {'lower': {'z_lo': 0.0, 'z_hi': L / 4.0, 'vf_coolant': 0.3},
             'upper': {'z_lo': 3 * L / 4.0, 'z_hi': L, 'vf_coolant': 0.3}}
    if bset == 'mid':
        regions = lowup
        planes = [L / 8.0, L / 2.0 + 1e-7]
    elif bset == 'near':
        regions = lowup
        planes = [0.0, L / 4.0 + 1e-9, 3 * L / 4.0 - 1e-7, L]
        cells = [0.0, L / 4.0, 5 * L / 8.0, L]
    elif bset == 'sub':
        planes = [L / 4.0 + 1e-13, L / 4.0, L / 2.0]
        cells = [0.0, L / 2.0 - 1e-7, L]
    elif bset == 'noise':
        # planes whose value in the input unit x conversion factor lands a few ulp ABOVE its 12-decimal rounding
        # (12.3 cm -> 0.12300000000000001 m)
        planes = [0.123, 0.307]
    elif bset == 'hair5':
        # a requested plane 2.5 um (0.05 % of a 5 mm step) past a whole number of 5 mm steps
        planes = [0.0750025]
    expected = [0.0, L] + list(cells) + list(planes or [])
    for rg in (regions or {}).values():
        expected += [rg['z_lo'], rg['z_hi']]
    dsn = S.design(2, regions=copy.deepcopy(regions))
    P = {'rings': 2, 'cells': cells, 'q': 1000.0, 'pins': 'uniform'}
    setup = {}
    if planes:
        setup['axial_plane'] = list(planes)
    if user_file is not None:
        setup['axial_mesh_size'] = user_file
    if c.get('tol'):
        setup['param_update_tol'] = c['tol']
    if c['layout'] == 'single':
        scn = S.single(dsn, c['flow'], length=L, power=P, setup=setup, coolant=c.get('coolant'))
    elif c['layout'] == 'core7ab':
        # two assembly types with DIFFERENT un-rodded regions; the type listed first owns boundaries that are
        # neither multiples of a step nor power-cell boundaries
        regb = {'lower': {'z_lo': 0.0, 'z_hi': round(L / 8.0 + 7e-4, 9), 'vf_coolant': 0.3},
                'upper': {'z_lo': round(7 * L / 8.0 - 3e-4, 9), 'z_hi': L, 'vf_coolant': 0.3}}
        rega = regions or {'lower': {'z_lo': 0.0, 'z_hi': round(L / 4.0 + 3e-4, 9), 'vf_coolant': 0.3},
                           'upper': {'z_lo': round(3 * L / 4.0 - 7e-4, 9), 'z_hi': L, 'vf_coolant': 0.3}}
        dsa = S.design(2, regions=copy.deepcopy(rega))
        dsb = S.design(2, regions=copy.deepcopy(regb))
        for rg in list(rega.values()) + list(regb.values()):
            expected += [rg['z_lo'], rg['z_hi']]
        first = c.get('first', 'A')
        names = ['A', 'B'] if first == 'A' else ['B', 'A']
        scn = {'setup': setup,
               'core': {'length': L, 'pitch': round(max(dsa['duct_ftf']) + 0.004, 9),
                        'gap_model': c['gap'], 'bypass_fraction': c['bypass']},
               'types': {names[0]: dsa if names[0] == 'A' else dsb, names[1]: dsa if names[1] == 'A' else dsb},
               'assign': [[('A' if i % 2 == 0 else 'B'), rr, pp, {'flowrate': c['flow'] * fi}]
                          for i, ((rr, pp), fi) in enumerate(zip(S.core_positions(2), (1.0, 0.45, 0.8, 0.6, 0.9, 0.7, 0.5)))],
               'power': {'asm': {str(i + 1): P for i in range(7)}}}
    else:
        scn = {'setup': setup,
               'core': {'length': L, 'pitch': round(max(dsn['duct_ftf']) + 0.004, 9),
                        'gap_model': c['gap'], 'bypass_fraction': c['bypass']},
               'types': {'A': dsn},
               # same type, different flows, the lowest not in the first position
               'assign': [['A', rr, pp, {'flowrate': c['flow'] * fi}]
                          for (rr, pp), fi in zip(S.core_positions(2), (1.0, 0.45, 0.8, 0.6, 0.9, 0.7, 0.5))],
               # c['eqT']: power proportional to flow, i.e. the same estimated outlet temperature everywhere
               'power': {'asm': {str(i + 1): (dict(P, q=P['q'] * fi) if c.get('eqT') else P) for i, fi in
                                 enumerate((1.0, 0.45, 0.8, 0.6, 0.9, 0.7, 0.5))}}}
    f = UNITF[c['unit']]
    if c['unit'] != 'm':
        scn['units'] = {'length': c['unit']}
        scn['core']['length'] *= f
        scn['core']['pitch'] *= f
        for d in scn['types'].values():
            for k in ('pin_pitch', 'pin_diameter', 'clad_thickness', 'wire_pitch', 'wire_diameter'):
                d[k] *= f
            d['duct_ftf'] = [x * f for x in d['duct_ftf']]
            for rg in (d.get('AxialRegion') or {}).values():
                rg['z_lo'] *= f
                rg['z_hi'] *= f
        st = scn['setup']
        if st.get('axial_plane'):
            st['axial_plane'] = [x * f for x in st['axial_plane']]
        if st.get('axial_mesh_size') is not None:
            st['axial_mesh_size'] *= f
    if c['lenround'] is not None:
        scn['core']['length'] = round(L * f, c['lenround'])
        expected.append(scn['core']['length'] / f)
    return scn, expected


class _Patch(object):
    """class-level progress monitor + capture of the instance and of the
    error messages, installed only inside the worker for one case"""

    def __init__(self):
        import dassh
        from dassh.logged_class import LoggedClass
        self.R = dassh.Reactor
        self.LC = LoggedClass
        self.cap = {'obj': None, 'msgs': []}

    def __enter__(self):
        R, LC, cap = self.R, self.LC, self.cap
        self.orig = (R._check_dz, R._setup_overall_axial_mesh_req, LC.log)
        o_check, o_req, o_log = self.orig

        def check(obj, z):
            st = obj.__dict__.setdefault('_vf_mon', {})
            return mon_step(st, obj, z, lambda zz: o_check(obj, zz))

        def req(obj):
            cap['obj'] = obj
            return o_req(obj)

        def log(obj, level, message, indent=None):
            cap['msgs'].append((str(level).lower(), str(message)))
            return o_log(obj, level, message, indent)
        R._check_dz = check
        R._setup_overall_axial_mesh_req = req
        LC.log = log
        return cap

    def __exit__(self, *a):
        self.R._check_dz, self.R._setup_overall_axial_mesh_req, self.LC.log = self.orig


def _construct(c, user_file, user_kw):
    """-> dict(outcome, r, inp, expected, cap, exc)"""
    scn, expected = ctor_scenario(c, user_file)
    out = {'outcome': 'built', 'r': None, 'inp': None, 'expected': expected,
           'cap': None, 'exc': None}
    with _Patch() as cap:
        out['cap'] = cap
        with S.Built(scn) as b:
            try:
                inp = b.inp()
                out['inp'] = inp
                kw = {}
                if user_kw is not None:
                    kw['axial_mesh_size'] = user_kw
                out['r'] = b.reactor(inp, **kw)
            except NoProgress as e:
                out['outcome'] = 'NONTERM:' + e.reason
                out['exc'] = e
            except SystemExit as e:
                out['outcome'] = 'rejected'
                out['exc'] = e
    return out


def run_ctor(c):
    r = new_result()
    V = r['violations']
    aug = dict(c)

    def bad(kind, what, obs=None, exp=None, tol=None, site='reactor.py:Reactor.__init__'):
        V.append(violation(kind, aug, what, obs, exp, tol, site))
    user_file = c['user_dz'] if c['user'] in ('zero', 'subres', 'tiny', 'file5mm', '1m') else None
    user_kw = None
    if c['user'] in ('half', 'equal', 'above'):
        p0 = _construct(c, None, None)
        r['transitions'] += 1
        if p0['outcome'] != 'built':
            # the request cannot be derived; the plain input is judged instead
            return _judge_ctor(c, aug, p0, r, bad)
        m0 = float(np.min(p0['r'].min_dz['dz']))
        f0 = floor_um(m0)
        user_kw = {'half': f0 / 2.0, 'equal': f0,
                   'above': float(np.nextafter(m0, np.inf))}[c['user']]
        r['states'] += len(p0['r'].z)
    p = _construct(c, user_file, user_kw)
    r['transitions'] += 1
    if c.get('tol') and p['outcome'] == 'built':
        # the step requirements are a property of geometry, flow and the inlet..outlet temperature range;
        # the correlation-update tolerance (which only decides WHEN correlations are re-evaluated during
        # the sweep) must not change them: differential twin with the tolerance switched off
        p0 = _construct(dict(c, tol=0.0), user_file, user_kw)
        r['transitions'] += 1
        if p0['outcome'] == 'built':
            a0 = [float(x) for x in p0['r'].min_dz['dz']]
            a1 = [float(x) for x in p['r'].min_dz['dz']]
            # (only the unsafe direction, and beyond the relative drift the tolerance itself permits)
            if len(a0) != len(a1) or any(y > x * (1.0 + c['tol']) for x, y in zip(a0, a1)):
                bad('requirement-relaxed-by-update-tolerance', 'step requirements with param_update_tol=%s exceed '
                    'those of the same input with the tolerance off' % c['tol'], a1, a0, c['tol'],
                    'region_rodded.py:calculate_min_dz')
    return _judge_ctor(c, aug, p, r, bad)


def _judge_ctor(c, aug, p, r, bad):
    r['traces'] = 1
    r['nontrivial'] = True
    r['outcome'] = p['outcome']
    obj = p['r'] if p['r'] is not None else p['cap']['obj']
    reqs, user = None, c['user_dz']
    if obj is not None and hasattr(obj, 'min_dz'):
        reqs = [float(x) for x in obj.min_dz['dz']]
        user = obj._options['axial_mesh_size']
        user = None if user is None else float(user)
        if c['user'] in ('zero', 'subres', 'tiny', 'file5mm', '1m'):
            # the request was written in the input file (in the length unit of the file): what the
            # Reactor works with must be that request in metres
            want = float(c['user_dz'])
            if user is None or abs(user - want) > 1e-12 * max(abs(want), 1e-30) + 1e-18:
                bad('user-request-misread', 'axial_mesh_size written in the input file (%s) is not the request the '
                    'Reactor works with' % c['unit'], user, want, 1e-12 * abs(want), 'read_input.py:convert_length')
                user = want
        aug['req_floor_zero'] = bool(floor_um(min(reqs)) == 0.0)
        aug['user_dz'] = user
        aug['user_zero'] = bool(user is not None and user == 0.0)
        aug['min_requirement'] = min(reqs)
    if p['outcome'].startswith('NONTERM'):
        e = p['exc']
        bad('nontermination', 'Reactor(...) cannot finish the axial mesh: %s' % e,
            {'req_dz': None if obj is None else float(obj.req_dz),
             'min_dz': reqs}, 'a finite mesh or an error exit', None,
            site_of(e) + ':' + e.reason)
        return r
    if p['outcome'] == 'rejected':
        msg = last_error(p['cap']['msgs'])
        m = min(reqs) if reqs else 1.0
        judge_reject(m, user, msg, 'Reactor(...)', bad)
        r['info'] = {'msg': msg}
        return r
    R = p['r']
    r['states'] += len(R.z)
    # same oracle as the stub
    L_exp = max(p['expected'])

    def bad_b(kind, what, obs=None, exp=None, tol=None):
        bad(kind, what, obs, exp, tol, 'reactor.py:_setup_axial_region_bnds')
    judge_bounds(p['expected'], R.axial_bnds, R.core_length, bad_b)
    # differential partner for 'ignored': the real method without a request
    ob = new_stub([])
    ob._options = {'axial_mesh_size': None}
    ob.min_dz = R.min_dz
    try:
        ob._setup_overall_axial_mesh_req()
        base = float(ob.req_dz)
    except SystemExit:
        base = None

    def bad_s(kind, what, obs=None, exp=None, tol=None):
        bad(kind, what, obs, exp, tol, 'reactor.py:_setup_overall_axial_mesh_req')
    verdict = judge_step(reqs, user, R.req_dz, base, bad_s)

    def bad_m(kind, what, obs=None, exp=None, tol=None):
        bad(kind, what, obs, exp, tol, 'reactor.py:_setup_zpts')
    st = judge_mesh(R.z, R.dz, R.axial_bnds, R.core_length, R.req_dz, bad_m)
    if float(np.max(R.dz)) > min(reqs) + TOL_DZ:
        bad_m('step-exceeds-requirement', 'a step exceeds the smallest requirement',
              float(np.max(R.dz)), min(reqs), TOL_DZ)
    # the requirement list itself: every assembly's entry must be the limit
    # that assembly reports when asked on its own (fresh call, same inputs)
    import dassh
    for ai, a in enumerate(R.assemblies):
        own = float(dassh.assembly.calculate_min_dz(a, R.inlet_temp, a._estimated_T_out, R._is_adiabatic)[0])
        if abs(own - reqs[ai]) > 1e-12 * own:
            bad('requirement-list-stale', 'step requirement recorded for assembly %d differs from the limit the '
                'assembly reports for its own flow and temperatures' % ai, reqs[ai], own, 1e-12 * own,
                'reactor.py:_setup_asm_axial_mesh_req')
            break
        if float(np.max(R.dz)) > own + TOL_DZ:
            bad('step-exceeds-requirement', 'a step exceeds the requirement of assembly %d' % ai,
                float(np.max(R.dz)), own, TOL_DZ, 'reactor.py:_setup_asm_axial_mesh_req')
            break
    # binding: the seam driven with the constructor's own inputs
    msgs = []
    o = new_stub(msgs)
    o._options = {'axial_mesh_size': R._options['axial_mesh_size'],
                  'axial_plane': R._options['axial_plane']}
    o.power = R.power
    o._setup_axial_region_bnds(p['inp'])
    o.min_dz = R.min_dz
    o._setup_overall_axial_mesh_req()
    monitor_instance(o)
    z, dz = o._setup_zpts()
    r['transitions'] += 3
    same = (np.array_equal(o.axial_bnds, R.axial_bnds)
            and float(o.req_dz) == float(R.req_dz)
            and z.dtype == R.z.dtype and z.shape == R.z.shape
            and z.tobytes() == R.z.tobytes()
            and dz.shape == R.dz.shape and dz.tobytes() == R.dz.tobytes())
    if not same:
        bad('seam-differs', 'stub-driven mesh differs from Reactor.z / dz / axial_bnds / req_dz',
            {'planes': int(len(R.z)), 'req_dz': float(R.req_dz)},
            {'planes': int(len(z)), 'req_dz': float(o.req_dz)}, 0)
    r['key'] = canon([[float(x) for x in R.axial_bnds], float(R.req_dz)])
    r['outcome'] = 'mesh:' + verdict
    r['extra'] = {'ctor_verdict': {verdict: 1},
                  'ctor_tiny_steps': int(st['min_step'] is not None and st['min_step'] <= 1.0e-7)}
    r['info'] = {'planes': int(len(R.z)), 'req_dz': float(R.req_dz),
                 'min_requirement': min(reqs), 'user': user, 'verdict': verdict,
                 'bnds': [float(x) for x in R.axial_bnds], 'min_step': st['min_step']}
    return r


# ----------------------------------------------------------------------
# ----------------------------------------------------------------------
# part `limit`: no step exceeds the stability requirement, the requirement obtained from the real update operators
def limit_cases(tier):
    """single assemblies / seven-assembly cores with a non-adiabatic outer wall (constant-property coolant): the
    largest step for which the explicit coolant updates of every pin bundle keep a non-negative weight on the cell
    itself is measured on the real operators (self weight is 1 - dz * s_i, so one evaluation gives s_i)"""
    from . import c01
    fam = list(c01.FAMS_WIRE[0])
    out = []
    designs = ('d2', 'd3') if tier == 'quick' else ('d2', 'd3', 'd4', 'b3')
    for d in designs:
        for du in (('1', '2f') if tier == 'quick' else ('1', '2f', '2s', '3')):
            for re in ('vlow', 'lam', 'turb'):
                for wall in (('flow', 'no_flow') if tier == 'quick' else ('flow', 'no_flow', 'duct_average')):
                    for ca in (False, True):
                        if ca and re == 'turb':
                            continue
                        out.append({'part': 'limit', 'design': d, 'ducts': du, 're': re, 'wall': wall,
                                    'fam': list(c01.FAMS_BARE[0]) if d == 'b3' else fam, 'structure': 'bundle',
                                    'core': 1, 'conv_approx': ca, 'L': 0.012})
                        if du == '1' and not ca:
                            for di in (1.3, 2.4):
                                out.append(dict(out[-1], dumpint=di))
    return out


def run_limit(c):
    from . import c04
    r = new_result()
    V = r['violations']
    cc = {k: v for k, v in c.items() if k not in ('part', 'dumpint')}
    scn_ = c04.build(cc, 'zero')
    if c.get('dumpint'):
        # csv dumps at an interval of 1.3 (2.4) steps: reporting must not move the step
        with S.Built(scn_) as b0:
            try:
                lim0 = float(b0.reactor().req_dz)
            except SystemExit as e:
                r['outcome'] = 'rejected-at-setup'
                r['info'] = {'site': site_of(e)}
                return r
        scn_['setup']['Dump'] = {'average': True, 'interval': float('%.4g' % (c['dumpint'] * lim0))}
    with S.Built(scn_) as b:
        try:
            rx = b.reactor()
        except SystemExit as e:
            r['outcome'] = 'rejected-at-setup'
            r['info'] = {'site': site_of(e)}
            return r
        T0 = float(rx.inlet_temp)
        dz_max = float(np.max(rx.dz))
        true_req = None
        for ai, a in enumerate(rx.assemblies):
            for reg in a.region:
                if not reg.is_rodded:
                    continue
                y0, A, dims = c04.probe_operator(reg, dz_max, T0, None)
                n = A.shape[0]
                s = (1.0 - np.diag(A[:, :n])) / dz_max
                req = 1.0 / float(np.max(s))
                true_req = req if true_req is None else min(true_req, req)
                r['states'] += 1
                r['transitions'] += A.shape[1] + 1
        r['traces'] = 1
        r['nontrivial'] = true_req is not None
        r['info'] = {'dz_max': dz_max, 'operator_requirement': true_req, 'reported': float(min(rx.min_dz['dz']))}
        if true_req is not None and dz_max > true_req * (1.0 + 1e-9):
            V.append(violation('step-exceeds-operator-requirement', c,
                               'longest axial step %.6g m exceeds the stability requirement of the pin-bundle coolant '
                               'update measured on the real operators (%.6g m; DASSH reports %.6g m)'
                               % (dz_max, true_req, float(min(rx.min_dz['dz']))), dz_max, true_req, 1e-9 * true_req,
                               site='region_rodded.py:calculate_min_dz'))
    r['outcome'] = 'ok' if not V else 'violation'
    return r


# ----------------------------------------------------------------------
# part `dump`: the planes as a user sees them - the z column of the csv dumps
def dump_cases(tier):
    out = []
    for unit in (('m', 'cm') if tier == 'quick' else ('m', 'cm', 'ft')):
        for planes in ([0.1234567, 0.2, 0.2000004], [0.05, 0.3000001]):
            out.append({'part': 'dump', 'unit': unit, 'planes': planes})
    return out


def run_dump(c):
    """every plane of the real mesh appears, with its value, in the z column of a dump written at every step (and
    therefore every requested plane and boundary does): strictly increasing, equal to Reactor.z to 1e-12 m"""
    import os
    r = new_result()
    V = r['violations']
    f = UNITF[c['unit']]
    dsn = S.design(2)
    scn = S.single(dsn, 0.5, length=0.4, power={'rings': 2, 'cells': [0.0, 0.2, 0.4], 'q': 1000.0, 'pins': 'uniform'},
                   setup={'axial_plane': list(c['planes']), 'Dump': {'average': True}})
    if c['unit'] != 'm':
        from . import c17
        scn = c17.convert_scenario(scn, c['unit'], 'kelvin', 'kg/s')
    with S.Built(scn) as b:
        try:
            rx = b.reactor(write_output=True)
            rx.temperature_sweep()
        except SystemExit as e:
            V.append(violation('dump-run-rejected', c, 'valid input rejected', site=site_of(e)))
            r['outcome'] = 'violation'
            return r
        fn = os.path.join(b.dir, 'temp_average.csv')
        rows = [ln.split(',') for ln in open(fn).read().strip().split('\n') if ln.strip()]
        zs = [float(x[1]) for x in rows]
        want = [float(z) for z in rx.z[1:]]
        r['states'] = len(want)
        r['transitions'] = len(want)
        r['traces'] = 1
        r['nontrivial'] = True
        if len(zs) != len(want) or any(abs(a_ - b_) > 1e-12 for a_, b_ in zip(zs, want)):
            k = next((i for i, (a_, b_) in enumerate(zip(zs, want)) if abs(a_ - b_) > 1e-12), min(len(zs), len(want)))
            V.append(violation('dump-planes-differ', c, 'z column of temp_average.csv is not the sequence of planes of the '
                               'mesh (%d rows, %d planes; first difference at row %d)' % (len(zs), len(want), k),
                               zs[k] if k < len(zs) else None, want[k] if k < len(want) else None, 1e-12,
                               site='assembly.py:write'))
        for p_ in c['planes']:
            if not any(abs(z - p_) <= 5e-10 + 1e-12 for z in zs):
                V.append(violation('dump-plane-missing', dict(c, plane=p_), 'requested plane %.9g m does not appear in the '
                                   'z column of the dump' % p_, None, p_, 5e-10, site='assembly.py:write'))
                break
        if any(b_ <= a_ for a_, b_ in zip(zs, zs[1:])):
            V.append(violation('dump-planes-not-increasing', c, 'z column of the dump is not strictly increasing',
                               site='assembly.py:write'))
    r['outcome'] = 'ok' if not V else 'violation'
    return r


def run_case(c):
    if c.get('part') == 'dump':
        return run_dump(c)
    if c.get('part') == 'limit':
        return run_limit(c)
    if c.get('part') == 'ctor':
        return run_ctor(c)
    if c.get('part') == 'walk':
        return run_walk(c)
    return run_stub_full(c)


def main(run):
    run.rule = (
        'Part A: full product of requirement (10 values 3e-7 m .. 5 cm, list of three with the minimum in the middle) '
        'x user request (none, 0, 1e-13, 1e-6, half/equal of the um-floored limit, the true minimum, one ulp above '
        'each, 1 m; equal values merged) x boundary set (subsets of {k L/8} up to size 4 [quick: 2], each alone and '
        'with one near-coincident partner of 0, of a member or of L at 1e-13/1e-9/1e-7 or after a cm / ft round '
        'trip, spread over the three input channels region/plane/power) x core length (0.3, 1, 3.75 m, 12.30315 ft '
        '[quick: two] when the expected step is >= 0.1 mm, 3 mm otherwise so that a legitimate mesh stays below '
        '~23 000 planes). An input is non-trivial when the real set-up methods return a walker state; distinct = '
        'distinct canonical state (merged boundary tuple, chosen step); every distinct state is walked once by the '
        'real _setup_zpts. Part B: listed full inputs (units m/cm/ft x boundary pattern x request x flow / gap '
        'model); distinct by (Reactor.axial_bnds, req_dz). Part C: design x ducts x Reynolds level x gap model x '
        'low-flow approximation with a non-adiabatic outer wall: the longest step of the real mesh against the '
        'stability requirement measured on the real coolant update operators (not the number DASSH reports).')
    run.assumptions = [
        'the stub carries exactly the attributes the three methods read; bound to the real constructor by part B (bitwise equal z, dz, axial_bnds, req_dz)',
        'merging by (axial_bnds, req_dz) is sound because _setup_zpts/_check_dz read only axial_bnds, core_length = axial_bnds[-1] and req_dz',
        'user rule is judged against the limit as dassh reports it (smallest requirement floored to 1e-6 m, recomputed here); a request in the window (floored, true] may be honoured or ignored',
        'the 1 cm cap is the documented accuracy cap of _setup_overall_axial_mesh_req (DESIGN C05 oracle), stricter than the bare statement',
        'an error exit is accepted only when the requirement or the request is below 1e-6 m',
        'progress monitor: non-positive step, plane not advancing, or more than L/dz + #boundaries + 10 calls of _check_dz',
        'numpy rint/around and IEEE double arithmetic']
    cs = stub_cases(run.tier)
    run.check_determinism(run_case, cs[len(cs) // 3])

    # stage 1 ---------------------------------------------------------
    states = {}          # key -> [state, first case index, n inputs]
    per_case = []        # (key or None, verdict)
    res = run.explore('stub-setup', cs, setup_stage, budget_s=60, chunksize=64)
    for i, r in enumerate(res):
        k = r.get('key') if r.get('state') is not None else None
        per_case.append((k, r.get('verdict'), r['outcome']))
        if k is not None:
            if k not in states:
                states[k] = [r['state'], i, 0]
            states[k][2] += 1
    del res
    # stage 2 ---------------------------------------------------------
    keys = sorted(states, key=lambda k: states[k][1])
    wcases = [{'part': 'walk', 'bnds': states[k][0]['bnds'], 'step': states[k][0]['step'],
               'n_inputs': states[k][2], 'first_input': cs[states[k][1]]} for k in keys]
    wres = run.explore('stub-walk', wcases, run_walk, budget_s=120, chunksize=4)
    walk_of = {}
    for k, r in zip(keys, wres):
        walk_of[k] = r.get('walk')
    # join --------------------------------------------------------------
    hist, verd, cause = {}, {}, {}
    n_tiny = n_merge = n_clip = n_cap = 0
    for c, (k, verdict, o1) in zip(cs, per_case):
        if k is None:
            lab = o1
        else:
            w = walk_of.get(k)
            if w is None:              # backstop fired in stage 2 (already a violation there)
                lab = 'walk-failed'
            else:
                lab = w['outcome'] if not (w['bad'] and w['outcome'] == 'mesh') else 'mesh-bad'
                for v in join_case(c, w):
                    v['part'] = 'stub'
                    run.violations.append(v)
                if w['outcome'].startswith('NONTERM'):
                    cz = ('user_zero' if c['user_zero'] else
                          'req_floor_zero' if c['req_floor_zero'] else
                          'user_below_plane_resolution' if (c['user_dz'] is not None and c['user_dz'] < GRID)
                          else 'other')
                    cause[cz] = cause.get(cz, 0) + 1
                if w['outcome'] == 'mesh' and not w['bad']:
                    verd[verdict] = verd.get(verdict, 0) + 1
                    if (floor_um(min(req_list(c['req']))) > CAP
                            and states[k][0]['step'] == CAP):
                        n_cap += 1
                    stt = w['stats']
                    if stt['min_step'] is not None and stt['min_step'] <= 1.0e-7:
                        n_tiny += 1
                    if stt['clipped']:
                        n_clip += 1
                    if c['partner'] == '1e-13':
                        n_merge += 1
        hist[lab] = hist.get(lab, 0) + 1
    run.extra['stub_outcomes'] = hist
    run.extra['stub_verdicts_on_good_meshes'] = verd
    run.extra['stub_nontermination_by_cause'] = cause
    run.extra['stub_meshes_capped_at_1cm'] = n_cap
    run.extra['stub_meshes_with_step_le_1e-7'] = n_tiny
    run.extra['stub_meshes_with_clipped_step'] = n_clip
    run.extra['stub_distinct_states'] = len(keys)
    run.extra['stub_inputs'] = len(cs)
    run.notes['max_planes'] = max([w['planes'] for w in walk_of.values() if w] or [0])
    # vacuity: every class of the alphabet must have occurred
    need = {'mesh': hist.get('mesh', 0),
            'honoured': verd.get('honoured', 0),
            'ignored': verd.get('ignored', 0),
            'window': verd.get('window-ignored', 0) + verd.get('window-honoured', 0),
            'near-coincident step <= 1e-7': n_tiny,
            'clipped step': n_clip,
            'requirement above 1 cm capped': n_cap,
            '1e-13 partner merged': n_merge,
            'degenerate input (rejected or non-terminating)':
                hist.get('rejected', 0) + sum(v for kk, v in hist.items() if kk.startswith('NONTERM'))}
    for what, n in sorted(need.items()):
        if n == 0:
            v = violation('vacuous-alphabet', {'part': 'stub', 'class': what},
                          'expected class never occurred: ' + what, 0, '> 0')
            v['part'] = 'stub'
            run.violations.append(v)

    # Part B ------------------------------------------------------------
    cc = ctor_cases(run.tier)
    cres = run.explore('ctor', cc, run_ctor, budget_s=300, chunksize=1)
    oc = {}
    for r in cres:
        oc[r['outcome'].split(':')[0]] = oc.get(r['outcome'].split(':')[0], 0) + 1
    if oc.get('mesh', 0) == 0:
        v = violation('vacuous-alphabet', {'part': 'ctor', 'class': 'mesh'},
                      'no constructor case produced a mesh', 0, '> 0')
        v['part'] = 'ctor'
        run.violations.append(v)

    # Part C ------------------------------------------------------------
    run.explore('limit', limit_cases(run.tier), run_limit, budget_s=300, chunksize=1)
    # Part D ------------------------------------------------------------
    run.explore('dump', dump_cases(run.tier), run_dump, budget_s=300, chunksize=1)


def replay(body):
    c = body['scenario']
    if c.get('part') == 'dump':
        c = {k: v for k, v in c.items() if k != 'plane'}
    if c.get('part') == 'limit':
        c = {k: v for k, v in c.items() if k not in ('probe', 'probe_dz', 'level')}
    if c.get('part') == 'ctor':
        c = {k: v for k, v in c.items()
             if k not in ('req_floor_zero', 'user_zero', 'min_requirement')}
        if c.get('user') not in ('zero', 'subres', 'tiny', 'file5mm', '1m'):
            c['user_dz'] = None
    r = guarded(run_case, c, 600)
    for v in r['violations']:
        print('VIOLATION property=C05 replay=(inline) kind=%s site=%s %s'
              % (v['kind'], v.get('site'), v['what']))
    print('outcome', r['outcome'], r.get('info'))
    return 1 if r['violations'] else 0
