"""C13  Pin radial temperatures are ordered and obey radial heat conduction.

Part A (pin model states).  A case is one pin configuration
    pin size (via bundle flat-to-flat) x clad thickness x gap {none, bond
    sodium, helium} x fuel {metal fuel Pu x Zr x porosity grid through a real
    [[[FuelModel]]]; user pin materials with constant / rising / falling k(T)
    from the input [Materials] section through a real [[[PinModel]]]} x radial
    zones {1,2,3,5} x {solid, annular}
materialised as a real input -> DASSH_Input -> Reactor -> RoddedRegion.pin_model.
Inside the case the real `PinModel.calculate_temperatures` is called for the
full grid  linear power {0, low, nominal, high, beyond melting} x (film
coefficient, coolant temperature, dz) and along a doubling chain of powers
(each chain step = one transition).

Part B (region level).  Real RoddedRegions (2-4 rings) with a pin model; after a
few real sweep steps a non-uniform `temp['coolant_int']` field is set, the real
`calculate_pin_temperatures` is called and the pin-adjacent coolant weights are
recovered by unit probing.

Oracles and tolerances are written next to the code that evaluates them.
"""
import inspect
import math

import numpy as np

from ..run import new_result, violation, site_of, guarded
from .. import scenario as S

SB = 5.670374419e-8            # Stefan-Boltzmann (CODATA), the harness' own copy
EPS = float(np.finfo(float).eps)
PI = math.pi

# ---------------------------------------------------------------------------
# alphabet
# user materials written into the [Materials] section (coefficients in
# increasing power of T, W/m-K).  T_melt is the harness' classification limit
# used ONLY to decide whether a state is "beyond melting".
USER_MATS = {
    'fconst': {'k': [20.0], 'melt': 2800.0},             # nitride-like, constant
    'frise': {'k': [8.0, 0.012], 'melt': 1400.0},         # metal-like, rising
    'ffall': {'k': [5.0, -0.0013], 'melt': 3000.0},       # oxide-like, falling
    # tabulated, read from a file: piecewise linear with a step down at 1100 K (the transition temperature is listed
    # twice, first with the value below, then with the value above)
    'ftable': {'table': [[300.0, 4.2], [1100.0, 3.0], [1100.0, 2.7], [3500.0, 1.8]], 'melt': 3000.0},
    'helium': {'k': [0.06, 3.0e-4]},                      # gap gas
    'cladlin': {'k': [23.663354319, 4.01774e-3]},         # linear steel (SE2ANL HT9)
}
# literature coefficients of built-in materials the harness evaluates itself
HT9 = [17.622, 2.428e-2, -1.696e-5]
T_MELT_CLAD = 1700.0           # steel solidus (classification only)
T_MELT_METAL = 1400.0          # U-Pu-Zr solidus (classification only)

GAPS = {'none': (0.0, None), 'na50': (50e-6, 'sodium'),
        'he80': (80e-6, 'helium'), 'he120': (120e-6, 'helium')}

POWERS = [['zero', 0.0], ['low', 1.0e3], ['nominal', 2.0e4], ['high', 4.0e4],
          ['beyond', 1.5e5]]
RFRAC0 = 0.25                  # annular pellets: cavity radius / pellet radius
QB = 1.0e4                     # Part B mean linear power (tilt: 0.5 .. 1.5 of it), W/m


def r_frac(n, annular):
    r0 = RFRAC0 if annular else 0.0
    return [round(r0 + (1.0 - r0) * i / n, 5) for i in range(n)]


def fuels(tier):
    out = []
    if tier == 'quick':
        grid = [(0.0, 0.1, 0.0), (0.2, 0.1, 0.25)]
    else:
        grid = [(pu, zr, po) for pu in (0.0, 0.15, 0.3) for zr in (0.06, 0.1, 0.15)
                for po in (0.0, 0.25)]
    for pu, zr, po in grid:
        out.append({'fuel': 'metal', 'pu': pu, 'zr': zr, 'por': po, 'profile': 'uniform'})
    out.append({'fuel': 'metal', 'pu': 0.2, 'zr': 0.1, 'por': 0.3, 'profile': 'por-graded'})
    if tier != 'quick':
        # restructured pellet: porosity / Zr redistributed over the zones
        out.append({'fuel': 'metal', 'pu': 0.2, 'zr': 0.1, 'por': 0.2, 'profile': 'graded'})
    for m in ('fconst', 'frise', 'ffall', 'ftable'):
        out.append({'fuel': 'user', 'umat': m, 'profile': 'uniform'})
    if tier != 'quick':
        out.append({'fuel': 'user', 'umat': 'ffall', 'profile': 'mixed'})
    return out


def cases_a(tier):
    if tier == 'quick':
        sizes = [0.0258, 0.036]                   # D ~ 6.0, 8.9 mm
        gaps = ['none', 'he80']
        env = [[1.2e5, 650.0, 0.01], [2.0e4, 850.0, 0.0537]]
        chain = [1.5e5 / 2 ** k for k in range(5, -1, -1)] + [3.0e5]
    else:
        sizes = [0.0205, 0.0258, 0.036]           # D ~ 4.5, 6.0, 8.9 mm
        gaps = ['none', 'na50', 'he120']
        env = [[1.2e5, 650.0, 0.01], [2.0e4, 850.0, 0.0537],
               [1.2e5, 850.0, 0.0537], [2.0e4, 650.0, 0.01]]
        chain = [1.5e5 / 2 ** k for k in range(8, -1, -1)] + [3.0e5]
    out = []
    for oftf in sizes:
        for cf in (0.06, 0.10):
            for gap in gaps:
                for f in fuels(tier):
                    for zones in (1, 2, 3, 5):
                        for ann in (False, True):
                            c = {'part': 'A', 'oftf': oftf, 'clad_frac': cf, 'gap': gap,
                                 'zones': zones, 'annular': ann,
                                 'powers': POWERS, 'env': env, 'chain': chain}
                            c.update(f)
                            out.append(c)
    # the same pins entered in other length units (gap and pin dimensions go through the reader's conversion)
    for unit in (('in', 'mm') if tier == 'quick' else ('in', 'mm', 'cm', 'ft')):
        for f in ({'fuel': 'metal', 'pu': 0.2, 'zr': 0.1, 'por': 0.25, 'profile': 'uniform'},
                  {'fuel': 'user', 'umat': 'ffall', 'profile': 'uniform'}):
            for gap in gaps[1:]:
                c = {'part': 'A', 'oftf': sizes[-1], 'clad_frac': 0.06, 'gap': gap, 'zones': 2,
                     'annular': False, 'powers': POWERS, 'env': env, 'chain': chain, 'unit': unit}
                c.update(f)
                out.append(c)
    return out


def cases_b(tier):
    out = []
    models = [{'fuel': 'metal', 'pu': 0.2, 'zr': 0.1, 'por': 0.25, 'profile': 'uniform',
               'gap': 'none', 'zones': 1, 'annular': False},
              {'fuel': 'user', 'umat': 'ffall', 'profile': 'uniform',
               'gap': 'he80', 'zones': 3, 'annular': True}]
    geos = [(1.2, True)] if tier == 'quick' else [(1.08, True), (1.2, True), (1.35, False)]
    for rings in (2, 3, 4):
        for pd, wire in geos:
            for m in models:
                for field in ('gradient', 'irregular', 'hotspot'):
                    c = {'part': 'B', 'rings': rings, 'pd': pd, 'wire': wire,
                         'clad_frac': 0.08, 'field': field, 'oftf': 0.012 * rings + 0.006}
                    c.update(m)
                    out.append(c)
                    if rings == 2 and (pd, wire) == geos[0]:
                        # the same with the energy-balance tally switched on (reporting only)
                        out.append(dict(c, ebal=True))
    return out


# ---------------------------------------------------------------------------
# scenario construction (real input text)
def _zone_lists(c):
    n = c['zones']
    if c['fuel'] == 'metal':
        if c['profile'] == 'graded':
            # porosity falls and Zr rises towards the surface (deterministic)
            por = [round(c['por'] * (1.0 - 0.6 * i / max(1, n - 1)), 6) if n > 1 else c['por']
                   for i in range(n)]
            zr = [round(c['zr'] * (0.7 + 0.6 * i / max(1, n - 1)), 6) if n > 1 else c['zr']
                  for i in range(n)]
        elif c['profile'] == 'por-graded':
            # only the porosity differs between the zones (same alloy everywhere)
            por = [round(c['por'] * (1.0 - 0.8 * i / max(1, n - 1)), 6) if n > 1 else c['por']
                   for i in range(n)]
            zr = [c['zr']] * n
        else:
            por, zr = [c['por']] * n, [c['zr']] * n
        return {'pu': [c['pu']] * n, 'zr': zr, 'por': por}
    if c['profile'] == 'mixed':
        seq = ['ffall', 'fconst', 'frise']
        return {'mats': [seq[i % 3] for i in range(n)]}
    return {'mats': [c['umat']] * n}


def build_scenario(c, rings=2, pd=1.2, wire=True, q=1000.0, pins='uniform', nsteps_len=0.4):
    gthk, gmat = GAPS[c['gap']]
    z = _zone_lists(c)
    rf = r_frac(c['zones'], c['annular'])
    mats = {}
    if c['fuel'] == 'metal':
        fm = {'gap_thickness': gthk, 'clad_material': 'ht9', 'r_frac': rf,
              'pu_frac': z['pu'], 'zr_frac': z['zr'], 'porosity': z['por']}
        if gmat:
            fm['gap_material'] = gmat
        kw = {'fuelmodel': fm}
    else:
        pm = {'gap_thickness': gthk, 'clad_material': 'cladlin', 'r_frac': rf,
              'pin_material': z['mats']}
        if gmat:
            pm['gap_material'] = gmat
        kw = {'pinmodel': pm}
        files = {}
        for m in sorted(set(z['mats'])) + ['cladlin']:
            if 'table' in USER_MATS[m]:
                mats[m] = {'from_file': m + '.csv'}
                files[m + '.csv'] = 'temperature,thermal_conductivity\n' + ''.join(
                    '%r,%r\n' % (r_[0], r_[1]) for r_ in USER_MATS[m]['table'])
            else:
                mats[m] = {'thermal_conductivity': USER_MATS[m]['k']}
    if gmat == 'helium':
        mats['helium'] = {'thermal_conductivity': USER_MATS['helium']['k']}
    dsn = S.design(rings, pd=pd, wire=wire, oftf=c['oftf'], clad_frac=c['clad_frac'], **kw)
    npin = S.n_pins(rings)
    power = {'rings': rings, 'cells': [0.0, nsteps_len], 'q': q, 'pins': pins}
    scn = S.single(dsn, 0.045 * npin, length=nsteps_len, power=power)
    if c.get('ebal'):
        scn['setup']['calc_energy_balance'] = True
    if mats:
        scn['materials'] = mats
    if c['fuel'] != 'metal' and files:
        scn['files'] = dict(scn.get('files') or {}, **files)
    if c.get('unit'):
        # the same pin written in another length unit (harness-side conversion of vf.props.c17);
        # the harness's own description `dsn` stays in metres
        from . import c17
        scn = c17.convert_scenario(scn, c['unit'], 'kelvin', 'kg/s')
    return scn, dsn


# ---------------------------------------------------------------------------
# the harness' own description of the pin (geometry + conductivities)
def _table(tab):
    """the user's table read the usual way: linear between rows, the later row wins at a repeated temperature, constant
    beyond the ends (own evaluation, no numpy.interp)"""
    xs = [float(r[0]) for r in tab]
    ys = [float(r[1]) for r in tab]

    def k1(T):
        T = float(T)
        if T < xs[0]:
            return ys[0]
        if T >= xs[-1]:
            return ys[-1]
        i = max(j for j in range(len(xs)) if xs[j] <= T)
        return ys[i] + (ys[i + 1] - ys[i]) * (T - xs[i]) / (xs[i + 1] - xs[i])

    def k(T):
        if np.ndim(T) == 0:
            return k1(T)
        return np.array([k1(t) for t in np.ravel(T)]).reshape(np.shape(T))
    return k


def _kfun(m):
    return _table(USER_MATS[m]['table']) if 'table' in USER_MATS[m] else _poly(USER_MATS[m]['k'])


def _poly(co):
    co = [float(x) for x in co]

    def k(T):
        y = 0.0
        for v in reversed(co):
            y = y * T + v
        return y
    return k


def metal_k(pu, zr, por, beta=2.0):
    """Metallic Fuels Handbook C.1.2 / Vilim (1987): k = (a + bT + cT^2) * (1-P)/(1+beta P)"""
    a = 17.5 * ((1 - 2.23 * zr) / (1 + 1.61 * zr) - 2.62 * pu)
    b = 1.54e-2 * ((1 + 0.061 * zr) / (1 + 1.61 * zr) + 0.9 * pu)
    cc = 9.38e-6 * (1 - 2.7 * pu)
    f = (1 - por) / (1 + beta * por)
    return _poly([a * f, b * f, cc * f])


class Pin(object):
    """independent model of the configuration: radii from the input numbers,
    conductivities from the coefficients the harness wrote into the input."""

    def __init__(self, c, dsn, pm):
        D, tc = dsn['pin_diameter'], dsn['clad_thickness']
        gthk, gmat = GAPS[c['gap']]
        self.ro = D / 2.0
        self.ri = self.ro - tc
        self.rm = self.ro - tc / 2.0
        self.gap = gthk
        self.rf = self.ri - gthk
        rf = r_frac(c['zones'], c['annular'])
        edges = rf + [1.0]
        self.shell = [(edges[i] * self.rf, edges[i + 1] * self.rf) for i in range(len(rf))]
        self.r0 = self.shell[0][0]
        self.area = PI * (self.rf ** 2 - self.r0 ** 2)
        self.emis = 0.9                      # documented SE2ANL default
        z = _zone_lists(c)
        if c['fuel'] == 'metal':
            self.kclad = _poly(HT9)
            self.kfuel = [metal_k(z['pu'][i], z['zr'][i], z['por'][i]) for i in range(c['zones'])]
            self.melt = [T_MELT_METAL] * c['zones']
        else:
            self.kclad = _poly(USER_MATS['cladlin']['k'])
            self.kfuel = [_kfun(m) for m in z['mats']]
            self.melt = [USER_MATS[m]['melt'] for m in z['mats']]
        if gmat == 'helium':
            self.kgap = _poly(USER_MATS['helium']['k'])
        elif gmat is not None:
            # built-in tabulated sodium: evaluated through the real Material
            # interpolant (trusted base: np.interp on dassh/data/sodium.csv)
            real = pm.gap['k']
            self.kgap = lambda T: float(real(T))
        else:
            self.kgap = None


def material_mismatch(P, pm):
    """the conductivities the real object evaluates == the harness' formulas"""
    bad = []
    for T in (400.0, 900.0, 1600.0):
        pairs = [('clad', P.kclad(T), float(pm.clad['k'](T)))]
        for i, kf in enumerate(P.kfuel):
            pairs.append(('fuel%d' % i, kf(T), float(pm._fuel_cond(i, T))))
        if P.kgap is not None:
            pairs.append(('gap', P.kgap(T), float(pm.gap['k'](T))))
        for name, mine, real in pairs:
            if not (abs(mine - real) <= 1e-12 * max(1.0, abs(mine))):
                bad.append((name, T, real, mine))
    return bad


# ---------------------------------------------------------------------------
# reference solution (only used to classify "beyond melting")
def _root(G, lo, hi, ok):
    """smallest fixed point of T = G(T) in [lo, hi]; None if the conductivity
    leaves its positive range or no fixed point exists below hi."""
    n = 48
    prev_t, prev_f = lo, None
    for j in range(n + 1):
        t = lo + (hi - lo) * j / n
        if not ok(t):
            return None
        f = t - G(t)
        if not math.isfinite(f):
            return None
        if f >= 0.0:
            if prev_f is None:
                return t
            a, b = prev_t, t
            for _ in range(60):
                m = 0.5 * (a + b)
                if m - G(m) >= 0.0:
                    b = m
                else:
                    a = m
            return b
        prev_t, prev_f = t, f
    return None


def reference(P, q, Tc, h):
    """returns (temps or None, beyond_melting flag)"""
    C = q / (2 * PI)
    Tod = Tc + C / (h * P.ro)
    if Tod > T_MELT_CLAD or P.kclad(Tod) <= 0:
        return None, True
    kod = P.kclad(Tod)
    Tid = _root(lambda T: Tod + C * math.log(P.ro / P.ri) / (0.5 * (P.kclad(T) + kod)),
                Tod, T_MELT_CLAD, lambda T: P.kclad(T) + kod > 0)
    if Tid is None:
        return None, True
    Tf = Tid
    lim = min(P.melt)
    if P.gap > 0:
        kc = P.kgap(Tid)
        qf = C / P.rf
        Tf = _root(lambda T: Tid + P.gap * (qf + P.emis * SB * (Tid ** 4 - T ** 4))
                   / (0.5 * (P.kgap(T) + kc)),
                   Tid, max(Tid, P.melt[-1]), lambda T: P.kgap(T) + kc > 0)
        if Tf is None:
            return None, True
    if Tf > P.melt[-1]:
        return None, True
    qd = q / P.area
    To = Tf
    for i in reversed(range(len(P.shell))):
        a, b = P.shell[i]
        d = qd * (b * b - a * a) / 4.0
        ko = P.kfuel[i](To)
        if ko <= 0:
            return None, True
        kf = P.kfuel[i]
        Ti = _root(lambda T: To + d / (0.5 * (kf(T) + ko)), To, max(To, P.melt[i]),
                   lambda T: kf(T) + ko > 0)
        if Ti is None:
            return None, True
        To = Ti
    return [Tc, Tod, None, Tid, Tf, To], False


# ---------------------------------------------------------------------------
# the oracles for one reported state
def _bound(G, T, atol):
    """|T_reported - G(T_reported)| for a fixed-point iteration T <- G(T_old)
    that stopped with |T - T_old| <= atol:  T = G(T_old) with T_old in
    [T-atol, T+atol], so the residual is at most the variation of G over that
    interval (G is monotone on a 2*atol window), plus 16 ulp(T) of round-off."""
    g0 = G(T)
    return max(abs(G(T + atol) - g0), abs(G(T - atol) - g0)) + 16 * EPS * max(1.0, abs(T))


def check_state(P, q, Tc, h, row, iface, atol, bad, stat):
    """row: the six reported temperatures; iface: temperatures at the shell
    boundaries from the surface inwards (iface[0] = fuel OD ... iface[-1] = CL)."""
    row = [float(x) for x in row]
    if not all(math.isfinite(x) for x in row) or (iface and not all(math.isfinite(x) for x in iface)):
        first = min([j for j in range(6) if not math.isfinite(row[j])] or [5])
        bad('non-finite', 'NaN/inf in reported pin temperatures (no error was raised)', row, 'finite', None,
            'pin_model.py:' + ['calculate_temperatures', 'calc_clad_temps', 'calc_clad_temps',
                               'calc_clad_temps', 'calc_fuel_surf_temp', 'calc_fuel_temps'][first])
        return False
    T0, Tod, Tmw, Tid, Tf, Tcl = row
    if T0 != Tc:
        bad('coolant-column', 'column 0 is not the coolant temperature handed in', T0, Tc, 0.0,
            'pin_model.py:calculate_temperatures')
    # ---- ordering (q >= 0): exact comparisons, every increment is "+ q*(..)/k".
    # One exception: with a gap the first fuel surface estimate is written as
    # (T_id + d1/k) - d2*T_id^4/k, i.e. the radiation term is added to and then
    # subtracted from T_id; each of the two operations rounds at the size of
    # T_id + x (x = dr e sigma T^4 / k), so at q -> 0 the fuel surface can sit an
    # ulp next to the clad inner temperature.  Allowance: 2 roundings of
    # eps/2*(T_id + x) each, x <= T_id  ->  2 eps T_id.
    rnd_gap = 2 * EPS * abs(Tid) if P.gap > 0 else 0.0
    names = ['coolant', 'clad_od', 'clad_mw', 'clad_id', 'fuel_od', 'fuel_cl']
    for j in range(5):
        if not row[j] <= row[j + 1] + (rnd_gap if j == 3 else 0.0):
            bad('ordering', '%s > %s' % (names[j], names[j + 1]), row, 'non-decreasing',
                rnd_gap if j == 3 else 0.0, 'pin_model.py:calculate_temperatures')
            break
    # ---- zero power: identity with the coolant temperature, exact (round-off
    # allowance above for the two fuel columns when there is a gap)
    if q == 0.0:
        if any(x != Tc for x in row[:4]) or any(abs(x - Tc) > rnd_gap for x in row[4:]) \
                or row[5] != row[4]:
            bad('zero-power-identity', 'zero power but temperatures differ from coolant',
                row, Tc, rnd_gap, 'pin_model.py:calculate_temperatures')
        return True
    C = q / (2 * PI)                                   # q'/(2 pi)
    # ---- film drop q'/(2 pi r_o h): 1e-12 relative + representability of
    # T_od = fl(Tc + drop) (half an ulp of T_od on either side of the subtraction)
    film = C / (P.ro * h)
    tol = 1e-12 * film + 2 * EPS * abs(Tod)
    if abs((Tod - Tc) - film) > tol:
        bad('film-drop', 'T_cladOD - T_cool != q\'/(2 pi r_o h)', Tod - Tc, film, tol,
            'pin_model.py:calc_clad_temps')
    stat['film_rel'] = max(stat.get('film_rel', 0.0), abs((Tod - Tc) - film) / film)
    # ---- clad: one cylindrical shell, kbar = mean of k at clad OD and clad ID
    kod = P.kclad(Tod)
    lnf, lno, lni = math.log(P.ro / P.ri), math.log(P.ro / P.rm), math.log(P.rm / P.ri)

    def Gc(T):
        return Tod + C * lnf / (0.5 * (P.kclad(T) + kod))

    def Gm(T):
        return Tod + C * lno / (0.5 * (P.kclad(T) + kod))
    tolc = _bound(Gc, Tid, atol)
    if abs(Tid - Gc(Tid)) > tolc:
        bad('clad-drop', 'T_cladID - T_cladOD != q\' ln(r_o/r_i)/(2 pi kbar(T_OD,T_ID))',
            Tid - Tod, Gc(Tid) - Tod, tolc, 'pin_model.py:calc_clad_temps')
    tolm = _bound(Gm, Tid, atol)
    if abs(Tmw - Gm(Tid)) > tolm:
        bad('clad-midwall', 'T_cladMW - T_cladOD != q\' ln(r_o/r_m)/(2 pi kbar)',
            Tmw - Tod, Gm(Tid) - Tod, tolm, 'pin_model.py:calc_clad_temps')
    kbar = 0.5 * (P.kclad(Tid) + kod)
    if abs((Tid - Tmw) - C * lni / kbar) > tolc + tolm:
        bad('clad-midwall', 'T_cladID - T_cladMW != q\' ln(r_m/r_i)/(2 pi kbar)',
            Tid - Tmw, C * lni / kbar, tolc + tolm, 'pin_model.py:calc_clad_temps')
    stat['clad_res'] = max(stat.get('clad_res', 0.0), abs(Tid - Gc(Tid)), abs(Tmw - Gm(Tid)))
    # reported only: mid-wall drop with the half-shell mean conductivity
    kh = 0.5 * (P.kclad(Tmw) + kod)
    stat['mw_halfshell_K'] = max(stat.get('mw_halfshell_K', 0.0), abs(C * lno / kh - (Tmw - Tod)))
    # ---- gap (Eq. 3.4-15..17): flux at the fuel surface = k/dr conduction +
    # e*sigma*(Tf^4 - Tc^4) radiation, kbar = mean of k at both surfaces
    if P.gap == 0.0:
        if Tf != Tid:
            bad('gap-balance', 'no gap but fuel surface != clad inner temperature', Tf, Tid, 0.0,
                'pin_model.py:calc_fuel_surf_temp')
    else:
        kc = P.kgap(Tid)
        qf = C / P.rf

        def Gg(T):
            return Tid + P.gap * (qf + P.emis * SB * (Tid ** 4 - T ** 4)) / (0.5 * (P.kgap(T) + kc))
        tolg = _bound(Gg, Tf, atol)
        if abs(Tf - Gg(Tf)) > tolg:
            bad('gap-balance', 'conduction + radiation across the gap does not carry q\'/(2 pi r_f)',
                Tf - Tid, Gg(Tf) - Tid, tolg, 'pin_model.py:calc_fuel_surf_temp')
        kg = 0.5 * (P.kgap(Tf) + kc)
        cond = kg * (Tf - Tid) / P.gap
        rad = P.emis * SB * (Tf ** 4 - Tid ** 4)
        stat['gap_rel'] = max(stat.get('gap_rel', 0.0), abs(cond + rad - qf) / qf)
        stat['rad_share'] = max(stat.get('rad_share', 0.0), rad / qf)
        # reported only: slab (k/dr at r_f) against the cylindrical annulus
        stat['gap_slab_vs_cyl'] = max(stat.get('gap_slab_vs_cyl', 0.0),
                                      abs(math.log(P.ri / P.rf) / (P.gap / P.rf) - 1.0))
    # ---- fuel shells: dT_i = q''' (r_o^2 - r_i^2) / (4 kbar_i), kbar_i = mean
    # of k_i at the two shell boundaries
    if iface[0] != Tf or iface[-1] != Tcl:
        bad('fuel-chain-ends', 'first/last shell boundary temperature != reported fuel OD/CL',
            [iface[0], iface[-1]], [Tf, Tcl], 0.0, 'pin_model.py:calc_fuel_temps')
    qd = q / P.area
    exc = 0.0
    n = len(P.shell)
    for j in range(n):
        i = n - 1 - j                        # shell index, outermost first
        To, Ti = iface[j], iface[j + 1]
        a, b = P.shell[i]
        d = qd * (b * b - a * a) / 4.0
        kf = P.kfuel[i]
        ko = kf(To)

        def Gs(T, To=To, d=d, kf=kf, ko=ko):
            return To + d / (0.5 * (kf(T) + ko))
        tols = _bound(Gs, Ti, atol)
        if not Ti >= To:
            bad('ordering', 'fuel shell %d inner boundary colder than outer' % i, [To, Ti],
                'non-decreasing inwards', 0.0, 'pin_model.py:calc_fuel_temps')
        if abs(Ti - Gs(Ti)) > tols:
            bad('fuel-shell', 'shell %d: dT != q\'\'\' (r_o^2-r_i^2)/(4 kbar)' % i,
                Ti - To, Gs(Ti) - To, tols, 'pin_model.py:calc_fuel_temps')
        stat['shell_res'] = max(stat.get('shell_res', 0.0), abs(Ti - Gs(Ti)))
        if P.r0 > 0.0:
            # exact hollow cylinder with adiabatic cavity (reported, not asserted)
            kb = 0.5 * (kf(Ti) + ko)
            exc += qd * P.r0 ** 2 * math.log(b / a) / (2.0 * kb)
    if P.r0 > 0.0:
        stat['annular_excess_K'] = max(stat.get('annular_excess_K', 0.0), exc)
        stat['annular_excess_rel'] = max(stat.get('annular_excess_rel', 0.0),
                                         exc / max(Tcl - Tf, 1e-300))
    return True


# ---------------------------------------------------------------------------
class Probe(object):
    """observation wrappers on ONE PinModel instance: records the messages
    handed to LoggedClass.log and the temperatures at which the real
    calc_fuel_temps asks for the conductivity (first request for zone i is
    made at the outer boundary of shell i).  Values are passed through."""

    def __init__(self, pm):
        self.pm = pm
        self.msgs = []
        self.calls = []
        olog, ocond = pm.log, pm._fuel_cond

        def log(level, message, indent=None):
            self.msgs.append((level, str(message)))
            return olog(level, message, indent)

        def cond(i, T):
            self.calls.append((i, np.array(T, dtype=float, ndmin=1).copy()))
            return ocond(i, T)
        pm.log = log
        pm._fuel_cond = cond
        for m in pm.fuel['mat']:
            m.log = self._matlog(m.log)

    def _matlog(self, orig):
        def log(level, message, indent=None):
            self.msgs.append((level, 'MATERIAL ' + str(message)))
            return orig(level, message, indent)
        return log

    def reset(self):
        del self.msgs[:]
        del self.calls[:]

    def interfaces(self, t_od, t_cl, npts):
        """boundary temperatures surface -> centre, one array per boundary"""
        out, seen = [], set()
        for i, T in self.calls:
            if i not in seen:
                seen.add(i)
                out.append(T)
        if len(out) != npts:
            return None
        return out + [np.array(t_cl, dtype=float, ndmin=1)]


def stage_of(msgs):
    """which of dassh's two documented error exits ended the call: the
    iteration limit of a stage, or the Material guard (k < 0 / T <= 0) of a
    fuel zone whose correlation left its range"""
    for lvl, m in msgs:
        if lvl == 'error' and 'temperature calculation did not converge' in m:
            return m.split(' temperature')[0].strip()
        if lvl == 'error' and m.startswith('MATERIAL') and (
                'thermal conductivity must' in m or 'temperature must' in m):
            return 'fuel-k-guard'
    return None


def get_atol():
    from dassh import PinModel
    return float(inspect.signature(PinModel.calculate_temperatures).parameters['atol'].default)


# ---------------------------------------------------------------------------
def run_case(c):
    if c.get('part') == 'C':
        return run_case_c(c)
    if c['part'] == 'B':
        return run_case_b(c)
    return run_case_a(c)


def run_case_a(c):
    r = new_result()
    V = r['violations']
    atol = get_atol()
    stat = {}
    cnt = {}

    def tick(k):
        cnt[k] = cnt.get(k, 0) + 1

    scn, dsn = build_scenario(c)
    try:
        with S.Built(scn) as b:
            reactor = b.reactor()
        pm = reactor.assemblies[0].rodded.pin_model
    except BaseException as e:
        z = _zone_lists(c)
        if isinstance(e, SystemExit) and c['fuel'] == 'metal' and any(
                metal_k(z['pu'][i], z['zr'][i], z['por'][i])(298.15) < 0 for i in range(c['zones'])):
            # Material guard at construction: the handbook correlation is negative
            # at the default 298.15 K for this composition -> clean rejection
            r['outcome'] = 'rejected-composition'
            r['states'] = 1
            return r
        V.append(violation('pin-construction', c, '%s: %s' % (type(e).__name__, str(e)[:200]),
                           site=site_of(e)))
        r['outcome'] = 'build-fail'
        return r
    P = Pin(c, dsn, pm)
    # the object really has the geometry / materials of the input
    geo_real = [pm.clad['r'][2], pm.clad['r'][1], pm.clad['r'][0], pm.fuel['r'][-1, 1],
                pm.fuel['r'][0, 0], pm.fuel['n_pts'], pm.gap['dr']]
    geo_mine = [P.ro, P.rm, P.ri, P.rf, P.r0, c['zones'], P.gap]
    mm = material_mismatch(P, pm)
    if mm:
        V.append(violation('material-k-mismatch', c, 'conductivity of the real object differs from '
                           'the documented correlation / input coefficients', mm[:3], None, 1e-12,
                           site='pin_model.py:MetallicFuel' if c['fuel'] == 'metal' else 'material.py:Material'))
    probe = Probe(pm)
    any_pos = False

    def one(q, h, Tc, dz, col, chain_idx=None):
        """one real call + oracles; returns the reported row or None"""
        nonlocal any_pos
        at = dict(c)
        at.update({'q': q, 'h': h, 'Tc': Tc, 'dz': dz, 'col': col})

        def bad(kind, what, obs=None, exp=None, tol=None, site=None):
            V.append(violation(kind, at, what, obs, exp, tol, site=site))
            tick('viol:' + kind)
        probe.reset()
        r['states'] += 1
        _, beyond = reference(P, q, Tc, h)
        try:
            t = pm.calculate_temperatures(np.array([q]), np.array([Tc]), np.array([h]), dz)
        except SystemExit:
            st = stage_of(probe.msgs)
            if st is None:
                bad('unexpected-exit', 'SystemExit without the iteration message: %s'
                    % (probe.msgs[-1][1][:120] if probe.msgs else '?'), site='pin_model.py:calculate_temperatures')
                tick('%s:exit' % col)
            elif beyond:
                tick('%s:%s-beyond-melting:%s' % (col, 'rejected' if st == 'fuel-k-guard' else 'nonconv', st))
            else:
                bad('nonconvergence-below-melting',
                    '%s iteration hit its limit although the reference solution is below every '
                    'melting limit: %s' % (st, probe.msgs[-1][1].replace('\n', ' ')[:160]),
                    None, 'converged', atol, site='pin_model.py:' + {
                        'Clad': 'calc_clad_temps', 'Fuel-clad gap': 'calc_fuel_surf_temp',
                        'Fuel CL': 'calc_fuel_temps', 'fuel-k-guard': '_fuel_cond'}.get(
                            st, 'calculate_temperatures'))
                tick('%s:nonconv-below-melting:%s' % (col, st))
            return None
        except Exception as e:
            bad('unexpected-exception', '%s: %s' % (type(e).__name__, str(e)[:200]), site=site_of(e))
            tick('%s:exception' % col)
            return None
        row = [float(x) for x in t[0]]
        if t.shape != (1, 6):
            bad('shape', 'result shape', list(t.shape), [1, 6])
            return None
        iface = probe.interfaces(row[4], row[5], c['zones'])
        if iface is None:
            bad('fuel-chain-ends', 'could not observe %d shell boundaries' % c['zones'],
                len(probe.calls), c['zones'], site='pin_model.py:calc_fuel_temps')
            return None
        ok = check_state(P, q, Tc, h, row, [float(x[0]) for x in iface], atol, bad, stat)
        tick('%s:converged%s' % (col, '-beyond-melting' if beyond else ''))
        if ok and q > 0 and row[5] > row[4] > row[0]:
            any_pos = True
        return row if ok else None

    if max(abs(a - b_) for a, b_ in zip(geo_real, geo_mine)) > 1e-15:
        V.append(violation('pin-geometry', c, 'radii of the real PinModel differ from the input',
                           [float(x) for x in geo_real], geo_mine, 1e-15, site='pin_model.py:__init__'))
    # ---- full grid
    for h, Tc, dz in c['env']:
        for col, q in c['powers']:
            one(q, h, Tc, dz, col)
            r['transitions'] += 1
    # ---- doubling chain (first environment): monotone non-decreasing in power
    h, Tc, dz = c['env'][0]
    prev, prevq = one(0.0, h, Tc, dz, 'chain'), 0.0
    ncmp = 0
    for k, q in enumerate(c['chain']):
        row = one(q, h, Tc, dz, 'chain', k)
        r['transitions'] += 1
        if row is None:
            prev = None
            continue
        if prev is not None:
            ncmp += 1
            # exact: doubling the power moves every drop by far more than atol
            if any(row[j] < prev[j] for j in range(6)):
                at = dict(c)
                at.update({'q': q, 'q_prev': prevq, 'h': h, 'Tc': Tc, 'dz': dz, 'col': 'chain'})
                V.append(violation('monotone-power', at, 'a temperature fell when the power doubled',
                                   row, prev, 0.0, site='pin_model.py:calculate_temperatures'))
        prev, prevq = row, q
    r['traces'] = 1
    r['nontrivial'] = any_pos
    r['outcome'] = 'violations' if V else (
        'ok+nonconv-beyond' if any('nonconv-beyond' in k for k in cnt) else 'ok')
    stat = {k: float(v) for k, v in sorted(stat.items())}
    r['info'] = dict(stat, D=dsn['pin_diameter'], t_clad=dsn['clad_thickness'], chain_cmp=ncmp)
    r['extra'] = {'A': cnt, 'A_chain_comparisons': ncmp,
                  'A_cfg': {'zones%d' % c['zones']: 1, 'annular' if c['annular'] else 'solid': 1,
                            'gap:' + c['gap']: 1, 'fuel:' + c['fuel'] + ':' + c.get('umat', 'mfh'): 1}}
    return r


# ---------------------------------------------------------------------------
def _field(kind, xy, n):
    i = np.arange(n, dtype=float)
    if kind == 'gradient':
        x = xy[:n, 0]
        return 700.0 + 80.0 * (x - x.min()) / max(x.max() - x.min(), 1e-30)
    if kind == 'irregular':
        return 650.0 + 100.0 * np.modf((i + 1.0) * 0.6180339887)[0]
    f = 690.0 + 0.25 * i
    f[n // 3] += 120.0
    f[-1] -= 40.0
    return f


def run_case_b(c):
    r = new_result()
    V = r['violations']
    atol = get_atol()
    cnt = {}
    scn, dsn = build_scenario(c, rings=c['rings'], pd=c['pd'], wire=c['wire'], q=QB, pins='tilt')

    def bad(kind, what, obs=None, exp=None, tol=None, site='region_rodded.py:calculate_pin_temperatures'):
        V.append(violation(kind, c, what, obs, exp, tol, site=site))
    try:
        with S.Built(scn) as b:
            reactor = b.reactor()
            reactor.axial_step0()
            for i in range(1, min(4, len(reactor.z))):
                reactor.axial_step(reactor.z[i], reactor.dz[i - 1], i)
                r['transitions'] += 1
    except BaseException as e:
        V.append(violation('sweep-failed', c, '%s: %s' % (type(e).__name__, str(e)[:200]), site=site_of(e)))
        r['outcome'] = 'build-fail'
        return r
    asm = reactor.assemblies[0]
    rr = asm.rodded
    pm = rr.pin_model
    P = Pin(c, dsn, pm)
    sc = rr.subchannel
    npin = rr.n_pin
    ncool = len(rr.temp['coolant_int'])
    typ = np.asarray(sc.type)[:ncool]
    adj = [sorted(int(s) for s in sc.pin_adj[p] if s >= 0) for p in range(npin)]
    frac = {0: 1.0 / 6.0, 1: 0.25, 2: 1.0 / 6.0}        # pin perimeter seen by a cell (reported)
    probe = Probe(pm)
    dz = float(reactor.dz[0])
    pw = QB * S.radial_weights(npin, 'tilt')

    def call(field, powers):
        rr.temp['coolant_int'] = np.array(field, dtype=float)
        probe.reset()
        rr.calculate_pin_temperatures(dz, powers)
        r['states'] += 1
        r['transitions'] += 1
        return rr.pin_temps.copy()

    # ---- state left behind by the real sweep: column 3 is a convex combination
    # of the adjacent cells of the real field
    real_field = rr.temp['coolant_int'].copy()
    pt = rr.pin_temps.copy()
    for p in range(npin):
        lo, hi = real_field[adj[p]].min(), real_field[adj[p]].max()
        if not (lo - 4 * EPS * hi <= pt[p, 3] <= hi + 4 * EPS * hi):
            bad('pin-coolant-range', 'after sweep: pin %d coolant temperature outside the range of '
                'its adjacent subchannels' % p, float(pt[p, 3]), [float(lo), float(hi)], 4 * EPS * hi)
            break
    # ---- explicit non-uniform field, nominal powers: rows obey all oracles
    base = _field(c['field'], np.asarray(sc.xy, dtype=float), ncool)
    try:
        pt = call(base, pw)
    except SystemExit:
        bad('nonconvergence-below-melting', 'region call exited: %s' % (stage_of(probe.msgs),),
            site='pin_model.py:calculate_temperatures')
        r['outcome'] = 'exit'
        return r
    if not np.all(np.isfinite(pt)):
        bad('non-finite', 'NaN/inf in pin_temps')
    if not np.array_equal(pt[:, 2], np.arange(npin)):
        bad('pin-index', 'pin id column changed', pt[:, 2].tolist(), list(range(npin)))
    # film coefficient exactly as the region documents it: k Nu / De (trusted base:
    # the Nusselt correlation itself)
    nu = rr.corr['pin_nu'](rr.coolant, rr.coolant_int_params['Re'], pm.htc_params)
    h = float(rr.coolant.thermal_conductivity * nu / rr.bundle_params['de'])
    iface = probe.interfaces(pt[:, 7], pt[:, 8], c['zones'])
    stat = {}
    for p in range(npin):
        def badp(kind, what, obs=None, exp=None, tol=None, site=None, p=p):
            V.append(violation(kind, dict(c, pin=p), what, obs, exp, tol, site=site))
        if iface is None:
            bad('fuel-chain-ends', 'could not observe shell boundaries', site='pin_model.py:calc_fuel_temps')
            break
        check_state(P, float(pw[p]), float(pt[p, 3]), h, pt[p, 3:], [float(x[p]) for x in iface],
                    atol, badp, stat)
    # ---- unit probing on the non-uniform field: +1 K on one subchannel at a time.
    # tol_p: each pin value is a sum of <= 6 products w*T (|T| <= Tmax+1), i.e.
    # <= 7 roundings of relative size eps on a result <= Tmax+1; the probe is the
    # difference of two such sums -> 2*7*eps*(Tmax+1), rounded up to 16 eps (Tmax+1)
    tol_p = 16 * EPS * float(base.max() + 1.0)
    W = np.zeros((npin, ncool))
    zero = np.zeros(npin)
    out0 = call(base, zero)
    b0 = out0[:, 3].copy()
    stz = {}
    for p in range(npin):
        def badz(kind, what, obs=None, exp=None, tol=None, site=None, p=p):
            V.append(violation(kind, dict(c, pin=p, q=0.0), what, obs, exp, tol, site=site))
        check_state(P, 0.0, float(out0[p, 3]), h, out0[p, 3:], [], atol, badz, stz)
    for s in range(ncool):
        f = base.copy()
        f[s] += 1.0
        W[:, s] = call(f, zero)[:, 3] - b0
    # uniform power-of-two field: T*w is exact, so column 3 / T is the floating
    # point sum of the weights themselves (no cancellation) -> 1e-12 is meaningful
    usum = call(np.full(ncool, 512.0), zero)[:, 3] / 512.0
    dev = 0.0
    for p in range(npin):
        nz = sorted(int(s) for s in np.where(np.abs(W[p]) > tol_p)[0])
        ntyp = [sum(1 for s in adj[p] if typ[s] == t) for t in (0, 1, 2)]
        kind = {(6, 0, 0): 'interior', (3, 2, 0): 'edge', (2, 2, 1): 'corner',
                (0, 0, 6): 'single'}.get(tuple(ntyp), 'odd%s' % ntyp)
        cnt['pin:' + kind] = cnt.get('pin:' + kind, 0) + 1
        if nz != adj[p]:
            bad('pin-coolant-adjacency', 'pin %d (%s): coolant temperature responds to subchannels %s, '
                'adjacent (subchannel.pin_adj) are %s' % (p, kind, nz, adj[p]), nz, adj[p], tol_p)
            continue
        if np.min(W[p]) < -tol_p:
            bad('pin-coolant-weights', 'pin %d (%s): negative weight' % (p, kind),
                float(np.min(W[p])), 0.0, tol_p)
        if abs(float(usum[p]) - 1.0) > 1e-12:
            bad('pin-coolant-weights', 'pin %d (%s): weights of the adjacent subchannels sum to %.15g '
                '(uniform 512 K field gives %.15g K)' % (p, kind, usum[p], 512.0 * usum[p]),
                float(usum[p]), 1.0, 1e-12)
        if abs(float(np.sum(W[p])) - 1.0) > len(adj[p]) * tol_p:
            bad('pin-coolant-weights', 'pin %d (%s): probed weights sum to %.15g'
                % (p, kind, float(np.sum(W[p]))), float(np.sum(W[p])), 1.0, len(adj[p]) * tol_p)
        # the value on the non-uniform field is that weighted mean (weights known to tol_p each)
        want = float(np.dot(W[p], base))
        tolw = len(adj[p]) * tol_p * float(base.max())
        if abs(b0[p] - want) > tolw:
            bad('pin-coolant-weights', 'pin %d: coolant temperature != sum w_s T_s' % p,
                float(b0[p]), want, tolw)
        dev = max(dev, max(abs(W[p, s] - frac[int(typ[s])]) for s in adj[p]))
    r['traces'] = 1
    r['nontrivial'] = bool(np.ptp(base) > 1.0)
    r['outcome'] = 'violations' if V else 'ok'
    r['info'] = dict({k: float(v) for k, v in sorted(stat.items())}, h=h, ncool=ncool, npin=npin,
                     weight_dev_from_perimeter_fraction=dev,
                     sweep_field_span=float(np.ptp(real_field)))
    r['extra'] = {'B': cnt, 'B_probes': ncool}
    return r


# ---------------------------------------------------------------------------
NOTE_KEYS = ('film_rel', 'clad_res', 'gap_rel', 'shell_res', 'rad_share', 'annular_excess_K',
             'annular_excess_rel', 'gap_slab_vs_cyl', 'mw_halfshell_K',
             'weight_dev_from_perimeter_fraction')


# ---------------------------------------------------------------------------
# Part C: several assemblies of one pin-model type swept together - the pin table each assembly
# REPORTS after every axial step must be its own (own id, coolant column = average of ITS adjacent
# subchannels, ordered temperatures), whatever its siblings do
def cases_c(tier):
    out = []
    models = cases_b('quick')[:2]
    seen = set()
    for m in cases_b('quick'):
        key = (m['fuel'], m['gap'])
        if key in seen:
            continue
        seen.add(key)
        for nasm in ((2, 3) if tier == 'quick' else (2, 3, 7)):
            for rings in ((2,) if tier == 'quick' else (2, 3)):
                c = dict(m, part='C', rings=rings, nasm=nasm, oftf=0.012 * rings + 0.006)
                c.pop('field', None)
                out.append(c)
                if rings == 2:
                    out.append(dict(c, ebal=True))      # the energy-balance tally on (reporting only)
    return out


def run_case_c(c):
    r = new_result()
    V = r['violations']
    rings = c['rings']
    scn, dsn = build_scenario(c, rings=rings, pd=c['pd'], wire=c['wire'], q=QB, pins='tilt', nsteps_len=0.2)
    pos = S.core_positions(2)[:c['nasm']]
    base_flow = scn['assign'][0][3]['flowrate']
    scn['core']['pitch'] = round(c['oftf'] + 0.004, 9)
    spec = scn['power']['asm']['1']
    scn['assign'] = [['A', rg, p, {'flowrate': base_flow * (1.0 + 0.3 * i)}] for i, (rg, p) in enumerate(pos)]
    scn['power']['asm'] = {str(S.asm_id(rg, p) + 1): dict(spec, q=QB * (1.0 + 0.12 * i), seed=i)
                           for i, (rg, p) in enumerate(pos)}
    twin = None
    if c.get('ebal'):
        # the same sweep with the tally off: switching on a tally (reporting only) must leave every reported pin
        # temperature unchanged
        import copy as _copy
        scn0 = _copy.deepcopy(scn)
        scn0['setup']['calc_energy_balance'] = False
        twin = {}
        with S.Built(scn0) as b0:
            rx0 = b0.reactor()
            rx0.axial_step0()
            for i in range(1, min(len(rx0.z) - 1, 25) + 1):
                rx0.axial_step(rx0.z[i], rx0.dz[i - 1], i)
                for a in rx0.assemblies:
                    if hasattr(a.active_region, 'pin_temps'):
                        twin[(i, int(a.id))] = np.array(a.active_region.pin_temps, dtype=float, copy=True)
    with S.Built(scn) as b:
        rx = b.reactor()
        q = np.array([1.0 / 6.0, 0.25, 1.0 / 6.0])
        rx.axial_step0()
        n = min(len(rx.z) - 1, 25)
        for i in range(1, n + 1):
            rx.axial_step(rx.z[i], rx.dz[i - 1], i)
            for a in rx.assemblies:
                reg = a.active_region
                if not hasattr(reg, 'pin_temps'):
                    continue
                if twin is not None:
                    ref_ = twin.get((i, int(a.id)))
                    dev_ = float('inf') if ref_ is None or ref_.shape != reg.pin_temps.shape else \
                        float(np.max(np.abs(ref_ - reg.pin_temps)))
                    if not dev_ <= 1e-9:
                        V.append(violation('pin-temps-depend-on-tally', dict(c, asm=int(a.id)),
                                           'after step %d the pin temperatures of assembly %d differ from those of the same '
                                           'sweep without calc_energy_balance' % (i, a.id), dev_, 0.0, 1e-9,
                                           site='region_rodded.py:_calc_coolant_int_temp'))
                        break
                sc = reg.subchannel
                typ = sc.type[:sc.n_sc['coolant']['total']]
                T = reg.temp['coolant_int']
                pa = sc.pin_adj
                want = np.array([sum(T[j] * q[typ[j]] for j in row if j >= 0) for row in pa])
                got = reg.pin_temps[:, 3]
                r['states'] += 1
                dev = float(np.max(np.abs(got - want)))
                if dev > 1e-9:
                    V.append(violation('reported-pin-coolant', dict(c, asm=int(a.id)),
                                       'after step %d the pin table reported by assembly %d does not hold the average '
                                       'of ITS adjacent subchannels' % (i, a.id), dev, 0.0, 1e-9,
                                       site='region_rodded.py:calculate_pin_temperatures'))
                    break
                if not np.all(reg.pin_temps[:, 0] == a.id):
                    V.append(violation('reported-pin-id', dict(c, asm=int(a.id)),
                                       'pin table of assembly %d carries another assembly id' % a.id,
                                       float(reg.pin_temps[0, 0]), float(a.id)))
                    break
                row = reg.pin_temps[:, 3:]
                if np.any(np.diff(row, axis=1) < -1e-9):
                    V.append(violation('ordering', dict(c, asm=int(a.id)),
                                       'reported pin temperatures of assembly %d are not ordered' % a.id))
                    break
            if V:
                break
        r['transitions'] = n * len(rx.assemblies)
    r['traces'] = 1
    r['nontrivial'] = True
    r['outcome'] = 'ok' if not V else 'violation'
    return r


def main(run):
    run.rule = ('Part A: every tuple of the stated grid (pin size x clad thickness x gap x fuel x zones x '
                'solid/annular); inside a case every (power column x environment) state and every step of '
                'the doubling chain is one real calculate_temperatures call; a case is non-trivial when at '
                'least one positive-power state converged with strictly rising temperatures. '
                'Part B: every (rings, P/D, pin model, field) tuple; one state per real '
                'calculate_pin_temperatures call (two unit probes per subchannel).')
    run.assumptions = [
        'observation wrappers on the PinModel instance (log, _fuel_cond) record messages and the shell '
        'boundary temperatures the real code evaluates; values pass through unchanged',
        'conductivities in the oracles: harness polynomials (input coefficients, Metallic Fuels Handbook '
        'correlation, HT9 literature coefficients), checked against the real callables; tabulated sodium '
        'through the real interpolant',
        '"beyond melting" = the harness reference solution of the same relations exceeds a melting limit '
        '(clad 1700 K, metal fuel 1400 K, user fuels 1400/2800/3000 K) or does not exist',
        'iteration tolerance atol = %g K read from the signature of calculate_temperatures' % get_atol(),
    ]
    ca = cases_a(run.tier)
    cb = cases_b(run.tier)
    run.check_determinism(run_case, ca[0])
    ra = run.explore('pinmodel', ca, run_case, budget_s=120)
    rb = run.explore('region', cb, run_case, budget_s=300, chunksize=1)
    run.explore('siblings', cases_c(run.tier), run_case, budget_s=300, chunksize=1)
    # the csv dump of this property's field: every row is the recorded field of that assembly at that plane
    from . import reports as _rep
    run.explore('report-dumps', _rep.cases_dumps(run.tier), _rep.run_dumps_C13, budget_s=300)
    for res in ra + rb:
        for k in NOTE_KEYS:
            if res.get('info') and k in res['info']:
                run.max_extra(k, res['info'][k])
    # vacuity: every class the oracles talk about must have occurred
    A = run.extra.get('A', {})
    B = run.extra.get('B', {})
    need = ['zero:converged', 'low:converged', 'nominal:converged', 'high:converged', 'chain:converged']
    miss = [k for k in need if not A.get(k)]
    if not any(k.startswith('beyond:') for k in A):
        miss.append('beyond:*')
    if not any('nonconv-beyond-melting' in k for k in A):
        miss.append('*:nonconv-beyond-melting')
    if not run.extra.get('A_chain_comparisons'):
        miss.append('chain comparisons')
    if run.notes.get('rad_share', 0.0) < 1e-3:
        miss.append('radiating gap (radiation share >= 1e-3)')
    if run.notes.get('annular_excess_K', 0.0) <= 0.0:
        miss.append('annular pellets')
    for k in ('pin:interior', 'pin:edge', 'pin:corner'):
        if not B.get(k):
            miss.append(k)
    if miss:
        v = violation('vacuous-alphabet', {'tier': run.tier}, 'expected classes never occurred: %s' % miss)
        v['part'] = 'selftest'
        run.violations.append(v)


def replay(body):
    if str((body.get('scenario') or {}).get('probe', '')).startswith('report-'):
        from . import reports
        return reports.replay(body)
    r = guarded(run_case, body['scenario'], 600)
    for v in r['violations']:
        print('VIOLATION property=C13 replay=(inline) kind=%s site=%s %s observed=%s expected=%s tol=%s'
              % (v['kind'], v.get('site'), v['what'], str(v.get('observed'))[:200],
                 str(v.get('expected'))[:200], v.get('tolerance')))
    print('outcome', r['outcome'], r.get('info'))
    return 1 if r['violations'] else 0
