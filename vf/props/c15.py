"""C15  Reported peak temperatures are the maxima over the whole sweep.

Part `fold` (explicit-state search, vf.run.bfs)
    A real two-region assembly (two-duct pin bundle with a FuelModel and a
    one-duct reflector, built once through vf.scenario; both axial orders).
    Every event overwrites the temperature arrays of the active region with a
    base field, raises/lowers ONE entry, advances `asm._z` by a step and calls
    the real `_update_peak_coolant_temps`, `_update_peak_duct_temps` and (when
    the active region has a pin model, the guard `Assembly.calculate` uses)
    `_update_peak_pin_temps`.  The event "switch" calls the real
    `Assembly.update_region` with a height inside the other region.
    Event alphabet: {coolant, duct-0, duct-1, clad (mid-wall column), fuel
    (centre-line column)} x {first, last cell / pin} x {lo, mid, hi, hi again}
    + switch.  All sequences to depth 3 (quick) / 4 (thorough); convergent
    paths are merged on (active region, z, rounded `_peak` incl. heights and
    stored pin rows, reference fold).  Sound because the three update methods
    read only the current arrays, `z` and `_peak` (assumption, by reading; it is
    cross-checked by executing ALL sequences of depth <= 2 without merging and
    comparing the reached state set and the path counts).
    Invariant in every state: `_peak` equals the harness's fold over the event
    history: strict running maximum per tracked quantity with the height of its
    first occurrence; ducts are identified physically (by their flat-to-flat
    pair), so the single duct of the reflector is the assembly's outer duct;
    the stored pin profile is the recorded row of a pin that attains the
    maximum on the plane where it was first attained.

Part `sweep` (end to end)
    power shape {bottom, middle, top, several equal maxima, zero} x axial
    structure {bundle, reflector + bundle + reflector (1 / 6 coolant nodes,
    one duct)} x ducts {1, 2, 3} x pin model {FuelModel, PinModel, none} x
    {1, 2 assemblies} (thorough: x rings {2, 3} x gap model {none, flow}).
    A recorder wrapped round `Assembly.calculate` copies coolant, duct mid-wall
    and pin arrays after every plane.  After `temperature_sweep()`:
    `_peak` == recorded maxima (values exact, height = first computed plane
    attaining it, stored pin row == recorded row of that pin on that plane);
    after `postprocess()` EVERY printed cell of the coolant, duct and peak pin
    tables parsed from `dassh.out` must equal the recorded maxima /
    final-plane fields at print precision (precision and column widths are
    read from the table objects' own format strings): peak value and height
    per quantity, bulk / peak outlet, per-face duct averages, one row per
    physical duct wall under its own number, pin / height / radial profile of
    the peak pin row, placeholders where nothing is computed, row labels,
    assembly power (integral of the harness's power specification), assigned
    flow rate, linear power of the peak pin, and the unit labels of the
    column headings.
    Unit variants of the table part: a subset of the same scenarios (quick: a
    double-duct multi-region FuelModel assembly, a double-duct PinModel bundle,
    two single-duct multi-region PinModel assemblies with a flowing gap;
    thorough: every scenario of the quick SI list) is written in length units
    {cm, in} x temperature units {celsius, fahrenheit} by
    `vf.props.c17.convert_scenario` (harness-side exact factors; the power CSV
    stays in metres, as dassh reads it).  The recorder's fields stay in SI and
    are converted by the harness (`c17.from_si`) for the comparison; the
    headings must carry the labels of the input's unit system.  For SI inputs
    cells taken over unchanged from `_peak` must match as strings; for
    converted values and independent recomputations the tolerance is half a
    unit of the last printed digit + 1e-9 relative (the two conversions may
    differ in the last bit).
    Tiers: quick 50 SI + 12 unit sweeps; thorough 720 SI + 200 unit sweeps.
"""
import copy
import os
import re

import numpy as np

from ..run import new_result, violation, site_of, guarded, bfs
from .. import scenario as S
from .. import observe as O
from . import c17 as U          # harness-side unit tables and scenario converter (exact factors)

# documented layout of RoddedRegion.pin_temps (region_rodded.make):
# id, z, pin, adjacent coolant, clad OD / MW / ID, fuel OD / CL
PINKEYS = ['clad_od', 'clad_mw', 'clad_id', 'fuel_od', 'fuel_cl']
PINCOL = {'clad_od': 4, 'clad_mw': 5, 'clad_id': 6, 'fuel_od': 7, 'fuel_cl': 8}

FUELMODEL = {'clad_material': 'ht9_se2anl_425', 'gap_material': 'sodium_se2anl_425',
             'gap_thickness': 0.0, 'r_frac': [0.0, 0.33333, 0.66667],
             'pu_frac': [0.2, 0.2, 0.2], 'zr_frac': [0.1, 0.1, 0.1],
             'porosity': [0.1, 0.1, 0.1]}
PINMODEL = {'clad_material': 'ht9_se2anl_425', 'r_frac': [0.0, 0.33333, 0.66667],
            'pin_material': ['ox1', 'ox2', 'ox3'], 'gap_material': 'sodium_se2anl_425',
            'gap_thickness': 0.0001}
PINMATS = {'ox1': {'thermal_conductivity': 3.0}, 'ox2': {'thermal_conductivity': 4.0},
           'ox3': {'thermal_conductivity': 5.0}}

SITE = {'cool': 'assembly.py:_update_peak_coolant_temps',
        'duct': 'assembly.py:_update_peak_duct_temps',
        'pin': 'assembly.py:_update_peak_pin_temps'}


# ----------------------------------------------------------------------
# shared: physical duct identity, reference fold
def duct_map(asm):
    """per region: physical duct index (0 = innermost wall of the assembly) of
    every row of temp['duct_mw'], from the flat-to-flat pairs of the walls"""
    per = []
    pairs = set()
    for reg in asm.region:
        d = reg.duct_ftf
        if reg.is_rodded:
            lst = [tuple(round(float(x), 9) for x in p) for p in d]
        else:
            lst = [tuple(round(float(x), 9) for x in d)]
        per.append(lst)
        pairs.update(lst)
    order = sorted(pairs)
    return [[order.index(p) for p in lst] for lst in per], len(order)


def f(x):
    return None if x is None else float(x)


class Fold(object):
    """reference: strict running maximum + first height (+ the plane's pin
    array for pins) per tracked quantity"""

    def __init__(self, nduct, pins):
        self.cool = None
        self.duct = [None] * nduct
        self.pin = {k: None for k in PINKEYS} if pins else None

    def copy(self):
        o = Fold(len(self.duct), self.pin is not None)
        o.cool = self.cool
        o.duct = list(self.duct)
        if self.pin is not None:
            o.pin = dict(self.pin)
        return o

    def plane(self, z, cool, duct, dmap, pins):
        """cool: 1-d list; duct: list of rows; dmap: physical index per row;
        pins: None or list of 9-lists"""
        m = max(cool)
        if self.cool is None or m > self.cool[0]:
            self.cool = (m, z)
        for row, g in zip(duct, dmap):
            m = max(row)
            if self.duct[g] is None or m > self.duct[g][0]:
                self.duct[g] = (m, z)
        if pins is not None and self.pin is not None:
            for k in PINKEYS:
                c = PINCOL[k]
                m = max(p[c] for p in pins)
                if self.pin[k] is None or m > self.pin[k][0]:
                    self.pin[k] = (m, z, pins)

    def key(self):
        out = [self.cool, tuple(self.duct)]
        if self.pin is not None:
            out.append(tuple((k, None if v is None else (v[0], v[1])) for k, v in sorted(self.pin.items())))
        return tuple(out)


def compare_peak(asm, ref, nduct_expected, V, c, where=''):
    """`_peak` of the real assembly against the reference fold; appends
    violations (own kind per disagreement) and returns the number of
    comparisons made"""
    n = 0
    pk = asm._peak
    # coolant
    if ref.cool is not None:
        n += 1
        try:
            v, z = pk['cool']
        except TypeError:
            v, z = pk['cool'], None
        if f(v) != ref.cool[0]:
            V.append(violation('peak-coolant-value', dict(c, quantity='cool'),
                               '_peak[cool] value is not the maximum over the planes seen%s' % where,
                               f(v), ref.cool[0], 0.0, site=SITE['cool']))
        elif f(z) != ref.cool[1]:
            V.append(violation('peak-coolant-height', dict(c, quantity='cool'),
                               '_peak[cool] height is not the first plane attaining the maximum%s' % where,
                               f(z), ref.cool[1], 0.0, site=SITE['cool']))
    # ducts
    if len(pk['duct']) != nduct_expected:
        V.append(violation('peak-duct-slots', c, 'number of duct peak slots differs from the number of '
                           'physical duct walls of the assembly', len(pk['duct']), nduct_expected, 0,
                           site='assembly.py:__init__'))
    else:
        for g in range(nduct_expected):
            slot = pk['duct'][g]
            try:
                v, z = slot
            except TypeError:
                v, z = slot, None
            if ref.duct[g] is None:
                if (f(v), f(z)) != (0.0, 0.0):
                    V.append(violation('peak-duct-without-plane', dict(c, quantity='duct-%d' % g),
                                       'duct %d has a peak although no plane of this wall was computed%s' % (g, where),
                                       [f(v), f(z)], [0.0, 0.0], 0.0, site=SITE['duct']))
                continue
            n += 1
            if f(v) != ref.duct[g][0]:
                V.append(violation('peak-duct-value', dict(c, quantity='duct-%d' % g),
                                   '_peak[duct][%d] value is not the maximum of physical duct %d over the planes '
                                   'seen%s' % (g, g, where), f(v), ref.duct[g][0], 0.0, site=SITE['duct']))
            elif f(z) != ref.duct[g][1]:
                V.append(violation('peak-duct-height', dict(c, quantity='duct-%d' % g),
                                   '_peak[duct][%d] height is not the first plane attaining the maximum%s' % (g, where),
                                   f(z), ref.duct[g][1], 0.0, site=SITE['duct']))
    # pins
    if ref.pin is not None:
        if 'pin' not in pk:
            V.append(violation('peak-pin-missing', c, 'assembly with a pin model has no _peak[pin]',
                               site='assembly.py:__init__'))
            return n
        for k in PINKEYS:
            ent = pk['pin'][k]
            if ent[1] != PINCOL[k]:
                V.append(violation('peak-pin-column', dict(c, quantity=k), 'look-up column of %s changed' % k,
                                   ent[1], PINCOL[k], 0, site=SITE['pin']))
            if ref.pin[k] is None:
                if f(ent[0]) != 0.0 or list(ent[2]):
                    V.append(violation('peak-pin-without-plane', dict(c, quantity=k),
                                       '%s has a peak although no bundle plane was computed%s' % (k, where),
                                       [f(ent[0]), [f(x) for x in ent[2]]], [0.0, []], 0.0, site=SITE['pin']))
                continue
            n += 1
            m, z, plane = ref.pin[k]
            row = [f(x) for x in ent[2]]
            if f(ent[0]) != m:
                V.append(violation('peak-pin-value', dict(c, quantity=k),
                                   '_peak[pin][%s] value is not the maximum over planes and pins%s' % (k, where),
                                   f(ent[0]), m, 0.0, site=SITE['pin']))
                continue
            bad = None
            if len(row) != 9:
                bad = 'stored profile has %d entries' % len(row)
            elif row[1] != z:
                bad = 'stored profile carries height %r, the maximum was first attained at %r' % (row[1], z)
            else:
                p = int(row[2])
                if not (0 <= p < len(plane)) or row[2] != p:
                    bad = 'stored profile names pin %r' % row[2]
                elif plane[p][PINCOL[k]] != m:
                    bad = 'stored profile is of pin %d, which does not attain the maximum on that plane' % p
                elif [f(x) for x in plane[p]] != row:
                    bad = 'stored profile differs from the recorded row of pin %d on that plane' % p
            if bad:
                cand = [q for q in range(len(plane)) if plane[q][PINCOL[k]] == m]
                V.append(violation('peak-pin-profile', dict(c, quantity=k),
                                   '_peak[pin][%s]: %s%s' % (k, bad, where), row,
                                   [f(x) for x in plane[cand[0]]], 0.0, site=SITE['pin']))
    return n


# ======================================================================
# Part A: fold exploration
FIELDS = ['coolant', 'duct-0', 'duct-1', 'clad', 'fuel']
CELLS = ['first', 'last']
LEVELS = {'lo': -50.0, 'mid': 50.0, 'hi': 100.0, 'hi2': 100.0}
LEVEL_ORDER = ['lo', 'mid', 'hi', 'hi2']
BASE = {'coolant': 700.0, 'duct-0': 705.0, 'duct-1': 710.0}
PINBASE = [700.0, 715.0, 720.0, 725.0, 730.0, 735.0]     # columns 3..8
FIELDCOL = {'clad': PINCOL['clad_mw'], 'fuel': PINCOL['fuel_cl']}
DZ = 0.01
ORDERS = ['bundle-reflector', 'reflector-bundle']


def fold_scenario(order):
    L = 0.4
    if order == 'bundle-reflector':
        regions = {'upper': {'z_lo': 0.2, 'z_hi': L, 'vf_coolant': 0.3}}
    else:
        regions = {'lower': {'z_lo': 0.0, 'z_hi': 0.2, 'vf_coolant': 0.3}}
    dsn = S.design(2, ducts=2, oftf=0.062, fuelmodel=FUELMODEL, bypass_fraction=0.05, regions=regions)
    pw = {'rings': 2, 'nduct': 2, 'cells': [0.0, 0.2, 0.4], 'q': 8000.0, 'pins': 'asym',
          'duct': 'uniform', 'cool': 'uniform', 'axial': ['up', 'down'], 'seed': 0}
    return S.single(dsn, 0.5, length=L, power=pw)


class FoldHarness(object):
    def __init__(self, asm, c, peak0=None):
        self.asm = asm
        self.c = c
        self.dmap, self.nduct = duct_map(asm)
        # `_peak` as Assembly.__init__ left it
        self.peak0 = copy.deepcopy(asm._peak if peak0 is None else peak0)
        self.counts = {}
        self.viol_count = {}
        self.calls = 0

    # -- states --------------------------------------------------------
    def initial(self):
        a = self.asm
        s = {'peak': copy.deepcopy(self.peak0), 'idx': 0, 'z': 0.0, 'n': 0,
             'ref': Fold(self.nduct, 'pin' in self.peak0), 'bad': []}
        s['key'] = self.key(s)
        return s

    @staticmethod
    def _peak_key(pk):
        def t(x):
            try:
                return tuple(round(float(y), 9) for y in x)
            except TypeError:
                return round(float(x), 9)
        out = [t(pk['cool']), tuple(t(x) for x in pk['duct'])]
        if 'pin' in pk:
            out.append(tuple((k, round(float(v[0]), 9), v[1], tuple(round(float(y), 9) for y in v[2]))
                             for k, v in sorted(pk['pin'].items())))
        return tuple(out)

    def key(self, s):
        return (s['idx'], round(s['z'], 9), s['n'], self._peak_key(s['peak']), s['ref'].key())

    def enabled(self, s):
        reg = self.asm.region[s['idx']]
        evs = []
        if hasattr(reg, 'pin_model'):
            fields = FIELDS
        else:
            fields = ['coolant', 'duct-1']          # the reflector's only wall is the outer duct
        for fld in fields:
            for cell in CELLS:
                for lv in LEVEL_ORDER:
                    evs.append('%s:%s:%s' % (fld, cell, lv))
        if s['idx'] == 0:
            evs.append('switch')
        return evs

    # -- one real transition -------------------------------------------
    def step(self, s, ev):
        a = self.asm
        a._peak = copy.deepcopy(s['peak'])
        a._active_region_idx = s['idx']
        a._z = s['z']
        ref = s['ref'].copy()
        bad = []
        if ev == 'switch':
            zin = a.region_bnd[1] + 1e-6                # any height inside the second region
            # a region can be activated once only (all temperatures still 1): put the
            # target region back into its pristine, not-yet-activated state
            for arr in a.region[1].temp.values():
                arr[...] = 1.0
            a.update_region(zin, None, None, adiabatic=True)     # the real switch
            self.calls += 1
            if a.active_region_idx != 1:
                bad.append(violation('switch-failed', dict(self.c), 'update_region did not activate the upper region',
                                     a.active_region_idx, 1, 0, site='assembly.py:update_region'))
        else:
            fld, cell, lv = ev.split(':')
            reg = a.active_region
            rmap = self.dmap[a.active_region_idx]
            # base fields
            reg.temp['coolant_int'][:] = BASE['coolant']
            for row, g in enumerate(rmap):
                reg.temp['duct_mw'][row, :] = BASE['duct-%d' % g]
            pins = hasattr(reg, 'pin_model')
            if pins:
                npin = reg.pin_temps.shape[0]
                for j in range(6):
                    reg.pin_temps[:, 3 + j] = PINBASE[j]
                reg.pin_temps[:, 3] += 0.01 * np.arange(npin)      # make every row unique
            # the one deviating entry
            if fld == 'coolant':
                arr = reg.temp['coolant_int']
                arr[0 if cell == 'first' else arr.shape[0] - 1] = BASE['coolant'] + LEVELS[lv]
            elif fld.startswith('duct'):
                g = int(fld[-1])
                row = rmap.index(g)
                arr = reg.temp['duct_mw']
                arr[row, 0 if cell == 'first' else arr.shape[1] - 1] = BASE[fld] + LEVELS[lv]
            else:
                col = FIELDCOL[fld]
                p = 0 if cell == 'first' else reg.pin_temps.shape[0] - 1
                reg.pin_temps[p, col] = PINBASE[col - 3] + LEVELS[lv]
            # advance the height like Assembly.calculate does, then the real updates
            a._z = s['z'] + DZ
            a._update_peak_coolant_temps()
            a._update_peak_duct_temps()
            if pins:
                a._update_peak_pin_temps()
            self.calls += 3 if pins else 2
            # reference fold on a private copy of what was written
            prow = None
            if pins:
                pr = np.array(reg.pin_temps, dtype=float, copy=True)
                pr[:, 1] = a._z
                prow = [[float(x) for x in r_] for r_ in pr]
            ref.plane(float(a._z), [float(x) for x in reg.temp['coolant_int']],
                      [[float(x) for x in r_] for r_ in reg.temp['duct_mw']], rmap, prow)
        n = {'peak': copy.deepcopy(a._peak), 'idx': a.active_region_idx, 'z': float(a._z),
             'n': s['n'] + 1, 'ref': ref, 'bad': bad}
        n['key'] = self.key(n)
        self.counts[n['key']] = self.counts.get(n['key'], 0) + self.counts.get(s['key'], 1)
        return n

    def invariant(self, s, hist):
        V = list(s['bad'])
        cc = dict(self.c, history=list(hist))
        for v in V:
            v['scenario'] = cc
        a = self.asm
        keep = a._peak
        a._peak = s['peak']
        compare_peak(a, s['ref'], self.nduct, V, cc, ' (after %d events)' % len(hist))
        a._peak = keep
        out = []
        for v in V:
            k = v['kind']
            self.viol_count[k] = self.viol_count.get(k, 0) + 1
            if self.viol_count[k] <= 2:            # first two per kind carry a replayable history
                out.append(v)
        return out


def run_fold(c):
    r = new_result()
    V = r['violations']
    scn = fold_scenario(c['order'])
    with S.Built(scn) as b:
        rx = b.reactor()
        asm = rx.assemblies[0]
        want = ['RoddedRegion', 'SingleNodeHomogeneous']
        if c['order'] == 'reflector-bundle':
            want = want[::-1]
        got = [type(x).__name__ for x in asm.region]
        if got != want or asm.active_region_idx != 0:
            V.append(violation('harness-setup', c, 'regions are not as planned', got, want))
            r['outcome'] = 'setup'
            return r
        H = FoldHarness(asm, {k: v for k, v in c.items() if k != 'history'})
        if c.get('history') is not None:
            # replay of one sequence
            s = H.initial()
            V.extend(H.invariant(s, []))
            hist = []
            for ev in c['history']:
                if ev not in H.enabled(s):
                    V.append(violation('harness-replay', c, 'event %s not enabled' % ev))
                    break
                s = H.step(s, ev)
                hist.append(ev)
                V.extend(H.invariant(s, hist))
                r['states'] += 1
                r['transitions'] += 1
            r['traces'] = 1
            r['outcome'] = 'violation' if V else 'ok'
            r['info'] = {'peak': H._peak_key(s['peak'])}
            return r
        s0 = H.initial()
        H.counts[s0['key']] = 1
        res = bfs([s0], H.enabled, H.step, lambda s: s['key'], H.invariant, c['depth'])
        V.extend(res['violations'])
        seqs = sum(H.counts.values())
        by_depth = {}
        for k, nn in H.counts.items():
            d = by_depth.setdefault(k[2], [0, 0])
            d[0] += 1
            d[1] += nn
        # ---- merge soundness self-check: all sequences of depth <= 2, unmerged
        H2 = FoldHarness(asm, H.c, H.peak0)
        seen2 = {}

        def rec(s, hist, depth):
            seen2[s['key']] = seen2.get(s['key'], 0) + 1
            V.extend(H2.invariant(s, hist))
            if depth == 0:
                return
            for ev in H2.enabled(s):
                rec(H2.step(s, ev), hist + [ev], depth - 1)
        rec(H2.initial(), [], min(2, c['depth']))
        low = {k: nn for k, nn in H.counts.items() if k[2] <= 2}
        if seen2 != low:
            V.append(violation('merge-unsound', c, 'states / path counts of the merged search differ from the '
                               'unmerged enumeration to depth 2', len(low), len(seen2)))
        r['states'] = res['states']
        r['transitions'] = res['transitions'] + sum(seen2.values()) - 1
        r['traces'] = res['transitions'] + sum(seen2.values())
        r['nontrivial'] = True
        r['outcome'] = 'violation' if V else 'ok'
        r['extra'] = {'fold_sequences_represented': seqs,
                      'fold_states': res['states'], 'fold_real_update_calls': H.calls + H2.calls,
                      'fold_violating_transitions': dict(H.viol_count),
                      'fold_unmerged_depth2_sequences': sum(seen2.values())}
        r['info'] = {'order': c['order'], 'depth': res['depth'], 'states': res['states'],
                     'transitions': res['transitions'], 'sequences_represented': seqs,
                     'states_paths_by_depth': {str(k): v for k, v in sorted(by_depth.items())},
                     'capped': res['capped']}
        if res['capped'] or res['depth'] != c['depth']:
            V.append(violation('harness-bfs-incomplete', c, 'search did not reach the stated depth', res['depth'], c['depth']))
    return r


# ======================================================================
# Part B: end-to-end sweeps
SHAPES = ['bottom', 'middle', 'top', 'several', 'zero']
SHAPE_AX = {
    # four power cells (quarters of the core height); polynomial names of vf.scenario.AXIAL
    'bottom': (['down', 'down', 'down', 'down'], [1.0, 0.9, 0.3, 0.1]),
    'middle': (['up', 'up', 'down', 'down'], [0.3, 1.0, 1.0, 0.3]),
    'top': (['up', 'up', 'up', 'up'], [0.1, 0.3, 0.9, 1.0]),
    'several': (['mid', 'mid', 'mid', 'mid'], [1.0, 1.0, 1.0, 1.0]),
}
STRUCTS = ['bundle', 'multi']
# 'thin': un-rodded end caps thinner than one axial step (the top region is exactly one step: the outlet
# plane of the summary is computed by a region that is active for that single step); not in the product
# of STRUCTS - a few dedicated cases
MODELS = ['fuel', 'pin', 'none']
L_CORE = 0.4


def cases_sweep(tier):
    out = []
    if tier == 'quick':
        for si, sh in enumerate(SHAPES):
            for ti, st in enumerate(STRUCTS):
                for nd in (1, 2, 3):
                    for na in (1, 2):
                        if nd == 3 and (si + ti + na) % 2:
                            continue        # three ducts: half of the combinations in the quick tier
                        # pin model by a fixed covering rule: every (letter, model) pair occurs
                        mdl = MODELS[(si + ti + nd + na) % 3]
                        out.append({'part': 'sweep', 'shape': sh, 'structure': st, 'ducts': nd, 'model': mdl,
                                    'n_asm': na, 'rings': 2, 'gap': 'none' if na == 1 else 'flow'})
    else:
        for rings in (2, 3):
            for gap in ('none', 'flow'):
                for sh in SHAPES:
                    for st in STRUCTS:
                        for nd in (1, 2, 3):
                            for mdl in MODELS:
                                for na in (1, 2):
                                    out.append({'part': 'sweep', 'shape': sh, 'structure': st, 'ducts': nd,
                                                'model': mdl, 'n_asm': na, 'rings': rings, 'gap': gap})
    for nd in (1, 2):
        for mdl in (('fuel',) if tier == 'quick' else MODELS):
            for na in ((1,) if tier == 'quick' else (1, 2)):
                out.append({'part': 'sweep', 'shape': 'top', 'structure': 'thin', 'ducts': nd, 'model': mdl,
                            'n_asm': na, 'rings': 2, 'gap': 'none' if na == 1 else 'flow'})
    # the csv dump of the pin temperatures switched on (reporting only: the peaks and the pin they belong to stay)
    for nd in (1, 2):
        for mdl in ('fuel', 'pin'):
            for sh in (('top', 'middle') if tier == 'quick' else SHAPES):
                for na in ((1,) if tier == 'quick' else (1, 2)):
                    out.append({'part': 'sweep', 'shape': sh, 'structure': 'bundle', 'ducts': nd, 'model': mdl,
                                'n_asm': na, 'rings': 2, 'gap': 'none' if na == 1 else 'flow', 'dump': True})
    out += cases_units(tier)
    return out


# unit variants of the table part: the SAME physical problems written in another unit system
UNIT_SYSTEMS = [('cm', 'celsius'), ('cm', 'fahrenheit'), ('in', 'celsius'), ('in', 'fahrenheit')]
UNIT_BASES = [
    {'shape': 'bottom', 'structure': 'multi', 'ducts': 2, 'model': 'fuel', 'n_asm': 1, 'rings': 2, 'gap': 'none'},
    {'shape': 'middle', 'structure': 'bundle', 'ducts': 2, 'model': 'pin', 'n_asm': 1, 'rings': 2, 'gap': 'none'},
    {'shape': 'several', 'structure': 'multi', 'ducts': 1, 'model': 'pin', 'n_asm': 2, 'rings': 2, 'gap': 'flow'},
]


def cases_units(tier):
    """quick: 3 scenarios (double-duct multi-region FuelModel; double-duct bundle PinModel; two
    multi-region PinModel assemblies with a gap) x 4 unit systems; thorough: every scenario of the
    quick SI list x 4 unit systems"""
    if tier == 'quick':
        bases = [dict(b, part='sweep') for b in UNIT_BASES]
    else:
        bases = cases_sweep('quick')
        bases = [b for b in bases if 'lunit' not in b]
    return [dict(b, lunit=lu, tunit=tu) for b in bases for lu, tu in UNIT_SYSTEMS]


def _power(shape, rings, nduct, q, seed):
    # 'order': every CSV row carries the same number of polynomial coefficients
    base = {'rings': rings, 'nduct': nduct, 'cells': [0.0, 0.1, 0.2, 0.3, 0.4], 'q': q, 'seed': seed, 'order': 3}
    if shape == 'zero':
        base.update(pins='zero', duct='zero', cool='zero')
    else:
        ax, amp = SHAPE_AX[shape]
        base.update(pins='asym' if seed % 2 == 0 else 'tilt', duct='uniform', cool='uniform',
                    axial=list(ax), amp=list(amp))
    return base


def sweep_scenario(c):
    rings, nd = c['rings'], c['ducts']
    regions = None
    if c['structure'] == 'multi':
        regions = {'lower': {'z_lo': 0.0, 'z_hi': 0.1, 'vf_coolant': 0.3},
                   'upper': {'z_lo': 0.3, 'z_hi': L_CORE, 'vf_coolant': 0.35, 'model': '6node'}}
    elif c['structure'] == 'thin':
        regions = {'lower': {'z_lo': 0.0, 'z_hi': 2.0e-5, 'vf_coolant': 0.3},
                   'upper': {'z_lo': round(L_CORE - 3.0e-5, 9), 'z_hi': L_CORE, 'vf_coolant': 0.35}}
    kw = {}
    if c['model'] == 'fuel':
        kw['fuelmodel'] = FUELMODEL
    elif c['model'] == 'pin':
        kw['pinmodel'] = PINMODEL
    dsn = S.design(rings, ducts=nd, oftf=0.05 + 0.012 * (nd - 1),
                   bypass_fraction=0.05 if nd > 1 else None, regions=regions, **kw)
    q0 = 22000.0 / rings
    flow0 = {2: 0.5, 3: 1.4}[rings]
    si = SHAPES.index(c['shape'])
    pos = [(1, 1), (2, 3)][:c['n_asm']]
    assign, pw = [], {}
    for j, (rg, ps) in enumerate(pos):
        assign.append(['A', rg, ps, {'flowrate': round(flow0 * (1.0 - 0.2 * j), 6)}])
        # the second assembly gets the next shape of the list (zero -> bottom)
        pw[str(S.asm_id(rg, ps) + 1)] = _power(SHAPES[(si + j) % 5], rings, nd, q0 * (1.0 - 0.1 * j), j)
    scn = S.single(dsn, flow0, length=L_CORE, power=None)
    scn['assign'] = assign
    scn['power'] = {'asm': pw}
    scn['core']['gap_model'] = c['gap']
    if c['gap'] != 'none':
        scn['core']['bypass_fraction'] = 0.01
    if c['model'] == 'pin':
        scn['materials'] = PINMATS
    if c.get('dump'):
        scn['setup']['Dump'] = {'pins': True, 'coolant': True}
    return scn


def attach_recorder(reactor):
    rec = []
    for a in reactor.assemblies:
        R_ = {'planes': [], 'inlet': None}
        rec.append(R_)

        def wrapped(*args, _o=a.calculate, _a=a, _r=R_, **kw):
            reg = _a.active_region
            if _r['inlet'] is None:
                _r['inlet'] = {'cool': np.array(reg.temp['coolant_int'], dtype=float, copy=True),
                               'duct': np.array(reg.temp['duct_mw'], dtype=float, copy=True),
                               'ridx': _a.active_region_idx}
            out = _o(*args, **kw)
            reg2 = _a.active_region
            pl = {'z': float(_a.z), 'ridx': _a.active_region_idx, 'same_region': reg2 is reg,
                  'cool': np.array(reg2.temp['coolant_int'], dtype=float, copy=True),
                  'duct': np.array(reg2.temp['duct_mw'], dtype=float, copy=True),
                  'pins': None, 'mm': O.mixed_mean(reg2)[0]}
            if hasattr(reg2, 'pin_model'):
                p = np.array(reg2.pin_temps, dtype=float, copy=True)
                p[:, 1] = pl['z']        # the height column is only filled in on access in dassh
                p[:, 2] = np.arange(p.shape[0])     # the pin of a row is its row (documented layout), own numbering
                pl['pins'] = p
            _r['planes'].append(pl)
            return out
        a.calculate = wrapped
    return rec


def _table_meta():
    from dassh import table as T
    out = {}
    for name, tab, title, nhead in (('coolant', T.CoolantTempTable(), 'COOLANT TEMPERATURE SUMMARY', 2),
                                    ('duct', T.DuctTempTable(), 'DUCT TEMPERATURE SUMMARY', 2),
                                    ('clad_mw', T.PeakPinTempTable('clad', 'mw'), 'PEAK CLAD MW TEMPERATURES', 3),
                                    ('fuel_cl', T.PeakPinTempTable('fuel', 'cl'), 'PEAK FUEL CL TEMPERATURES', 3)):
        m = re.search(r'\.(\d+)f', tab._ffmt2)
        out[name] = {'title': title, 'w0': tab.col0_width, 'w': tab.col_width, 'div': tab.divider,
                     'ncol': tab.n_col, 'width': tab.width, 'fmt': tab._ffmt2, 'dp': int(m.group(1)),
                     'nhead': nhead}
    return out


def _slice(ln, meta):
    cells = [ln[:meta['w0']].strip()]
    pos = meta['w0']
    for k in range(meta['ncol']):
        pos += len(meta['div'])
        cells.append(ln[pos:pos + meta['w']].strip())
        pos += meta['w']
    return cells


def parse_table(text, meta):
    """(header, rows) of the section with the given title, or None if the section is absent.
    header = the raw heading lines above the first full-width rule (the last one also sliced into
    cells); rows = data rows as lists of stripped cells"""
    lines = text.split('\n')
    try:
        i = lines.index(meta['title'])
    except ValueError:
        return None
    rule = '-' * meta['width']
    j = i + 1
    while j < len(lines) and lines[j] != rule:
        j += 1
    if j >= len(lines):
        return None
    head = lines[max(i + 1, j - meta['nhead']):j]
    header = {'lines': head, 'cells': _slice(head[-1], meta) if head else []}
    rows = []
    j += 1
    while j < len(lines) and lines[j].strip() != '':
        ln = lines[j]
        if set(ln) == {'-'}:
            j += 1
            continue
        rows.append(_slice(ln, meta))
        j += 1
    return header, rows


def _cell(meta, v):
    """what a table of this class prints for the value v"""
    return meta['fmt'].format(v)[:meta['w']]


def _num_ok(cellstr, mine, meta):
    """independent recomputation (or harness-side unit conversion) vs printed value: half a unit
    of the last printed digit plus round-off of the recomputation (1e-9 relative)"""
    try:
        x = float(cellstr)
    except ValueError:
        return False, None
    tol = 0.5 * 10.0 ** (-meta['dp']) + 1e-9 * abs(mine)
    return abs(x - mine) <= tol, tol


def _sci_ok(cellstr, mine):
    """'{:.5E}' cells (power, flow rate): half a unit of the fifth decimal of the mantissa"""
    try:
        x = float(cellstr)
    except ValueError:
        return False, None
    if not re.match(r'^-?\d\.\d{5}E[+-]\d\d$', cellstr):
        return False, None
    e = 0 if mine == 0 else int(np.floor(np.log10(abs(mine))))
    tol = 0.5 * 10.0 ** (e - 5) * (1 + 1e-6) + 1e-9 * abs(mine)
    return abs(x - mine) <= tol, tol


class Units(object):
    """harness-side conversion SI -> unit system of the input (factors of vf.props.c17) and the
    labels the tables must carry"""
    TLAB = {'kelvin': 'K', 'celsius': u'˚C', 'fahrenheit': u'˚F'}

    def __init__(self, lu, tu):
        self.lu, self.tu = lu, tu
        self.si = (lu, tu) == ('m', 'kelvin')
        self.tlab = '(%s)' % self.TLAB[tu]
        self.llab = '(%s)' % lu

    def T(self, x):
        return U.from_si('T', float(x), self.lu, self.tu, 'kg/s')

    def L(self, x):
        return U.from_si('L', float(x), self.lu, self.tu, 'kg/s')

    def per_L(self, x):
        """a quantity per metre -> per length unit"""
        return float(x) * U.LEN[self.lu]

    def same(self, cellstr, v, meta):
        """printed cell vs converted reference value.  SI inputs: no conversion happens on either
        side, the strings must be identical; other systems: the two conversions may differ in the
        last bit, so half a unit of the last printed digit (+1e-9 relative)"""
        exp = _cell(meta, v)
        if self.si:
            return cellstr == exp, exp
        ok, tol = _num_ok(cellstr, v, meta)
        return bool(ok and re.match(r'^-?\d+\.\d{%d}$' % meta['dp'], cellstr)), exp


def face_means(duct_row):
    """mean duct mid-wall temperature of the cells touching each hex face (the
    face's own cells plus the corner cell shared with the preceding face)"""
    n = len(duct_row)
    per = n // 6
    out = []
    for k in range(6):
        own = [duct_row[k * per + i] for i in range(per)]
        prev_corner = duct_row[(k * per - 1) % n]
        out.append((sum(own) + prev_corner) / (per + 1.0))
    return out


def spec_power(spec):
    """from the harness's own power specification (W/m polynomials in z_mod in [-0.5, 0.5] per
    power cell): total assembly power (W) and pin_linear(p, z) -> candidate linear powers (W/m) of
    pin p at height z (both adjacent cells when z lies on a cell boundary)"""
    full = S.expand_power(spec, spec['rings'], spec.get('nduct', 1))
    cells = full['cells']
    tot = 0.0
    for key in ('pins', 'duct', 'cool'):
        if full.get(key) is None:
            continue
        for k in range(len(cells) - 1):
            for co in full[key][k]:
                tot += (cells[k + 1] - cells[k]) * sum(cc / ((j + 1) * 2.0 ** j)
                                                       for j, cc in enumerate(co) if j % 2 == 0)

    def pin_linear(p, z):
        out = []
        for k in range(len(cells) - 1):
            if cells[k] - 1e-9 <= z <= cells[k + 1] + 1e-9:
                x = (z - cells[k]) / (cells[k + 1] - cells[k]) - 0.5
                out.append(sum(cc * x ** j for j, cc in enumerate(full['pins'][k][p])))
        return out
    return tot, pin_linear


def run_sweep(c):
    r = new_result()
    V = r['violations']
    ex = {'where': {}, 'sweep_checks': {}}

    def cnt(group, key, v=1):
        ex[group][key] = ex[group].get(key, 0) + v

    scn_si = sweep_scenario(c)
    lu, tu = c.get('lunit', 'm'), c.get('tunit', 'kelvin')
    # the input is written in the case's unit system by the harness's own converter; everything
    # recorded during the sweep is SI (dassh works in SI internally)
    scn = scn_si if (lu, tu) == ('m', 'kelvin') else U.convert_scenario(scn_si, lu, tu, 'kg/s')
    with S.Built(scn) as b:
        cap = S.capture_log()
        try:
            with cap:
                rx = b.reactor(write_output=True)
        except SystemExit as e:
            V.append(violation('setup-rejected', c, 'valid generated input rejected at set-up: %s'
                               % '; '.join(cap.errors)[:200], site=site_of(e)))
            r['outcome'] = 'rejected'
            return r
        rec = attach_recorder(rx)
        rx.temperature_sweep()
        nplanes = len(rx.z) - 1
        fold_matters = False
        refs = []
        for ai, a in enumerate(rx.assemblies):
            R_ = rec[ai]
            ca = dict(c, asm=ai)
            dmap, N = duct_map(a)
            planes = R_['planes']
            r['states'] += len(planes) + 1
            r['transitions'] += len(planes)
            if len(planes) != nplanes:
                V.append(violation('plane-count', ca, 'calculate was not called once per plane', len(planes), nplanes))
                continue
            # heights: the k-th computed plane is Reactor.z[k] (round-off of the running sum: 1e-9 m)
            dzmax = max(abs(pl['z'] - float(rx.z[k + 1])) for k, pl in enumerate(planes))
            if dzmax > 1e-9:
                V.append(violation('plane-height-drift', ca, 'assembly height differs from the plane height',
                                   dzmax, 0.0, 1e-9, site='assembly.py:calculate'))
            if not all(pl['same_region'] for pl in planes):
                V.append(violation('harness-region', ca, 'active region changed inside Assembly.calculate'))
            ref = Fold(N, any(hasattr(x, 'pin_model') for x in a.region))
            if (ref.pin is not None) != (c['model'] != 'none'):
                V.append(violation('harness-setup', ca, 'pin model presence not as planned'))
            for pl in planes:
                ref.plane(pl['z'], [float(x) for x in pl['cool']], [[float(x) for x in row] for row in pl['duct']],
                          dmap[pl['ridx']], None if pl['pins'] is None else [[float(x) for x in row] for row in pl['pins']])
                if not (np.all(np.isfinite(pl['cool'])) and np.all(np.isfinite(pl['duct']))):
                    V.append(violation('non-finite', ca, 'non-finite temperature at z=%.4f' % pl['z']))
                    break
            refs.append((ref, dmap, N))
            ncmp = compare_peak(a, ref, N, V, ca)
            cnt('sweep_checks', 'peak_quantities_compared', ncmp)
            # where do the maxima sit; do ties occur
            zs = [pl['z'] for pl in planes]

            def where(q, val, z, series):
                k = zs.index(z)
                hist = [i for i, m in enumerate(series) if m is not None]
                lab = 'first' if k == hist[0] else ('last' if k == hist[-1] else 'interior')
                cnt('where', q + ':' + lab)
                if sum(1 for m in series if m is not None and m == val) > 1:
                    cnt('where', q + ':tie')
                return lab != 'last'
            ser = [float(np.max(pl['cool'])) for pl in planes]
            fold_matters |= where('cool', ref.cool[0], ref.cool[1], ser)
            for g in range(N):
                if ref.duct[g] is None:
                    continue
                ser = []
                for pl in planes:
                    rm = dmap[pl['ridx']]
                    ser.append(float(np.max(pl['duct'][rm.index(g)])) if g in rm else None)
                fold_matters |= where('duct%d/%d' % (g + 1, N), ref.duct[g][0], ref.duct[g][1], ser)
            if ref.pin is not None:
                for k in ('clad_mw', 'fuel_cl'):
                    ser = [None if pl['pins'] is None else float(np.max(pl['pins'][:, PINCOL[k]])) for pl in planes]
                    fold_matters |= where(k, ref.pin[k][0], ref.pin[k][1], ser)
                if len({ref.pin[k][1] for k in PINKEYS}) > 1:
                    cnt('sweep_checks', 'pin_locations_peak_on_different_planes')
                if len({int(np.argmax(ref.pin[k][2], axis=0)[PINCOL[k]]) for k in PINKEYS}) > 1:
                    cnt('sweep_checks', 'pin_locations_peak_in_different_pins')
            # inlet plane (z = 0, boundary condition, never passed to the update methods)
            inl = R_['inlet']
            im = float(np.max(inl['cool']))
            if im > ref.cool[0]:
                V.append(violation('peak-below-inlet-plane', dict(ca, quantity='cool'),
                                   'coolant on the inlet plane is hotter than the reported peak', ref.cool[0], im, 0.0,
                                   site=SITE['cool']))
            elif im == ref.cool[0]:
                cnt('sweep_checks', 'inlet_plane_ties_with_peak:cool')
            for row, g in zip(inl['duct'], dmap[inl['ridx']]):
                im = float(np.max(row))
                if im > ref.duct[g][0]:
                    V.append(violation('peak-below-inlet-plane', dict(ca, quantity='duct-%d' % g),
                                       'duct wall on the inlet plane is hotter than the reported peak',
                                       ref.duct[g][0], im, 0.0, site=SITE['duct']))
                elif im == ref.duct[g][0]:
                    cnt('sweep_checks', 'inlet_plane_ties_with_peak:duct')
            nreg = len({pl['ridx'] for pl in planes})
            cnt('sweep_checks', 'region_changes', nreg - 1)
            if len({len(dmap[pl['ridx']]) for pl in planes}) > 1:
                cnt('sweep_checks', 'asm_with_duct_count_change')
            if len({pl['cool'].shape[0] for pl in planes}) > 1:
                cnt('sweep_checks', 'asm_with_mesh_change')
        # ---- summary tables
        if len(refs) == len(rx.assemblies):
            cap2 = S.capture_log()
            with cap2:
                rx.postprocess()
            path = os.path.join(b.dir, 'dassh.out')
            with open(path) as fh:
                text = fh.read()
            check_tables(c, scn_si, rx, rec, refs, text, V, cnt)
        r['traces'] = 1
        r['nontrivial'] = bool(fold_matters)
        r['outcome'] = 'violation' if V else ('ok' if fold_matters else 'ok-all-peaks-on-last-plane')
        ex['sweep_steps'] = r['transitions']
        r['extra'] = ex
        a0 = rx.assemblies[0]
        r['info'] = {'planes': nplanes, 'peak_cool': [f(x) for x in a0._peak['cool']],
                     'peak_duct': [[f(x) for x in d] for d in a0._peak['duct']],
                     'peak_fuel_cl': None if 'pin' not in a0._peak else
                     [f(a0._peak['pin']['fuel_cl'][0]), f(a0._peak['pin']['fuel_cl'][2][1]),
                      int(a0._peak['pin']['fuel_cl'][2][2])]}
    return r


def check_tables(c, scn_si, rx, rec, refs, text, V, cnt):
    """every printed cell of the coolant, duct and peak pin tables (values, heights, labels, unit
    labels of the headings) against the recorded maxima / final-plane fields, converted by the
    harness to the unit system of the input"""
    meta = _table_meta()
    un = Units(c.get('lunit', 'm'), c.get('tunit', 'kelvin'))
    tabs = {}
    for name in meta:
        tabs[name] = parse_table(text, meta[name])
    nasm = len(rx.assemblies)
    prec = lambda M_: 'print precision %d dp' % M_['dp']
    # which scenario entries belong to assembly ai (position, flow rate, power specification)
    asg = []
    for a in rx.assemblies:
        hit = [e for e in scn_si['assign'] if S.asm_id(e[1], e[2]) == a.id]
        spec = scn_si['power']['asm'].get(str(a.id + 1))
        asg.append({'name': hit[0][0], 'loc': '(%2d,%2d)' % (hit[0][1], hit[0][2]), 'flow': hit[0][3]['flowrate'],
                    'power': spec_power(spec)})

    def head(name, want_cells, want_in_lines, site):
        t = tabs[name]
        if t is None:
            return
        hd = t[0]
        bad = [(i, g, w) for i, (g, w) in enumerate(zip(hd['cells'], want_cells)) if g != w]
        if len(hd['cells']) != len(want_cells):
            bad.append(('n', len(hd['cells']), len(want_cells)))
        txt = '\n'.join(hd['lines'])
        for w in want_in_lines:
            if w not in txt:
                bad.append(('heading', None, w))
        if bad:
            V.append(violation('table-header-units', dict(c, table=name),
                               'column headings / unit labels of the %s table are not those of the input\'s unit '
                               'system (%s, %s)' % (name, un.lu, un.tu), [b_[1] for b_ in bad], [b_[2] for b_ in bad],
                               site=site))
        cnt('sweep_checks', 'table_header_cells_compared', len(want_cells) + len(want_in_lines))

    # ---- coolant
    M = meta['coolant']
    site = 'table.py:CoolantTempTable.make'
    head('coolant', ['Asm', 'Name', '(W)', '(kg/s)', un.tlab, un.tlab, un.tlab, un.tlab, un.llab], [], site)
    rows = None if tabs['coolant'] is None else tabs['coolant'][1]
    if rows is None or len(rows) != nasm:
        V.append(violation('table-missing', dict(c, table='coolant'), 'coolant temperature table absent or short',
                           None if rows is None else len(rows), nasm, site=site))
    else:
        for ai in range(nasm):
            ca = dict(c, asm=ai, table='coolant')
            ref = refs[ai][0]
            last = rec[ai]['planes'][-1]
            row = rows[ai]
            if [row[0], row[1]] != [str(ai + 1), asg[ai]['name']]:
                V.append(violation('table-row-order', ca, 'row label', row[:2], [str(ai + 1), asg[ai]['name']]))
                continue
            ok, tol = _sci_ok(row[2], asg[ai]['power'][0])
            if not ok:
                V.append(violation('table-coolant-power', ca, 'assembly power is not the integral of the specified '
                                   'power profile', row[2], asg[ai]['power'][0], tol, site=site))
            ok, tol = _sci_ok(row[3], asg[ai]['flow'])
            if not ok:
                V.append(violation('table-coolant-flow', ca, 'flow rate is not the assigned one', row[3],
                                   asg[ai]['flow'], tol, site=site))
            # Bulk outlet: mixed mean of the final plane, recomputed from areas and flow split
            ok, tol = _num_ok(row[4], un.T(last['mm']), M)
            if not ok:
                V.append(violation('table-coolant-bulk-outlet', ca, 'bulk outlet temperature is not the mixed mean of '
                                   'the final-plane coolant field', row[4], un.T(last['mm']), tol, site=site))
            ok, exp = un.same(row[5], un.T(np.max(last['cool'])), M)
            if not ok:
                V.append(violation('table-coolant-peak-outlet', ca, 'peak outlet temperature is not the maximum of the '
                                   'final-plane coolant field', row[5], exp, prec(M), site=site))
            ok, exp = un.same(row[6], un.T(ref.cool[0]), M)
            if not ok:
                V.append(violation('table-coolant-peak', ca, 'peak total coolant temperature is not the recorded maximum',
                                   row[6], exp, prec(M), site=site))
            if row[7] != '-----':
                V.append(violation('table-coolant-unc', ca, 'peak + uncertainty printed without hot-spot analysis',
                                   row[7], '-----', site=site))
            ok, exp = un.same(row[8], un.L(ref.cool[1]), M)
            if not ok:
                V.append(violation('table-coolant-height', ca, 'peak height is not the first plane attaining the maximum',
                                   row[8], exp, prec(M), site=site))
            cnt('sweep_checks', 'table_cells_compared', 9)
    # ---- ducts.  What the statement needs: the peak (and height) of EVERY physical duct wall of the
    # assembly is reported under that wall's number (1 = innermost), and the face temperatures printed
    # in a row are the final-plane means of that same wall (placeholders if the wall is absent there).
    M = meta['duct']
    site = 'table.py:DuctTempTable.make'
    head('duct', ['Asm.', 'Loc.', 'Duct ID'] + ['Face %d' % i for i in range(1, 7)] + [un.tlab, un.llab],
         ['Average duct MW temperature %s' % un.tlab], site)
    rows = None if tabs['duct'] is None else tabs['duct'][1]
    if rows is None:
        V.append(violation('table-missing', dict(c, table='duct'), 'duct temperature table absent', site=site))
        rows = []
        nasm_d = 0
    else:
        nasm_d = nasm
    if nasm_d and sorted({rw[0] for rw in rows}) != sorted(str(ai + 1) for ai in range(nasm)):
        V.append(violation('table-row-order', dict(c, table='duct'), 'assembly labels of the duct table',
                           sorted({rw[0] for rw in rows}), [str(ai + 1) for ai in range(nasm)]))
    for ai in range(nasm_d):
        ref, dmap, N = refs[ai]
        last = rec[ai]['planes'][-1]
        rmap = dmap[last['ridx']]
        mine = [rw for rw in rows if rw[0] == str(ai + 1)]
        ca = dict(c, asm=ai, table='duct', walls_final_region=len(rmap), walls_asm=N)
        exp_peaks = [[str(g + 1), _cell(M, un.T(ref.duct[g][0])), _cell(M, un.L(ref.duct[g][1]))] for g in range(N)]
        got_peaks = [[rw[2], rw[9], rw[10]] for rw in mine]
        if len(mine) != N:
            if len(rmap) < N and len(mine) == len(rmap):
                V.append(violation('table-duct-slot', ca,
                                   'assembly with %d duct walls whose outlet region has %d: the table prints %d row(s); '
                                   'the row carrying the outlet face temperatures of wall %d shows the peak of wall 1, '
                                   'and the peak of wall %d is not reported' % (N, len(rmap), len(mine), rmap[0] + 1, N),
                                   got_peaks, exp_peaks, prec(M), site=site))
            else:
                V.append(violation('table-missing', ca, 'duct temperature table has %d rows for an assembly with %d '
                                   'walls' % (len(mine), N), got_peaks, exp_peaks, site=site))
            continue
        for g in range(N):
            row = mine[g]
            cg = dict(ca, physical_duct=g)
            if [row[1], row[2]] != [asg[ai]['loc'], str(g + 1)]:
                V.append(violation('table-row-order', cg, 'position / duct label', row[1:3], [asg[ai]['loc'], str(g + 1)]))
                continue
            if g in rmap:
                fm = face_means([float(x) for x in last['duct'][rmap.index(g)]])
                for fi in range(6):
                    ok, tol = _num_ok(row[3 + fi], un.T(fm[fi]), M)
                    if not ok:
                        V.append(violation('table-duct-face', cg, 'face %d average is not the mean of the final-plane '
                                           'mid-wall temperatures of that face' % (fi + 1), row[3 + fi], un.T(fm[fi]), tol,
                                           site='table.py:DuctTempTable._get_avg_duct_face_temp'))
                        break
            else:
                num = [x for x in row[3:9] if re.match(r'^-?\d+(\.\d*)?$', x)]
                if num:
                    V.append(violation('table-duct-face', cg, 'face temperatures printed for a wall that is absent at '
                                       'the outlet', row[3:9], 'placeholders', site=site))
            ok1, e1 = un.same(row[9], un.T(ref.duct[g][0]), M)
            if not ok1:
                V.append(violation('table-duct-peak', cg, 'peak temperature of duct %d is not the recorded maximum'
                                   % (g + 1), row[9], e1, prec(M), site=site))
            ok2, e2 = un.same(row[10], un.L(ref.duct[g][1]), M)
            if not ok2:
                V.append(violation('table-duct-height', cg, 'peak height of duct %d is not the first plane attaining '
                                   'the maximum, in the length unit of the heading %s' % (g + 1, un.llab),
                                   row[10], e2, prec(M), site=site))
            cnt('sweep_checks', 'table_cells_compared', 10)
    # ---- peak pin tables
    with_pins = [ai for ai in range(nasm) if refs[ai][0].pin is not None]
    site = 'table.py:PeakPinTempTable.make'
    for name in ('clad_mw', 'fuel_cl'):
        M = meta[name]
        rows = None if tabs[name] is None else tabs[name][1]
        if not with_pins:
            if rows:
                V.append(violation('table-pin-unexpected', dict(c, table=name), 'pin table without pin model', rows, None))
            continue
        hcells = ['ID', 'Name', 'Pin', un.llab, '(W/%s)' % un.lu, '|  Cool', 'OD', 'MW', 'ID', 'OD', 'CL',
                  '|  Cool', 'OD', 'MW', 'ID', 'OD', 'CL'][:M['ncol'] + 1]
        head(name, hcells, ['Nominal Peak Temps %s' % un.tlab, 'N-Sigma Peak Temps %s' % un.tlab], site)
        if rows is None or len(rows) != len(with_pins):
            V.append(violation('table-missing', dict(c, table=name), 'peak pin temperature table absent or short',
                               None if rows is None else len(rows), len(with_pins), site=site))
            continue
        for row, ai in zip(rows, with_pins):
            ca = dict(c, asm=ai, table=name)
            m, z, plane = refs[ai][0].pin[name]
            col = PINCOL[name]
            cands = [p for p in range(len(plane)) if plane[p][col] == m]
            if [row[0], row[1]] != [str(ai + 1), asg[ai]['name']]:
                V.append(violation('table-row-order', ca, 'row label', row[:2], [str(ai + 1), asg[ai]['name']]))
                continue
            got = [row[2], row[3]] + row[5:11]
            exps, hit = [], None
            for p in cands:
                want = [un.L(z)] + [un.T(x) for x in plane[p][3:]]
                exps.append([str(p)] + [_cell(M, x) for x in want])
                if row[2] == str(p) and all(un.same(g_, w_, M)[0] for g_, w_ in zip(got[1:], want)):
                    hit = p
            if hit is None:
                V.append(violation('table-pin-row', ca, 'pin / height / radial profile printed with the peak %s '
                                   'temperature is not the recorded row of the pin and plane of the maximum, in the '
                                   'units of the headings' % name, got, exps[0], prec(M), site=site))
            else:
                # linear power of that pin at that height, per length unit of the input
                want = [un.per_L(q) for q in asg[ai]['power'][1](hit, z)]
                oks = [_num_ok(row[4], w_, M) for w_ in want]
                if not any(o[0] for o in oks):
                    V.append(violation('table-pin-power', ca, 'linear power printed with the peak %s temperature is not '
                                       'the specified power of pin %d at the peak height' % (name, hit), row[4],
                                       [_cell(M, w_) for w_ in want], prec(M), site='table.py:PeakPinTempTable._get_nominal_temps'))
            rest = row[11:]
            if any(x != '-----' for x in rest):
                V.append(violation('table-pin-unc', ca, 'N-sigma temperatures printed without hot-spot analysis',
                                   rest, ['-----'] * len(rest), site=site))
            cnt('sweep_checks', 'table_cells_compared', 11 + len(rest))


# ======================================================================
def run_case(c):
    if c.get('part') == 'fold':
        return run_fold(c)
    return run_sweep(c)


def main(run):
    depth = 3 if run.tier == 'quick' else 4
    run.rule = ('fold: every sequence of <= %d events over {coolant, duct-0, duct-1, clad, fuel} x {first, last} x '
                '{lo, mid, hi, hi again} + region switch, for both axial orders of a two-duct pin bundle and a '
                'one-duct reflector; breadth-first with merging on (region, z, _peak, reference fold); every '
                'transition is a real call of the three _update_peak_* methods (or of update_region) checked '
                'against the fold of its own history.  sweep: %s of power shape x axial structure x ducts x pin '
                'model x 1-2 assemblies%s; every axial plane is a recorded state; non-trivial = at least one '
                'tracked maximum lies below the last plane of its history (reporting final values would be wrong); '
                'plus unit variants of the table oracle: %s x {cm, in} x {celsius, fahrenheit}'
                % (depth, 'a covering third (each letter pair with each pin model)' if run.tier == 'quick'
                   else 'the full product', '' if run.tier == 'quick' else ' x rings {2,3} x gap model {none, flow}',
                   '3 scenarios' if run.tier == 'quick' else 'every scenario of the quick SI list'))
    run.assumptions = [
        '_update_peak_* read only the active region arrays, Assembly.z and _peak (merging; cross-checked against the '
        'unmerged enumeration to depth 2)',
        'a one-duct (unrodded) region models the outermost wall: its flat-to-flat pair equals the outer duct of '
        'the bundle, so its mid-wall temperatures belong to the last physical duct',
        'heights: first plane attaining the maximum among the planes passed to the update methods; the inlet plane '
        '(z = 0) is a boundary condition and is only required not to exceed the reported peak',
        'PinModel/FuelModel column layout of pin_temps as documented in region_rodded.make',
        'table values are compared at the precision of the table classes\' own format strings; independent '
        'recomputations (mixed mean, face means) and harness-side unit conversions get half a unit of the last digit '
        '+ 1e-9 relative',
        'unit factors and the scenario converter of vf.props.c17 (cm = 0.01 m, in = 0.0254 m, C = K - 273.15, '
        'F = 9/5 K - 459.67); the user power CSV is always in metres and W/m']
    fold_cases = [{'part': 'fold', 'order': o, 'depth': depth} for o in ORDERS]
    cs = cases_sweep(run.tier)
    run.check_determinism(run_case, cs[0])
    # the two searches (one per axial order) run one after the other in this process
    res_f = run.explore('fold', fold_cases, run_case, budget_s=1500, workers=1)
    res_s = run.explore('sweep', cs, run_case, budget_s=300)
    # the csv dump of this property's field: every row is the recorded field of that assembly at that plane
    from . import reports as _rep
    run.explore('report-dumps', _rep.cases_dumps(run.tier), _rep.run_dumps_C15, budget_s=300)
    ex = run.extra
    wh = ex.get('where', {})
    sc = ex.get('sweep_checks', {})

    def vac(part, what):
        run.violations.append(dict(violation('vacuous-alphabet', {}, what), part=part))

    for q in ('cool', 'clad_mw', 'fuel_cl'):
        for lab in ('first', 'interior', 'last'):
            if q == 'cool' and lab == 'first':
                continue
            if not wh.get('%s:%s' % (q, lab)):
                vac('sweep', 'no sweep with the %s maximum on the %s plane of its history' % (q, lab))
    if not any(k.endswith(':tie') for k in wh):
        vac('sweep', 'no sweep with several equal maxima')
    if not any(k.startswith('duct') and (k.endswith(':interior') or k.endswith(':first')) for k in wh):
        vac('sweep', 'no duct maximum below the last plane')
    for k in ('region_changes', 'asm_with_duct_count_change', 'asm_with_mesh_change',
              'pin_locations_peak_on_different_planes'):
        if not sc.get(k):
            vac('sweep', 'never observed: ' + k)
    for r_ in res_f:
        if r_.get('info') and r_['info'].get('states', 0) < 50:
            vac('fold', 'search collapsed to fewer than 50 states')


def replay(body):
    if str((body.get('scenario') or {}).get('probe', '')).startswith('report-'):
        from . import reports
        return reports.replay(body)
    r = guarded(run_case, body['scenario'], 900)
    for v in r['violations']:
        print('VIOLATION property=C15 replay=(inline) kind=%s site=%s %s observed=%s expected=%s'
              % (v['kind'], v.get('site'), v['what'], str(v.get('observed'))[:300], str(v.get('expected'))[:300]))
    print('outcome', r['outcome'], r.get('info'))
    return 1 if r['violations'] else 0
