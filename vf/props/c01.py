"""C01  Every assembly coolant energy balance closes at every axial step.

Every axial step of every sweep in the enumerated alphabet is a checked state;
the balance is recomputed independently by vf.observe.Recorder.
Parts:
  sweep     constant-property identities per step (+ solver tallies as second
            comparison, region-change carry-over, mass-flow closure)
  exchange  conduction / mixing / swirl exchange sums to zero (real
            _calc_coolant_int_temp / _calc_coolant_byp_temp on fixed
            non-uniform fields, zero power, walls slaved to the coolant)
  lag       tabulated sodium: summed |residual| halves with the step
"""
import numpy as np

from ..run import new_result, violation, site_of
from .. import scenario as S
from .. import observe as O

TOL = 1e-9          # constant-property identity, relative to largest term
FAMS_WIRE = [('CTD', 'CTD', 'CTD'), ('UCTD', 'UCTD', 'UCTD'), ('NOV', 'NOV', 'MIT'),
             ('ENG', 'MIT', 'MIT'), ('REH', 'NOV', 'KC-BARE'), ('CTD', 'NOV', 'MIT')]
FAMS_BARE = [('CTD', 'CTD', 'CTD'), ('UCTD', 'UCTD', 'UCTD')]
RE = {'vlow': 40.0, 'lam': 300.0, 'trans': 3000.0, 'turb': 50000.0}
POWERS = ['zero', 'pins', 'duct', 'cool', 'all', 'asym', 'plenum']
DESIGNS = {
    'd2': dict(rings=2, pd=1.20, clearance='tight', wire=True),
    'd3': dict(rings=3, pd=1.08, clearance='mid', wire=True),
    'd4': dict(rings=4, pd=1.35, clearance='loose', wire=True),
    'b3': dict(rings=3, pd=1.20, clearance='mid', wire=False),
    'd5': dict(rings=5, pd=1.20, clearance='mid', wire=True),
}
# unequal wall and bypass thicknesses on purpose (inside out): index slips between
# neighbouring walls / gaps must be visible
DUCTS = {'1': dict(ducts=1), '2f': dict(ducts=2, bypass_fraction=0.08, duct_t=[0.002, 0.003]),
         '2s': dict(ducts=2, bypass_fraction=0.0, duct_t=[0.002, 0.003]),
         # a trickle through the bypass (1 % of the assembly flow: small, not stagnant)
         '2t': dict(ducts=2, bypass_fraction=0.01, duct_t=[0.002, 0.003]),
         '3': dict(ducts=3, bypass_fraction=0.1, duct_t=[0.0015, 0.0025, 0.003], byp_t=[0.0025, 0.0035]),
         '3s': dict(ducts=3, bypass_fraction=0.0, duct_t=[0.0015, 0.0025, 0.003], byp_t=[0.0025, 0.0035]),
         # outer bypass gap narrower than the inner one (the per-gap mass fluxes are then ordered the other way)
         '3r': dict(ducts=3, bypass_fraction=0.2, duct_t=[0.0015, 0.0025, 0.003], byp_t=[0.0035, 0.002])}


def power_spec(kind, rings, nduct, L, seed):
    base = {'rings': rings, 'nduct': nduct, 'cells': [0.0, round(L / 2, 9), L],
            'q': 8000.0, 'axial': ['up', 'mid'], 'seed': seed}
    if kind == 'zero':
        base.update(pins='zero', duct='zero', cool='zero')
    elif kind == 'pins':
        base.update(pins='tilt')
    elif kind == 'duct':
        base.update(duct='asym', fr={'duct': 0.5})
    elif kind == 'cool':
        base.update(cool='asym', fr={'cool': 0.5})
    elif kind == 'all':
        base.update(pins='uniform', duct='uniform', cool='uniform')
    elif kind == 'asym':
        base.update(pins='asym', duct='asym', cool='asym')
    elif kind == 'plenum':
        # upper half of the bundle: no heat generated in the pins (gas plenum), the coolant and the duct still heated
        base.update(pins='asym', duct='asym', cool='asym', amp_pins=[1.0, 0.0], fr={'cool': 0.3})
    return base


def build_scn(c, seed=0, coolant=None, dz_user=None):
    dd = dict(DESIGNS[c['design']])
    dk = dict(DUCTS[c['ducts']])
    nd = dk['ducts']
    oftf = 0.05 + 0.012 * (nd - 1)
    L = c.get('L', 0.24)
    regions = None
    lowfi = None
    st = c.get('structure', 'bundle')
    if st == 'multi':
        regions = {'lower': {'z_lo': 0.0, 'z_hi': round(L / 4, 9), 'vf_coolant': 0.3,
                             'convection_factor': c.get('cf', 1.0)},
                   'upper': {'z_lo': round(3 * L / 4, 9), 'z_hi': L, 'vf_coolant': 0.35,
                             'model': '6node', 'convection_factor': c.get('cf', 1.0)}}
    elif st == 'multi-fine':
        # region boundaries with seven significant decimals in metres (what any conversion from inches gives)
        regions = {'lower': {'z_lo': 0.0, 'z_hi': round(L / 4 + 4.0e-7, 9), 'vf_coolant': 0.3},
                   'upper': {'z_lo': round(3 * L / 4 - 4.0e-7, 9), 'z_hi': L, 'vf_coolant': 0.35}}
    elif st == 'multi-thin':
        # un-rodded regions thinner than any step at both ends: each of them is exactly one axial step
        regions = {'lower': {'z_lo': 0.0, 'z_hi': 2.0e-5, 'vf_coolant': 0.3},
                   'upper': {'z_lo': round(L - 3.0e-5, 9), 'z_hi': L, 'vf_coolant': 0.35}}
    elif st in ('lf-simple', 'lf-6node'):
        lowfi = {'model': 'simple' if st == 'lf-simple' else '6node',
                 'convection_factor': c.get('cf', 1.0)}
    dsn = S.design(dd['rings'], pd=dd['pd'], clearance=dd['clearance'], wire=dd['wire'],
                   ducts=nd, oftf=oftf, corr=tuple(c['fam']),
                   duct_t=dk.get('duct_t', 0.0025), byp_t=dk.get('byp_t', 0.003),
                   bypass_fraction=dk.get('bypass_fraction'), regions=regions, lowfi=lowfi)
    if c.get('sf') == 'CT':
        dsn['corr_shapefactor'] = 'CT'        # conduction shape factor from the Cheng-Todreas correlation
    elif c.get('sf'):
        dsn['shape_factor'] = float(c['sf'])  # user-given conduction shape factor
    # flow rate from the target Reynolds number (own evaluation of A, De)
    flow = c.get('flow')
    if flow is None:
        flow = flow_for_re(dsn, RE[c['re']])
    setup = {'calc_energy_balance': True}
    if c.get('conv_approx'):
        setup['conv_approx'] = True
        setup['conv_approx_dz_cutoff'] = 1.0
    if c.get('tol'):
        setup['param_update_tol'] = c['tol']
    if dz_user is not None:
        setup['axial_mesh_size'] = dz_user
    if c.get('planes') == 'near' and regions:
        # requested planes a few tens of micrometres past the region boundaries: two mandatory planes
        # inside one nominal step
        setup['axial_plane'] = [round(L / 4 + 2e-5, 9), round(3 * L / 4 + 3e-5, 9)]
    pw = power_spec(c['power'], dd['rings'], nd, L, seed)
    # scale the power to the flow: about 120 K (lag part: 250 K) mixed-mean rise
    npin = S.n_pins(dd['rings'])
    pw['q'] = flow * 1272.0 * c.get('dT', 120.0) / (npin * L)
    wall = c.get('wall', 'none')
    scn = S.single(dsn, flow, length=L, power=pw, gap_model=wall,
                   coolant=coolant or c.get('coolant'),
                   setup=setup, bypass_fraction=0.0 if wall == 'none' else c.get(
                       'gapfrac', {'vlow': 0.5, 'lam': 0.2}.get(c.get('re'), 0.03)))
    return scn


_FLOW_CACHE = {}


def flow_for_re(dsn, re):
    import dassh
    key = (dsn['num_rings'], dsn['pin_pitch'], dsn['pin_diameter'], dsn['wire_diameter'],
           tuple(dsn['duct_ftf']), dsn.get('bypass_gap_flow_fraction'))
    if key not in _FLOW_CACHE:
        from dassh.region_rodded import calculate_geometry
        n = dsn['num_rings']
        ftf = sorted(dsn['duct_ftf'])
        dftf = [ftf[i:i + 2] for i in range(0, len(ftf), 2)]
        nsc = np.array([6 * (n - 1) ** 2, 6 * (n - 1), 6])
        g = calculate_geometry(n, dsn['pin_pitch'], dsn['pin_diameter'], dsn['wire_pitch'],
                               dsn['wire_diameter'], dftf, nsc, False)
        _FLOW_CACHE[key] = (g['bundle_params']['area'], g['bundle_params']['de'])
    A, de = _FLOW_CACHE[key]
    mu = dassh.Material('sodium_se2anl_425').viscosity
    m_int = re * mu * A / de
    bf = dsn.get('bypass_gap_flow_fraction')
    if bf is None:
        bf = 0.05 if len(dsn['duct_ftf']) > 2 else 0.0
    return float(m_int / (1.0 - bf)) if len(dsn['duct_ftf']) > 2 else float(m_int)


# ----------------------------------------------------------------------
def cases_sweep(tier):
    out = []
    if tier == 'quick':
        designs = ['d2', 'd3', 'b3']
        ducts = ['1', '2f', '2s']
        res = ['lam', 'trans', 'turb']
        for d in designs:
            fams = FAMS_BARE[:1] if d == 'b3' else [FAMS_WIRE[0], FAMS_WIRE[2], FAMS_WIRE[4]]
            for du in ducts:
                for fam in fams:
                    for re in res:
                        for pw in ('zero', 'all', 'asym'):
                            for wall in ('none', 'flow'):
                                out.append(dict(design=d, ducts=du, fam=list(fam), re=re,
                                                power=pw, wall=wall, structure='bundle'))
        # every remaining alphabet letter at least once (single-letter deviations
        # from the default scenario)
        base = dict(design='d3', ducts='1', fam=list(FAMS_WIRE[0]), re='trans', power='asym',
                    wall='flow', structure='bundle')
        for k, vals in (('power', ['pins', 'duct', 'cool', 'plenum']), ('wall', ['no_flow', 'duct_average']),
                        ('fam', [list(f) for f in FAMS_WIRE]), ('ducts', ['3', '3s', '3r']),
                        ('design', ['d4', 'd5']), ('sf', ['CT', 1.3]),
                        ('structure', ['multi', 'lf-simple', 'lf-6node'])):
            for v in vals:
                c = dict(base)
                c[k] = v
                out.append(c)
        for du in ('1', '2f', '2s', '3', '2t'):
            for st in ('multi',):
                for wall in ('none', 'flow'):
                    out.append(dict(base, ducts=du, structure=st, wall=wall))
        for re in ('lam', 'turb'):
            out.append(dict(base, ducts='2t', re=re, wall='none'))
        for du in ('1', '2f'):
            for cf in (1.0, 0.5):
                out.append(dict(base, ducts=du, structure='multi', wall='none', planes='near', cf=cf))
            for wall in ('none', 'flow'):
                out.append(dict(base, ducts=du, structure='multi-thin', wall=wall))
                out.append(dict(base, ducts=du, structure='multi-fine', wall=wall))
        for st in ('multi', 'lf-simple', 'lf-6node'):
            for cf in (1.0, 0.5):
                for wall in ('none', 'flow'):
                    out.append(dict(base, structure=st, cf=cf, wall=wall, re='lam'))
        # very low flow, low-flow convection approximation off / on
        for du in ('1', '2f'):
            for ca in (False, True):
                for pw in ('zero', 'asym', 'duct'):
                    out.append(dict(base, ducts=du, re='vlow', conv_approx=ca, power=pw,
                                    L=0.06, wall='flow'))
    else:
        for d in ('d2', 'd3', 'd4', 'b3', 'd5'):
            fams = FAMS_BARE if d == 'b3' else FAMS_WIRE
            for du in ('1', '2f', '2s', '3', '3s'):
                for fam in fams:
                    for re in ('lam', 'trans', 'turb'):
                        for pw in POWERS:
                            for wall in ('none', 'flow', 'no_flow'):
                                if d == 'd5' and (pw not in ('asym', 'zero') or fam != fams[0]):
                                    continue
                                out.append(dict(design=d, ducts=du, fam=list(fam), re=re,
                                                power=pw, wall=wall, structure='bundle'))
        for d in ('d2', 'd3'):
            for du in ('1', '2f', '2s', '3', '2t'):
                for st in ('multi', 'lf-simple', 'lf-6node'):
                    for cf in (1.0, 0.5, 0.1):
                        for wall in ('none', 'flow', 'duct_average'):
                            for re in ('lam', 'turb'):
                                for pw in ('zero', 'asym'):
                                    if st != 'multi' and du != '1':
                                        continue
                                    out.append(dict(design=d, ducts=du, fam=list(FAMS_WIRE[0]),
                                                    re=re, power=pw, wall=wall, structure=st, cf=cf))
        for d in ('d2', 'd3'):
            for du in ('1', '2f', '3'):
                for cf in (1.0, 0.5):
                    for wall in ('none', 'flow'):
                        for re in ('lam', 'trans', 'turb'):
                            out.append(dict(design=d, ducts=du, fam=list(FAMS_WIRE[0]), re=re, power='asym',
                                            wall=wall, structure='multi', cf=cf, planes='near'))
        for d in ('d2', 'd3', 'b3'):
            for sf in ('CT', 1.3, 0.7):
                for du in ('1', '2f'):
                    for re in ('lam', 'trans', 'turb'):
                        for wall in ('none', 'flow'):
                            fam = FAMS_BARE[0] if d == 'b3' else FAMS_WIRE[0]
                            out.append(dict(design=d, ducts=du, fam=list(fam), re=re, power='asym', wall=wall,
                                            structure='bundle', sf=sf))
        for d in ('d2', 'd3', 'b3'):
            for du in ('1', '2f', '2s'):
                for ca in (False, True):
                    for pw in ('zero', 'asym', 'duct', 'pins'):
                        for wall in ('none', 'flow'):
                            fam = FAMS_BARE[0] if d == 'b3' else FAMS_WIRE[0]
                            out.append(dict(design=d, ducts=du, fam=list(fam), re='vlow',
                                            conv_approx=ca, power=pw, L=0.06, wall=wall,
                                            structure='bundle'))
    return out


def check_records(c, rec, V, tol=TOL, per_step=True):
    worst = 0.0
    for sr in rec.records:
        if not sr['finite']:
            V.append(violation('non-finite', c, 'non-finite temperature at z=%.4f' % sr['z']))
            return worst
        x = abs(sr['res_int_c']) / sr['scale']
        worst = max(worst, x)
        if per_step and x > tol:
            V.append(violation('balance-' + sr['kind'], c,
                               'coolant enthalpy rise != generated + wall heat at z=%.5f (asm %d, region %d)'
                               % (sr['z'], sr['asm'], sr['region']),
                               {'dH': sr['dH_int'] * sr['cp_c'], 'Qgen': sr['Qgen'], 'Qwall': sr['Qw_int']},
                               'residual 0', tol * sr['scale']))
            return worst
        if sr['m_err'] > 1e-12:
            V.append(violation('mass-flow', c, 'subchannel mass flows do not sum to the region flow',
                               sr['m_err'], 0.0, 1e-12))
            return worst
        for i, b in enumerate(sr['byp']):
            if b.get('flowing'):
                xb = abs(b['res_c']) / b['scale']
                worst = max(worst, xb)
                if per_step and xb > tol:
                    V.append(violation('balance-bypass', c,
                                       'bypass %d enthalpy rise != heat from both walls at z=%.5f' % (i, sr['z']),
                                       {'dH': b['dH'] * b['cp_c'], 'Qwall': b['Qw']}, 'residual 0',
                                       tol * b['scale']))
                    return worst
                if b['m_err'] > 1e-12:
                    V.append(violation('mass-flow', c, 'bypass mass flows do not sum', b['m_err'], 0.0, 1e-12))
                    return worst
        if 'tally_power' in sr and per_step:
            if abs(sr['tally_power'] - sr['Qgen']) > tol * sr['scale']:
                V.append(violation('tally-power', c, 'solver power tally differs from delivered heat',
                                   sr['tally_power'], sr['Qgen'], tol * sr['scale']))
                return worst
            if abs(sr['tally_duct'] - sr['Qw_int']) > tol * sr['scale']:
                V.append(violation('tally-duct', c, 'solver duct tally differs from recomputed wall heat',
                                   sr['tally_duct'], sr['Qw_int'], tol * sr['scale']))
                return worst
    for rc in rec.region_changes:
        t = rc['mixed_mean_before']
        if max(abs(rc['after_min'] - t), abs(rc['after_max'] - t)) > 1e-11 * t:
            V.append(violation('region-change', c,
                               'mixed-mean coolant temperature not carried over %s -> %s at z=%.4f'
                               % (rc['from'], rc['to'], rc['z']),
                               [rc['after_min'], rc['after_max']], t, 1e-11 * t))
            break
    return worst


def run_sweep(c):
    r = new_result()
    V = r['violations']
    scn = build_scn(c, seed=c.get('seed', 0))
    with S.Built(scn) as b:
        cap = S.capture_log()
        try:
            with cap:
                rx = b.reactor()
        except SystemExit as e:
            if any('Axial step size must be at least' in m for m in cap.errors):
                # stability requirement below 1e-6 m: DASSH refuses the problem
                r['outcome'] = 'rejected-step-too-small'
                return r
            V.append(violation('setup-rejected', c, 'valid generated input rejected at set-up: %s'
                               % '; '.join(cap.errors)[:200], site=site_of(e)))
            r['outcome'] = 'rejected'
            return r
        rec = O.Recorder(rx)
        # horizon: sweeps are truncated after `cap` axial steps (each step of
        # the truncated sweep is still a checked state); multi-region
        # structures are always swept to the top so region changes occur
        cap = 4000 if str(c.get('structure')).startswith('multi') else c.get('max_steps', 500)
        O.sweep(rx, rec, max_steps=cap)
        if len(rx.z) - 1 > cap:
            r['extra'] = {'truncated_sweeps': 1}
        worst = check_records(c, rec, V)
        r['states'] = len(rec.records) + 1
        r['transitions'] = len(rec.records)
        r['traces'] = 1
        asm = rx.assemblies[0]
        dT = asm.avg_coolant_temp - rx.inlet_temp
        r['nontrivial'] = bool(c['power'] != 'zero' or c.get('wall') != 'none')
        r['outcome'] = 'ok' if not V else 'violation'
        lim = str(rx.min_dz['sc'][int(np.argmin(rx.min_dz['dz']))])
        r['extra'] = {'truncated_sweeps': r['extra'].get('truncated_sweeps', 0),
                      'limiter': {lim: 1}, 'steps': len(rec.records),
                      'region_changes': len(rec.region_changes),
                      'conv_approx_active': int(any(getattr(reg, '_conv_approx', False) for reg in asm.region))}
        r['info'] = {'worst_rel_residual': worst, 'steps': len(rec.records), 'dT': float(dT), 'limiter': lim}
    return r


# ----------------------------------------------------------------------
def cases_exchange(tier):
    out = []
    designs = ['d2', 'd3', 'b3'] if tier == 'quick' else ['d2', 'd3', 'd4', 'b3', 'd5']
    for d in designs:
        fams = FAMS_BARE if d == 'b3' else FAMS_WIRE
        for du in ('1', '2f'):
            for fam in fams:
                for re in ('lam', 'trans', 'turb'):
                    for wd in ('clockwise', 'counterclockwise'):
                        out.append(dict(design=d, ducts=du, fam=list(fam), re=re, wire_dir=wd,
                                        power='zero', wall='none', structure='bundle'))
    return out


def fields(n, k):
    i = np.arange(n)
    if k == 0:
        return 700.0 + 40.0 * np.sin(1.3 * i + 0.4)
    if k == 1:
        return 650.0 + 0.5 * i
    return 700.0 + 30.0 * ((i * 7919) % 13) / 13.0


def run_exchange(c):
    r = new_result()
    V = r['violations']
    scn = build_scn(c)
    scn['types']['A']['wire_direction'] = c['wire_dir']
    with S.Built(scn) as b:
        rx = b.reactor()
        reg = rx.assemblies[0].rodded
        sc = reg.subchannel
        n = sc.n_sc['coolant']['total']
        ni = sc.n_sc['coolant']['interior']
        m = O.sc_mass_flows(reg)
        dz = float(rx.dz[0])
        for k in range(3):
            T = fields(n, k)
            reg.temp['coolant_int'][:] = T
            reg._update_coolant_int_params(float(np.dot(m, T) / np.sum(m)))
            reg.temp['duct_surf'][0, 0, :] = T[ni:]       # wall slaved to the coolant
            reg.temp['duct_mw'][0, :] = T[ni:]
            dT = reg._calc_coolant_int_temp(dz, None, None)
            tot = float(np.dot(m, dT))
            sca = float(np.dot(m, np.abs(dT)))
            r['states'] += 1
            r['transitions'] += 1
            if not sca > 0:
                V.append(violation('vacuous-exchange', c, 'non-uniform field produced no exchange'))
            elif abs(tot) > 1e-11 * sca:
                V.append(violation('exchange-not-conservative', c,
                                   'conduction/mixing/swirl exchange does not sum to zero over the bundle',
                                   tot, 0.0, 1e-11 * sca))
                break
            if reg.n_bypass > 0 and np.sum(reg.byp_flow_rate) > 0:
                mb = O.byp_mass_flows(reg)
                for i in range(reg.n_bypass):
                    Tb = fields(mb.shape[1], k) - 20.0
                    reg.temp['coolant_byp'][i, :] = Tb
                    reg.temp['duct_surf'][i, 1, :] = Tb
                    reg.temp['duct_surf'][i + 1, 0, :] = Tb
                reg._update_coolant_byp_params(reg.avg_coolant_byp_temp)
                dTb = reg._calc_coolant_byp_temp(dz)
                for i in range(reg.n_bypass):
                    tot = float(np.dot(mb[i], dTb[i]))
                    sca = float(np.dot(mb[i], np.abs(dTb[i])))
                    r['transitions'] += 1
                    if not sca > 0:
                        V.append(violation('vacuous-exchange', c, 'non-uniform bypass field produced no exchange'))
                    elif abs(tot) > 1e-11 * sca:
                        V.append(violation('bypass-exchange-not-conservative', c,
                                           'conduction between bypass cells does not sum to zero (gap %d)' % i,
                                           tot, 0.0, 1e-11 * sca))
        r['traces'] = 1
        r['nontrivial'] = True
        r['outcome'] = 'ok' if not V else 'violation'
    return r


# ----------------------------------------------------------------------
def cases_lag(tier):
    out = []
    designs = ['d2', 'd3'] if tier == 'quick' else ['d2', 'd3', 'd4', 'b3']
    ducts = ['1', '2f', '2s'] if tier == 'quick' else ['1', '2f', '2s', '3']
    for d in designs:
        for du in ducts:
            for re in (('turb',) if tier == 'quick' else ('lam', 'turb')):
                for tol in ((0.0,) if tier == 'quick' else (0.0, 0.01)):
                    for st in ('bundle', 'multi'):
                        fam = FAMS_BARE[0] if d == 'b3' else FAMS_WIRE[0]
                        out.append(dict(design=d, ducts=du, fam=list(fam), re=re, power='asym',
                                        wall='none', structure=st, coolant='sodium', tol=tol, L=0.3, dT=250.0))
    # low power (0.2 K over the core): a rise of a few millikelvin per step - the lag is still one step long, so it still halves
    for d in designs[:2]:
        for du in ducts[:2]:
            out.append(dict(design=d, ducts=du, fam=list(FAMS_WIRE[0]), re='turb', power='asym',
                            wall='none', structure='bundle', coolant='sodium', tol=0.0, L=0.3, dT=0.2))
    return out


def run_lag(c):
    """summed |residual| of the centred balance at dz, dz/2, dz/4"""
    r = new_result()
    V = r['violations']
    sums = []
    dz0 = None
    c = dict(c)
    # horizon: the core is shortened so that the coarsest sweep has about 400 steps (the finest 1600)
    with S.Built(build_scn(c)) as b0:
        lim = float(b0.reactor().req_dz)
    c['L'] = float('%.3g' % min(c.get('L', 0.24), 400 * 0.8 * lim))
    for k in range(3):
        scn = build_scn(c, dz_user=None if dz0 is None else dz0 / 2 ** k)
        with S.Built(scn) as b:
            rx = b.reactor()
            if dz0 is None:
                dz0 = float(rx.req_dz)
                # first pass: honour a round step below the limit
                dz0 = float('%.2g' % (0.8 * dz0))
                scn2 = build_scn(c, dz_user=dz0)
                b2 = S.Built(scn2)
                try:
                    rx = b2.reactor()
                    rec = O.Recorder(rx)
                    O.sweep(rx, rec)
                finally:
                    b2.close()
            else:
                rec = O.Recorder(rx)
                O.sweep(rx, rec)
            tot = sum(abs(sr['res_int_c']) for sr in rec.records if sr['kind'] == 'rodded')
            tot += sum(abs(bb['res_c']) for sr in rec.records for bb in sr['byp'] if bb.get('flowing'))
            ref = sum(abs(sr['Qgen']) for sr in rec.records)
            sums.append(tot / ref)
            r['states'] += len(rec.records)
            r['transitions'] += len(rec.records)
            dT = rx.assemblies[0].avg_coolant_temp - rx.inlet_temp
    r['traces'] = 3
    r['nontrivial'] = True
    floor = 1e-9
    ratios = [sums[i + 1] / sums[i] if sums[i] > 0 else 0.0 for i in range(2)]
    r['info'] = {'rel_residual_sums': sums, 'ratios': ratios, 'dz0': dz0, 'dT': float(dT)}
    for i, q in enumerate(ratios):
        if sums[i + 1] < floor:
            continue
        if not (0.35 <= q <= 0.65):
            V.append(violation('lag-not-first-order', c,
                               'energy-balance residual with temperature-dependent coolant does not '
                               'shrink linearly with the step (dz0=%.4g, halving %d)' % (dz0, i + 1),
                               {'sums': sums, 'ratio': q}, 'ratio in [0.35, 0.65]'))
            break
    r['outcome'] = 'ok' if not V else 'violation'
    return r


# ----------------------------------------------------------------------
def main(run):
    run.rule = ('full product of the stated alphabet (design x ducts x correlation family x Reynolds level '
                'x power shape x wall model [+ axial structure, convection factor, low-flow approximation]); '
                'non-trivial = a sweep with non-zero power or a conducting wall (every axial step is a checked state)')
    run.assumptions = ['film coefficients and wetted lengths published by the region objects are the ones meant '
                       'by "heat received through the duct walls"', 'VERIF_SEED selects one of four fixed '
                       'asymmetric filler maps; it never changes which cases are enumerated']
    cs = cases_sweep(run.tier)
    for c in cs:
        c['seed'] = run.seed % 4
    run.check_determinism(run_sweep, cs[0])
    res = run.explore('sweep', cs, run_sweep, budget_s=300)
    run.explore('exchange', cases_exchange(run.tier), run_exchange, budget_s=120)
    run.explore('lag', cases_lag(run.tier), run_lag, budget_s=600)
    # the summary table of dassh.out through which a user reads this property (vf/props/reports.py)
    from . import reports
    run.explore('report-ebal', reports.cases_ebal(run.tier), reports.run_ebal, budget_s=300)
    # the csv dump of this property's field: every row is the recorded field of that assembly at that plane
    from . import reports as _rep
    run.explore('report-dumps', _rep.cases_dumps(run.tier), _rep.run_dumps_C01, budget_s=300)
    lim = run.extra.get('limiter', {})
    run.notes['worst_rel_residual'] = max([x['info']['worst_rel_residual'] for x in res
                                           if x.get('info')] or [0.0])
    if not run.extra.get('conv_approx_active'):
        run.violations.append(dict(violation('vacuous-alphabet', {}, 'low-flow approximation never active'),
                                   part='sweep'))
    if not run.extra.get('region_changes'):
        run.violations.append(dict(violation('vacuous-alphabet', {}, 'no region change observed'),
                                   part='sweep'))


def replay(body):
    if str((body.get('scenario') or {}).get('probe', '')).startswith('report-'):
        from . import reports
        return reports.replay(body)
    from ..run import guarded
    fn = {'sweep': run_sweep, 'exchange': run_exchange, 'lag': run_lag}[body.get('part') or 'sweep']
    r = guarded(fn, body['scenario'], 900)
    for v in r['violations']:
        print('VIOLATION property=C01 replay=(inline) kind=%s %s observed=%s expected=%s'
              % (v['kind'], v['what'], v.get('observed'), v.get('expected')))
    print('outcome', r['outcome'], r.get('info'))
    return 1 if r['violations'] else 0
