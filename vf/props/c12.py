"""C12  Flow split conserves mass and equalises subchannel pressure gradients.

Alphabet (explicit, enumerated completely):
  6 friction x 5 flow-split x 4 mixing correlations (120 triples)
  x bundle designs (rings, P/D, H/D, edge clearance, wire / bare rod)
  x spacer grid {none, K (loss coefficient given), REH, CDD}
  x Reynolds levels (23 per design; regime boundaries are taken from the
    code's own definitions: friction_ctd / friction_uctd.calculate_Re_bounds
    and the literal 400 / 5000 of friction_eng; every boundary b is visited
    at b(1-1e-9), b, b(1+1e-9)).

Every case writes a real input file, parses it with the real DASSH_Input
(acceptance question), builds the RoddedRegion with the real
region_rodded.make exactly like Assembly does (template at flow -1), and per
Reynolds level follows the Reactor path:
    template.clone() + _setup_flowrate(flow) -> _init_static_correlated_params(T)
    -> _update_coolant_int_params(T)
The flow rate is chosen such that the bundle Reynolds number the code
computes equals the target (exactly, by ulp search, for the "=" levels).

Oracles (per level):
 (1) no exception, (2) split > 0, sum N_i A_i X_i = A_b, sum(sc_mfr) = flow,
 (3) friction factor finite > 0, eddy / swirl finite >= 0,
 (4) Cheng-Todreas family flow split: per-type pressure gradient
     (f_i / De_i + K_tot / L) X_i^2 recomputed here from the correlation's
     own constants is the same for the three subchannel types and, without
     grid in laminar / turbulent flow, equals f_b / De_b.
"""
import math

import numpy as np

from ..run import new_result, violation, site_of, guarded
from .. import scenario as S

FF = ('NOV', 'REH', 'ENG', 'CTS', 'CTD', 'UCTD')
FS = ('NOV', 'SE2', 'MIT', 'CTD', 'UCTD')
MIX = ('MIT', 'CTD', 'UCTD', 'KC-BARE')
CT = ('CTD', 'UCTD')
ZG = [0.25, 0.5, 0.75]
GRIDS = {
    'none': None,
    'K': {'loss_coeff': 1.2, 'axial_positions': ZG},
    'REH': {'corr': 'REH', 'solidity': 0.3, 'axial_positions': ZG},
    'CDD': {'corr': 'CDD', 'solidity': 0.3, 'axial_positions': ZG},
    # three grids again, the first on the inlet plane of the bundle and the last on its outlet plane
    'K-ends': {'loss_coeff': 1.2, 'axial_positions': [0.0, 0.5, 1.0]},
    # reader probes only: solidity left to the code's default relation
    'REH-defsol': {'corr': 'REH', 'axial_positions': ZG},
    'CDD-defsol': {'corr': 'CDD', 'axial_positions': ZG},
}
T_EVAL = 700.0
LENGTH = 1.0
COOLANT = 'sodium_se2anl_425'     # constant properties: Re <-> flow is linear
DUCT = 'ht9_se2anl_425'
M_EXP = {'laminar': 1.0, 'turbulent': 0.18}     # Cheng-Todreas Re exponents

# Tolerances (derived, not tuned)
#  TOL_SUM   : sums of <= ~400 products of doubles, n*eps/2 ~ 5e-14
#  TOL_CLOSED: closed-form splits; a handful of pow() calls, few eps
#  TOL_ITER  : successive approximation stops at |x2_new - x2_old| < 1e-5 and
#              returns x_new whose ratios were formed with the friction terms at
#              x_old, so the gradient mismatch at the returned point is exactly
#              (r_i'/r_i)^2 - 1, r_i = x_i/x_2, r_i' the ratio one further step
#              would give: 2*|dln r_i| ~ 2*q*1e-5/x2 (q<1 contraction factor).
#              The log-sensitivity of t_i = f_i L/De_i + K to x_i is
#              -m_eff + (1/psi + 1/(1-psi)) / (3 ln(Re_iT/Re_iL)) <~ 15 for
#              psi in [0.01, 0.99], giving <= 2*15*(few)1e-5 ~ 1e-3.
#              (This presumes x1, x3 have settled like x2, which is what a
#              converged iteration means; a scratch copy whose stop rule tests all
#              three components passes this tolerance on the whole alphabet.)
#  TOL_X     : the stop rule is defined on the split, not on the gradients, and
#              the friction law has unbounded slope where a subchannel sits on
#              its own regime boundary (psi^(1/3), (1-psi)^(1/3) at psi = 0, 1):
#              there a split that is converged to the solver's resolution can
#              still show > 1e-3 in the gradients.  A level whose gradient
#              spread exceeds TOL_ITER is therefore accepted iff the returned
#              split equals the exact equal-gradient split (nested bisection in
#              the harness, verified to 1e-9) to within TOL_X.  Linear
#              convergence with factor q leaves |x - x*| <= q/(1-q) * 1e-5 after
#              the stop; reaching 1e-5 within the 100-step limit from an O(1)
#              start needs q <= (1e-5)^(1/100) = 0.891, i.e. <= 8.2e-5 -> 1e-4.
#  TOL_BUNDLE: identity between closed-form split and bundle constant (pow chain)
TOL_SUM = 1e-12
TOL_CLOSED = 1e-12
TOL_ITER = 1e-3
TOL_X = 1e-4
TOL_BUNDLE = 1e-10


# ----------------------------------------------------------------------
# alphabet
def designs(tier):
    """list of design dicts (flat fields)"""
    out = []

    def add(rings, pd, hd, wire=True, clr='tight'):
        out.append({'rings': rings, 'pd': pd, 'hd': hd if wire else 0.0,
                    'wire': wire, 'clr': clr})
    # bare-rod bundles: 'tight' would put the duct wall on the outer pins
    # (degenerate corner subchannel), so 'mid' is the reference clearance
    if tier == 'quick':
        add(3, 1.2, 30.0)
        add(2, 1.08, 8.0)
        add(4, 1.42, 52.0)
        add(2, 1.2, 0.0, wire=False, clr='mid')
        add(3, 1.08, 0.0, wire=False, clr='mid')
        # bare rods almost touching the duct at a wide pitch: the corner split factor is of the order 1e-2
        add(3, 1.8, 0.0, wire=False, clr='tight')
        add(2, 1.6, 0.0, wire=False, clr='tight')
        # a duct far too wide for the bundle (edge pitch-to-diameter ratio ~ 3): outside every range of the
        # Cheng-Todreas correlations - the reader refuses it whenever one of them is involved
        add(2, 1.2, 30.0, clr=2.0)
        add(2, 1.2, 0.0, wire=False, clr=2.0)
        return out
    for rings in (2, 4, 8):
        for pd in (1.02, 1.08, 1.2, 1.42, 1.6):
            for hd in (4.0, 8.0, 30.0, 52.0, 100.0):
                add(rings, pd, hd)
        for clr in ('mid', 'loose', 1.0, 2.0):
            add(rings, 1.2, 30.0, clr=clr)
        for pd in (1.08, 1.2, 1.6):
            add(rings, pd, 0.0, wire=False, clr='mid')
        for clr in ('tight', 'loose'):
            add(rings, 1.2, 0.0, wire=False, clr=clr)
        for pd in (1.42, 1.6, 1.8):
            for clr in ('tight', 0.006):
                add(rings, pd, 0.0, wire=False, clr=clr)
    return out


def cases(tier):
    out = []
    for d in designs(tier):
        if tier == 'quick':
            grids = ('none', 'CDD') if d['wire'] else ('none', 'K', 'REH', 'CDD')
        else:
            grids = ('none', 'K', 'REH', 'CDD')
        for g in grids:
            for ff in FF:
                for fs in FS:
                    for mix in MIX:
                        c = dict(d)
                        c.update({'grid': g, 'ff': ff, 'fs': fs, 'mix': mix})
                        out.append(c)
        # the same bundle raised above a lower reflector (the grid term is per bundle length,
        # not per elevation): pure Cheng-Todreas triples, every grid model
        for g in ('K', 'REH', 'CDD'):
            for fam in ('CTD', 'UCTD'):
                c = dict(d)
                c.update({'grid': g, 'ff': fam, 'fs': fam, 'mix': fam, 'zoff': 0.6})
                out.append(c)
                out.append(dict(c, phantom=True))
        for fam in ('CTD', 'UCTD'):
            c = dict(d)
            c.update({'grid': 'K-ends', 'ff': fam, 'fs': fam, 'mix': fam})
            out.append(c)
            out.append(dict(c, zoff=0.6))
    return out


def reader_cases(tier):
    out = []
    ds = designs(tier)
    if tier != 'quick':
        ds = [d for d in ds if d['hd'] in (0.0, 30.0) and d['clr'] in ('tight', 'mid')]
    for d in ds:
        for g in ('REH-defsol', 'CDD-defsol'):
            c = dict(d)
            c.update({'grid': g, 'ff': 'CTD', 'fs': 'CTD', 'mix': 'CTD',
                      'probe': 'reader'})
            out.append(c)
    return out


def scenario_of(c):
    n = c['rings']
    zoff = float(c.get('zoff') or 0.0)     # bundle raised above a lower reflector (same bundle length)
    sp = GRIDS[c['grid']]
    regions = None
    if zoff:
        regions = {'lower': {'z_lo': 0.0, 'z_hi': zoff, 'vf_coolant': 0.3}}
        if sp:
            sp = dict(sp, axial_positions=[z + zoff for z in sp['axial_positions']])
            if c.get('phantom'):
                # one more listed position, in the lower reflector: outside the pin bundle it is not a
                # grid of the bundle (the reader says it skips it) and must not enter the split
                sp['axial_positions'] = [0.5 * zoff] + sp['axial_positions']
    dsn = S.design(n, pd=c['pd'], hd=c['hd'] if c['wire'] else 30.0,
                   wire=c['wire'], clearance=c['clr'],
                   oftf=0.012 * n + 0.03,
                   corr=(c['ff'], c['fs'], c['mix']),
                   spacer=sp, regions=regions)
    if c.get('scale'):
        # an exact scale model: every cross-section length times a power of two (all ratios bit-identical)
        k = float(c['scale'])
        for key in ('pin_pitch', 'pin_diameter', 'clad_thickness', 'wire_diameter', 'wire_pitch'):
            dsn[key] = dsn[key] * k
        dsn['duct_ftf'] = [x * k for x in dsn['duct_ftf']]
    if c.get('wire_scale'):
        # the same pins, pitch, lead and duct with a thinner wire (P/D, H/D and W/D unchanged)
        dsn['wire_diameter'] = round(dsn['wire_diameter'] * float(c['wire_scale']), 9)
    if c.get('ftf_add'):
        # the same pins in a duct a few micrometres wider (all ratios but W/D identical, W/D within 1e-3)
        dsn['duct_ftf'] = [round(x + float(c['ftf_add']), 9) for x in dsn['duct_ftf']]
    return S.single(dsn, 1.0, length=LENGTH + zoff, coolant=COOLANT,
                    power={'rings': n, 'nduct': 1, 'cells': [0.0, LENGTH + zoff],
                           'q': 1000.0, 'pins': 'uniform'})


def level_targets(tmpl):
    """[(label, target Re, exact?)] from the code's own regime boundaries"""
    from dassh.correlations import friction_ctd, friction_uctd
    bLc, bT = (float(x) for x in friction_ctd.calculate_Re_bounds(tmpl))
    bLu, bTu = (float(x) for x in friction_uctd.calculate_Re_bounds(tmpl))
    lv = [('Re10', 10.0, False), ('lam', 100.0, False)]
    bnds = [('bLc', bLc), ('bLu', bLu), ('bT', bT), ('e400', 400.0),
            ('e5000', 5000.0)]
    if bTu != bT:
        bnds.insert(3, ('bTu', bTu))
    for nm, b in bnds:
        lv.append((nm + '-', b * (1.0 - 1e-9), False))
        lv.append((nm + '=', b, True))
        lv.append((nm + '+', b * (1.0 + 1e-9), False))
    lv.append(('bLmid', math.sqrt(bLc * bLu), False))
    lo = max(bLc, bLu)
    for nm, a in (('tr10', 0.1), ('tr50', 0.5), ('tr90', 0.9)):
        lv.append((nm, lo ** (1.0 - a) * bT ** a, False))
    lv.append(('turb', 2.0 * max(bT, bTu), False))
    lv.append(('Re1e6', 1.0e6, False))
    return lv, {'bLc': bLc, 'bLu': bLu, 'bT': bT, 'bTu': bTu}


def regime_of(re, bl, bt):
    # same comparisons as the code: laminar if Re <= Re_bL, turbulent if >= Re_bT
    if re <= bl:
        return 'laminar'
    if re >= bt:
        return 'turbulent'
    return 'transition'


def flow_for(target, area, de, mu, exact):
    """flow rate for which the code's own expression
    (flow / area) * de / mu  gives the target Reynolds number"""
    def re_of(fr):
        return (fr / area) * de / mu
    fr0 = target * mu * area / de
    if not exact:
        return fr0, re_of(fr0)
    best = (abs(re_of(fr0) - target), fr0)
    for sign in (-1.0, 1.0):
        fr = fr0
        for _ in range(64):
            fr = float(np.nextafter(fr, sign * np.inf))
            d = abs(re_of(fr) - target)
            if d < best[0]:
                best = (d, fr)
            if d == 0.0:
                break
    return best[1], re_of(best[1])


# ----------------------------------------------------------------------
# independent recomputation for the Cheng-Todreas family
def ct_reference(reg, fam, nsc):
    """own constants of flow-split correlation `fam` and closed-form
    laminar / turbulent splits (derived here from
    Cf_i X_i^(2-m) / De_i^(1+m) = const  and  sum s_i X_i = 1)"""
    from dassh.correlations import friction_ctd, friction_uctd
    M = friction_ctd if fam == 'CTD' else friction_uctd
    cf = M.calculate_subchannel_friction_factor_const(reg)
    bl, bt = (float(x) for x in M.calculate_Re_bounds(reg))
    de = np.asarray(reg.params['de'], dtype=float)
    area = np.asarray(reg.params['area'], dtype=float)
    s = nsc * area / float(reg.bundle_params['area'])
    x = {}
    for r, m in M_EXP.items():
        c = np.asarray(cf[r], dtype=float)
        ratio = (de / de[1]) ** ((1.0 + m) / (2.0 - m)) * (c[1] / c) ** (1.0 / (2.0 - m))
        x2 = 1.0 / float(np.sum(s * ratio))
        x[r] = ratio * x2
    return {'cf': {r: np.asarray(cf[r], dtype=float) for r in cf}, 'bl': bl, 'bt': bt,
            'x': x, 'lam': None if fam == 'CTD' else 7.0, 'de': de, 's': s,
            'deb': float(reg.bundle_params['de']), 'module': M}


def ct_friction(ref, re_b, x, regime):
    """per-type friction factor; `regime` in laminar/turbulent forces the
    bundle-regime form (psi = 0 / 1), 'sub' uses the subchannel intermittency"""
    de, deb = ref['de'], ref['deb']
    re_i = re_b * x * de / deb
    f_l = ref['cf']['laminar'] / re_i
    f_t = ref['cf']['turbulent'] / re_i ** M_EXP['turbulent']
    if regime == 'laminar':
        return f_l
    if regime == 'turbulent':
        return f_t
    re_il = ref['bl'] * ref['x']['laminar'] * de / deb
    re_it = ref['bt'] * ref['x']['turbulent'] * de / deb
    psi = np.log10(re_i / re_il) / np.log10(re_it / re_il)
    psi = np.clip(psi, 0.0, 1.0)
    f = f_l * (1.0 - psi) ** (1.0 / 3.0)
    if ref['lam'] is not None:
        f = f * (1.0 - psi ** ref['lam'])
    return f + f_t * psi ** (1.0 / 3.0)


def ct_step(ref, re_b, x, ktot):
    """one successive-approximation step of the Cheng-Todreas split
    (equal (f_i L/De_i + K) x_i^2, sum s_i x_i = 1), harness formulas"""
    t = ct_friction(ref, re_b, x, 'sub') * LENGTH / ref['de'] + ktot
    r1 = math.sqrt(t[1] / t[0])
    r3 = math.sqrt(t[1] / t[2])
    s = ref['s']
    x2 = 1.0 / (s[1] + s[0] * r1 + s[2] * r3)
    return np.array([r1 * x2, x2, r3 * x2])


def ct_emulate(ref, re_b, ktot, rule):
    """the code's iteration (start at 1, at most 100 steps, return the NEW
    point) with harness formulas; rule 'x2': stop when |dx2| < 1e-5 (the tree
    before the stop-rule repair), rule 'all': stop when all three components
    move by < 1e-5 relative; None = limit reached"""
    x = np.ones(3)
    for _ in range(100):
        xn = ct_step(ref, re_b, x, ktot)
        if rule == 'x2':
            stop = abs(xn[1] - x[1]) < 1e-5
        else:
            stop = float(np.max(np.abs(xn / x - 1.0))) < 1e-5
        if stop:
            return xn
        x = xn
    return None


def ct_approx(ref, re_b, bl, bt):
    """Cheng's approximate transition split as coded (beta = 5), regime bounds
    given separately; labelling only"""
    de, deb, s = ref['de'], ref['deb'], ref['s']
    intf = float((np.log10(re_b) - np.log10(bl)) / (np.log10(bt) - np.log10(bl)))
    if not 0.0 <= intf <= 1.0:
        return None
    m = M_EXP['turbulent']
    a = ref['cf']['laminar'] * deb / de ** 2 * (1.0 - intf) ** (1.0 / 3.0) / re_b
    b = (ref['cf']['turbulent'] * deb ** m / de ** (m + 1.0)
         * intf ** (1.0 / 3.0) / re_b ** m) ** (1.0 / (2.0 - m))
    xr = a + 5.0 * b
    r1, r3 = xr[1] / xr[0], xr[1] / xr[2]
    x2 = 1.0 / (s[1] + s[0] * r1 + s[2] * r3)
    return np.array([r1 * x2, x2, r3 * x2])


def ct_exact(ref, re_b, ktot):
    """exact equal-gradient split by nested bisection (scalar arithmetic):
    inner  h_i(x) = (f_i(x) L/De_i + K) x^2 = G  for each type,
    outer  sum_i s_i x_i(G) = 1.  Returns None unless the result really has
    equal gradients (1e-9) and conserves mass (1e-12)."""
    deb, lam = ref['deb'], ref['lam']
    par = []
    for i in range(3):
        de = float(ref['de'][i])
        reil = ref['bl'] * float(ref['x']['laminar'][i]) * de / deb
        reit = ref['bt'] * float(ref['x']['turbulent'][i]) * de / deb
        par.append((de, float(ref['cf']['laminar'][i]), float(ref['cf']['turbulent'][i]),
                    reil, 1.0 / math.log10(reit / reil)))
    mt = M_EXP['turbulent']

    def h(i, x):
        de, cfl, cft, reil, inv = par[i]
        rei = re_b * x * de / deb
        psi = math.log10(rei / reil) * inv
        psi = 0.0 if psi < 0.0 else (1.0 if psi > 1.0 else psi)
        f = cfl / rei * (1.0 - psi) ** (1.0 / 3.0)
        if lam is not None:
            f *= (1.0 - psi ** lam)
        f += cft / rei ** mt * psi ** (1.0 / 3.0)
        return (f * LENGTH / de + ktot) * x * x

    lo_x, hi_x = math.log(1e-4), math.log(1e2)

    def x_of(i, G):
        a, b = lo_x, hi_x
        for _ in range(60):
            mid = 0.5 * (a + b)
            if h(i, math.exp(mid)) < G:
                a = mid
            else:
                b = mid
        return math.exp(0.5 * (a + b))

    s = [float(v) for v in ref['s']]
    ga = math.log(min(h(i, 1e-4) for i in range(3)))
    gb = math.log(max(h(i, 1e2) for i in range(3)))
    for _ in range(70):
        gm = 0.5 * (ga + gb)
        tot = sum(s[i] * x_of(i, math.exp(gm)) for i in range(3))
        if tot < 1.0:
            ga = gm
        else:
            gb = gm
    G = math.exp(0.5 * (ga + gb))
    x = np.array([x_of(i, G) for i in range(3)])
    g = np.array([h(i, float(x[i])) for i in range(3)])
    if spread(g) < 1e-9 and abs(float(np.sum(ref['s'] * x)) - 1.0) < 1e-12:
        return x
    return None


def _same(a, b):
    return a is not None and b is not None and float(np.max(np.abs(a - b))) < 1e-9


def ct_classify(ref, ref_ff, re_b, x_code, ktot, fallback_seen=False):
    """label (never decide) a split that is not the equal-gradient split:
    approx-fallback  : it is the approximate (beta = 5) formula's value
    foreign-friction : it is what iteration / approximation give with the
                       regime bounds / Cf_i of the FRICTION correlation
    early-stop       : it is what the iteration returns by its own stop rule"""
    # fallback_seen: the real _calc_transition_flowsplit_APPROX was observed to
    # run for this level with the split correlation's own bounds (its value is
    # ill-conditioned at Re_bL -- intf^(1/3) of a round-off sized intf -- so
    # matching values alone is not reliable there)
    def dist(x):
        return float('inf') if x is None else float(np.max(np.abs(x - x_code)))
    if ktot == 0.0:
        own = ct_approx(ref, re_b, ref['bl'], ref['bt'])
        if _same(own, x_code):
            return 'approx-fallback'
        if fallback_seen:
            if ref_ff is None:
                return 'approx-fallback'
            d_for = min(dist(ct_approx(ref, re_b, ref_ff['bl'], ref_ff['bt'])),
                        dist(ct_approx(ref_ff, re_b, ref_ff['bl'], ref_ff['bt'])))
            return 'approx-fallback' if dist(own) <= d_for else 'foreign-friction'
    for rule in ('all', 'x2'):
        if _same(ct_emulate(ref, re_b, ktot, rule), x_code):
            return 'early-stop'
    if ref_ff is not None:
        cands = [ct_emulate(ref_ff, re_b, ktot, 'all'), ct_emulate(ref_ff, re_b, ktot, 'x2')]
        if ktot == 0.0:
            cands += [ct_approx(ref, re_b, ref_ff['bl'], ref_ff['bt']),
                      ct_approx(ref_ff, re_b, ref_ff['bl'], ref_ff['bt'])]
        if any(_same(x, x_code) for x in cands) or all(x is None for x in cands[:2]):
            return 'foreign-friction'
    return 'other'


def spread(g):
    g = np.asarray(g, dtype=float)
    return float((np.max(g) - np.min(g)) / abs(np.mean(g)))


# ----------------------------------------------------------------------
def run_case(c):
    import dassh
    from dassh import region_rodded
    from dassh.correlations import friction_ctd, flowsplit_ctd
    r = new_result()
    V = r['violations']
    n = c['rings']
    nsc = np.array([6.0 * (n - 1) ** 2, 6.0 * (n - 1), 6.0])
    ncool = int(nsc.sum())
    only = c.get('level')
    base = {k: c[k] for k in ('rings', 'pd', 'hd', 'wire', 'clr', 'grid',
                              'ff', 'fs', 'mix')}
    if c.get('probe'):
        base['probe'] = c['probe']
    if c.get('zoff'):
        base['zoff'] = c['zoff']
    if c.get('phantom'):
        base['phantom'] = True
    for k in ('scale', 'wire_scale', 'ftf_add'):
        if c.get(k):
            base[k] = c[k]
    ex = {'accept': {}, 'levels': {}, 'dpdz': {}, 'bundle_eq': 0, 'passed_by_x_distance': 0, 'approx_fallback_levels': 0,
          'exact_hits': 0, 'exact_miss': 0, 'construct_rejected': {}}
    r['extra'] = ex

    def cnt(d, k, v=1):
        d[k] = d.get(k, 0) + v

    # ---------------- acceptance: real reader, real make ----------------
    with S.Built(scenario_of(base)) as b:
        try:
            inp = b.inp()
        except SystemExit:
            cnt(ex['accept'], 'reader-rejected')
            r['outcome'] = 'rejected-reader'
            return r
        except Exception as e:
            cnt(ex['accept'], 'reader-crash')
            V.append(violation('reader-crash', base,
                               'DASSH_Input raised %s: %s' % (type(e).__name__, str(e)[:200]),
                               site=site_of(e)))
            r['outcome'] = 'reader-crash'
            return r
    cnt(ex['accept'], 'reader-accepted')
    r['transitions'] += 1
    if c.get('probe') == 'reader':
        r['states'] = 1
        r['traces'] = 1
        r['nontrivial'] = True
        return r
    data = inp.data['Assembly']['A']
    mat = {'coolant': inp.materials[COOLANT].clone(),
           'duct': inp.materials[DUCT].clone()}
    try:
        tmpl = region_rodded.make(data, 'A', mat, -1.0)
    except SystemExit:
        cnt(ex['accept'], 'construct-rejected')
        cnt(ex['construct_rejected'], '%s ff=%s fs=%s' % ('wire' if c['wire'] else 'bare',
                                                            c['ff'], c['fs']))
        r['outcome'] = 'rejected-construct'
        return r
    except Exception as e:
        V.append(violation('crash-construct', base,
                           'region_rodded.make raised %s: %s' % (type(e).__name__, str(e)[:200]),
                           site=site_of(e)))
        r['outcome'] = 'crash-construct'
        return r
    cnt(ex['accept'], 'constructed')
    r['transitions'] += 1
    area = tmpl.bundle_params['area']
    deb = tmpl.bundle_params['de']
    mu = tmpl.coolant.viscosity
    levels, bnd = level_targets(tmpl)
    grid_on = c['grid'] != 'none'
    own = {'CTD': (bnd['bLc'], bnd['bT']), 'UCTD': (bnd['bLu'], bnd['bTu']),
           'CTS': (bnd['bLc'], bnd['bT']), 'ENG': (400.0, 5000.0)}
    ref = None
    ref_err = None
    ref_ff = None
    if c['fs'] in CT:
        try:
            ref = ct_reference(tmpl, c['fs'], nsc)
            if c['ff'] in CT and c['ff'] != c['fs']:
                # what the split would use if it took the friction correlation's
                # bounds and Cf_i (labelling only)
                other = ct_reference(tmpl, c['ff'], nsc)
                ref_ff = dict(ref, cf=other['cf'], bl=other['bl'], bt=other['bt'])
        except Exception as e:          # constants cannot be formed: reported per level
            ref_err = e
    grouped = {}

    def bad(kind, lab, info, what, obs=None, exp=None, tol=None, site=None):
        key = (kind, site, info['regime'], info['regime_fs'], info['regime_mix'])
        if key in grouped:
            grouped[key]['scenario']['levels'].append(lab)
            return
        scn = dict(base)
        scn.update(info)
        scn['level'] = lab
        scn['levels'] = [lab]
        v = violation(kind, scn, what, obs, exp, tol, site=site)
        grouped[key] = v
        V.append(v)

    worst = {'closed': 0.0, 'iter': 0.0, 'bundle': 0.0, 'mass': 0.0, 'xdist': 0.0}
    done = 0
    for lab, target, exact in levels:
        if only is not None and lab != only:
            continue
        fr, re_pred = flow_for(target, area, deb, mu, exact)
        if exact:
            cnt(ex, 'exact_hits' if re_pred == target else 'exact_miss')
        info = {'Re': float(re_pred),
                'regime': regime_of(re_pred, bnd['bLc'], bnd['bT']),
                'regime_fs': regime_of(re_pred, *own[c['fs']]) if c['fs'] in own else 'n/a',
                'regime_mix': regime_of(re_pred, *own[c['mix']]) if c['mix'] in own else 'n/a',
                'regime_ff': regime_of(re_pred, *own[c['ff']]) if c['ff'] in own else 'n/a'}
        r['states'] += 1
        # ---- the Reactor path: clone with the flow rate, static params, update
        # (clone(new_flowrate=fr) == clone() + _setup_flowrate(fr) +
        #  _setup_ht_constants(); the heat-transfer constants play no role here)
        try:
            reg = tmpl.clone()
            reg._setup_flowrate(fr)
        except BaseException as e:
            bad('crash-clone', lab, info, 'clone() raised %s: %s'
                % (type(e).__name__, str(e)[:160]), site=site_of(e))
            cnt(ex['levels'], 'crash-clone')
            continue
        r['transitions'] += 2
        seen = []
        orig_approx = flowsplit_ctd._calc_transition_flowsplit_APPROX

        def _spy(*a, **k):
            seen.append(1)
            return orig_approx(*a, **k)
        flowsplit_ctd._calc_transition_flowsplit_APPROX = _spy     # observation only
        try:
            reg._init_static_correlated_params(T_EVAL)
        except BaseException as e:
            flowsplit_ctd._calc_transition_flowsplit_APPROX = orig_approx
            bad('crash-static', lab, info,
                '_init_static_correlated_params raised %s: %s'
                % (type(e).__name__, str(e)[:160]), site=site_of(e))
            cnt(ex['levels'], 'crash-static')
            continue
        flowsplit_ctd._calc_transition_flowsplit_APPROX = orig_approx
        if seen:
            cnt(ex, 'approx_fallback_levels')
        r['transitions'] += 1
        P = reg.coolant_int_params
        if float(P['Re']) != re_pred:
            bad('harness-re-prediction', lab, info, 'code Re differs from predicted Re',
                float(P['Re']), re_pred)
        crashed_update = False
        try:
            reg._update_coolant_int_params(T_EVAL)
        except BaseException as e:
            bad('crash-update', lab, info,
                '_update_coolant_int_params raised %s: %s'
                % (type(e).__name__, str(e)[:160]), site=site_of(e))
            cnt(ex['levels'], 'crash-update')
            crashed_update = True
        r['transitions'] += 1

        # ---- (2) split positive, mass conserved
        X = np.asarray(P['fs'], dtype=float)
        okX = X.shape == (3,) and bool(np.all(np.isfinite(X))) and bool(np.all(X > 0))
        if not okX:
            bad('split-not-positive', lab, info, 'flow split factors must be finite and > 0',
                X.tolist(), '> 0', site='fs:' + c['fs'])
        else:
            A = np.asarray(reg.params['area'], dtype=float)
            lhs = float(np.sum(nsc * A * X))
            err = abs(lhs - float(area)) / float(area)
            worst['mass'] = max(worst['mass'], err)
            if err > TOL_SUM:
                bad('mass-not-conserved', lab, info, 'sum N_i A_i X_i != A_bundle',
                    lhs, float(area), TOL_SUM, site='fs:' + c['fs'])
            m = np.asarray(reg.sc_mfr, dtype=float)
            tot = float(np.sum(m))
            if len(m) != ncool or not np.all(m > 0) or \
                    abs(tot - reg.int_flow_rate) > TOL_SUM * reg.int_flow_rate:
                bad('mass-not-conserved', lab, info, 'sum(sc_mfr) != int_flow_rate',
                    tot, float(reg.int_flow_rate), TOL_SUM, site='sc_mfr')
        # ---- (3) friction factor, mixing parameters
        f_b = P['ff']
        try:
            f_b = float(f_b)
            okf = math.isfinite(f_b) and f_b > 0.0
        except (TypeError, ValueError):
            okf = False
        if not okf:
            bad('ff-not-positive-finite', lab, info,
                'bundle friction factor must be finite and > 0', repr(P['ff']), '> 0',
                site='ff:' + c['ff'])
        if not crashed_update and okX:      # a NaN split (reported above) propagates
            eddy = float(P['eddy'])
            sw = np.asarray(P['swirl'], dtype=float)
            if not (math.isfinite(eddy) and eddy >= 0.0 and np.all(np.isfinite(sw))
                    and np.all(sw >= 0.0)):
                bad('mixing-negative-or-nan', lab, info,
                    'eddy diffusivity / swirl velocity must be finite and >= 0',
                    [eddy] + sw.tolist(), '>= 0', site='mix:' + c['mix'])
        # ---- (4) Cheng-Todreas family: equal pressure gradients
        if c['fs'] in CT and okX:
            if ref is None:
                bad('harness-constants', lab, info,
                    'own constants of the flow-split correlation could not be formed: %r' % (ref_err,))
            else:
                rg = info['regime_fs']
                iterated = grid_on or rg == 'transition'
                fsub = ct_friction(ref, re_pred, X, 'sub' if iterated else rg)
                g_fric = fsub * X ** 2 / ref['de']
                g = g_fric
                if grid_on:
                    ktot = float(P['grid_loss_coeff']) * len(ZG)
                    g = g_fric + ktot * X ** 2 / LENGTH
                sp = spread(g)
                tol = TOL_ITER if iterated else TOL_CLOSED
                cls = 'grid' if grid_on else rg
                cnt(ex['dpdz'], cls)
                if iterated:
                    worst['iter'] = max(worst['iter'], sp if np.isfinite(sp) else 9e9)
                else:
                    worst['closed'] = max(worst['closed'], sp if np.isfinite(sp) else 9e9)
                viol = not (sp <= tol)
                if viol and iterated and np.all(np.isfinite(g)) and \
                        not (grid_on and 'grid' not in reg.corr):
                    # tolerance of the iteration in the space it is defined in:
                    # is the returned split the exact equal-gradient split to
                    # within TOL_X?  (see TOL_X above)
                    ktot = float(P['grid_loss_coeff']) * len(ZG) if grid_on else 0.0
                    xs = ct_exact(ref, re_pred, ktot)
                    if xs is not None:
                        dx = float(np.max(np.abs(X / xs - 1.0)))
                        worst['xdist'] = max(worst['xdist'], dx if dx <= TOL_X else 0.0)
                        if dx <= TOL_X:
                            viol = False
                            cnt(ex, 'passed_by_x_distance')
                if viol:
                    ktot = float(P['grid_loss_coeff']) * len(ZG) if grid_on else 0.0
                    if grid_on and 'grid' not in reg.corr:
                        kind, why = 'grid-loss-ignored-by-split', \
                            'split evaluated without grid=True although a grid is present'
                    elif not np.all(np.isfinite(g)):
                        kind, why = 'dpdz-not-equal', 'non-finite gradient'
                    else:
                        lab_ = ct_classify(ref, ref_ff, re_pred, X, ktot, bool(seen))
                        kind = 'dpdz-not-equal' + ('' if lab_ == 'other' else '-' + lab_)
                        why = {'foreign-friction': 'split iterated with the regime bounds / Cf_i of the '
                                                   'friction correlation',
                               'approx-fallback': 'iteration does not meet its stop rule in 100 steps; '
                                                  'approximate formula used',
                               'early-stop': 'iteration stopped by its own rule away from the solution',
                               'other': 'unexplained'}[lab_]
                        xs = ct_exact(ref, re_pred, ktot)
                        if xs is not None:
                            why += '; split / exact split - 1 = [%s]' % ', '.join(
                                '%.1e' % v for v in (X / xs - 1.0))
                    bad(kind, lab, info,
                        'pressure gradient (friction%s) differs between subchannel types: '
                        'relative spread %.3e; %s' % (' + grid' if grid_on else '', sp, why),
                        (g / g[1]).tolist(), [1.0, 1.0, 1.0], tol,
                        site='fs:%s|grid:%s' % (c['fs'], c['grid']))
                elif not grid_on and rg in ('laminar', 'turbulent'):
                    # common gradient == bundle value f_b / De_b
                    cfb = friction_ctd._calc_cfb(reg, ref['cf'])
                    fb_own = cfb[rg] / re_pred ** M_EXP[rg]
                    refs = [('bundle constant of the split correlation', fb_own)]
                    if c['ff'] == c['fs'] and okf:
                        refs.append(("coolant_int_params['ff']", f_b))
                    for nm, fb in refs:
                        gb = fb / ref['deb']
                        eb = float(np.max(np.abs(g / gb - 1.0)))
                        worst['bundle'] = max(worst['bundle'], eb)
                        ex['bundle_eq'] += 1
                        if not (eb <= TOL_BUNDLE):
                            bad('dpdz-not-bundle-value', lab, info,
                                'common subchannel gradient != f_b/De_b (%s)' % nm,
                                (g / gb).tolist(), [1.0, 1.0, 1.0], TOL_BUNDLE,
                                site='fs:%s|ff:%s' % (c['fs'], c['ff']))
        if not crashed_update:
            cnt(ex['levels'], 'evaluated')
            done += 1
            r['traces'] += 1
    r['nontrivial'] = done > 0
    r['outcome'] = 'ok' if not V else 'violations'
    r['info'] = {'levels': len(levels), 'evaluated': done, 'worst': worst,
                 'Re_bounds': bnd}
    r['worst'] = worst
    return r


# ----------------------------------------------------------------------
# part `clones`: the correlated state each core position holds is its own
def clone_cases(tier):
    out = []
    fams = ('CTD', 'UCTD')
    for kind in ('rodded', 'lowfi'):
        for fam in fams:
            for g in (('none', 'K', 'CDD') if tier == 'quick' else ('none', 'K', 'REH', 'CDD')):
                for rings in ((3,) if tier == 'quick' else (2, 3, 4)):
                    out.append({'probe': 'clones', 'kind': kind, 'ff': fam, 'fs': fam, 'mix': fam, 'grid': g,
                                'rings': rings, 'pd': 1.2, 'hd': 30.0, 'wire': True, 'clr': 'tight'})
    return out


# flow rates (kg/s) of the positions of one type: laminar .. turbulent for the designs used here
CLONE_FLOWS = (0.02, 0.3, 4.0, 0.08, 1.1)


def _clone_scn(c, flows):
    n = c['rings']
    dsn = S.design(n, pd=c['pd'], hd=c['hd'], wire=c['wire'], clearance=c['clr'], oftf=0.012 * n + 0.03,
                   corr=(c['ff'], c['fs'], c['mix']), spacer=GRIDS[c['grid']],
                   lowfi={'model': 'simple'} if c['kind'] == 'lowfi' else None)
    pos = S.core_positions(2)[:len(flows)]
    assign = [['A', rg, p, {'flowrate': f}] for (rg, p), f in zip(pos, flows)]
    pw = {str(S.asm_id(rg, p) + 1): {'rings': n, 'nduct': 1, 'cells': [0.0, LENGTH], 'q': 200.0 * f,
                                     'pins': 'uniform'} for (rg, p), f in zip(pos, flows)}
    return {'setup': {}, 'core': {'inlet': 623.15, 'length': LENGTH, 'pitch': max(dsn['duct_ftf']) + 0.004,
                                  'gap_model': 'none', 'bypass_fraction': 0.0, 'coolant': COOLANT},
            'types': {'A': dsn}, 'assign': assign, 'power': {'asm': pw}}


def _corr_state(a):
    reg = a.region[0]
    rr = reg if reg.is_rodded else getattr(reg, 'rod_bundle', None) or getattr(reg, '_rr_equiv', None)
    if rr is None:
        for v in reg.__dict__.values():
            if hasattr(v, 'coolant_int_params') and hasattr(v, 'corr'):
                rr = v
                break
    st = {}
    for k in ('Re', 'fs', 'ff', 'Re_sc', 'vel', 'eddy', 'swirl'):
        if rr is not None and k in rr.coolant_int_params:
            st[k] = np.array(rr.coolant_int_params[k], dtype=float, copy=True).ravel()
    return st, rr


def run_clones(c):
    """five positions of one assembly type with flows from laminar to turbulent, built by the real Reactor:
    the Reynolds number, flow split, friction factor (and the other correlated parameters) each position
    holds after set-up must be those of a stand-alone Reactor with that flow (differential twin)"""
    r = new_result()
    V = r['violations']
    try:
        with S.Built(_clone_scn(c, CLONE_FLOWS)) as b:
            rx = b.reactor()
            got = [_corr_state(a) for a in rx.assemblies]
            flows = [float(a.flow_rate) for a in rx.assemblies]
        r['transitions'] += 1
    except (Exception, SystemExit) as e:
        V.append(violation('clones-setup-failed', c, '%s: %s' % (type(e).__name__, str(e)[:200]), site=site_of(e)))
        r['outcome'] = 'failed'
        return r
    for i, f in enumerate(flows):
        with S.Built(_clone_scn(c, [f])) as b:
            ref, rr0 = _corr_state(b.reactor().assemblies[0])
        r['transitions'] += 1
        st, rr = got[i]
        r['states'] += 1
        if rr is None or not st:
            V.append(violation('clones-no-state', dict(c, position=i), 'no correlated state found on the region'))
            continue
        for k in sorted(ref):
            if k not in st or st[k].shape != ref[k].shape or not np.array_equal(st[k], ref[k]):
                V.append(violation('clone-state-not-own', dict(c, position=i, field=k, flow=f),
                                   'position %d (flow %.3g kg/s): %s held after set-up is not that of a stand-alone '
                                   'assembly with the same flow' % (i, f, k),
                                   None if k not in st else st[k].tolist()[:3], ref[k].tolist()[:3], 0.0,
                                   site='region_unrodded.py:_RREquivalent.clone' if c['kind'] == 'lowfi'
                                   else 'region_rodded.py:RoddedRegion.clone'))
                break
    r['traces'] = 1
    r['nontrivial'] = r['states'] > 0
    r['outcome'] = 'ok' if not V else 'violations'
    return r


# ----------------------------------------------------------------------
def main(run):
    run.rule = ('every (friction, flow split, mixing) triple x design x spacer-grid x Reynolds level of '
                'the stated grids; one case = one parsed input + one constructed bundle, one state = one '
                'Reynolds level (clone + static parameters + update); a case is non-trivial when the bundle '
                'was constructed and at least one level was evaluated to the end; all cases are distinct inputs')
    run.assumptions = [
        'constant-property coolant (sodium_se2anl_425) so that Re is linear in the flow rate',
        'Cheng-Todreas subchannel friction constants Cf_i and the regime boundaries are read from the '
        "correlation's own functions; the split, intermittency and gradient formulas are recomputed in the harness",
        'SystemExit from DASSH_Input / region_rodded.make counts as a clean rejection (not accepted)']
    cs = cases(run.tier)
    run.check_determinism(run_case, cs[0],
                          project=lambda r: (r['outcome'], r['states'], r['transitions'], r.get('info')))
    results = run.explore('combos', cs, run_case, budget_s=120)
    run.explore('reader', reader_cases(run.tier), run_case, budget_s=120)
    run.explore('clones', clone_cases(run.tier), run_clones, budget_s=300, chunksize=1)
    run.explore('pair', pair_cases(run.tier), run_pair, budget_s=300, chunksize=1)
    # the summary table of dassh.out through which a user reads this property (vf/props/reports.py)
    from . import reports
    run.explore('report-flow', reports.cases_flow(run.tier), reports.run_flow, budget_s=300)
    # summaries
    w = {'closed': 0.0, 'iter': 0.0, 'bundle': 0.0, 'mass': 0.0, 'xdist': 0.0}
    crashed = set()
    accepted = set()
    probes = 0
    probes_crashed = 0
    for c, r in zip(cs, results):
        for k in w:
            w[k] = max(w[k], (r.get('worst') or {}).get(k, 0.0))
        if r['outcome'] not in ('rejected-reader', 'rejected-construct'):
            accepted.add((c['ff'], c['fs'], c['mix'], c['wire']))
        for v in r['violations']:
            if v['kind'].startswith('crash'):
                crashed.add((c['ff'], c['fs'], c['mix']))
                probes_crashed += len(v['scenario'].get('levels', [1]))
    run.notes['worst_spread_closed_form'] = w['closed']
    run.notes['worst_spread_iterated'] = w['iter']
    run.notes['worst_bundle_gradient_error'] = w['bundle']
    run.notes['worst_mass_error'] = w['mass']
    run.notes['worst_accepted_split_distance'] = w['xdist']
    run.notes['combinations_with_crash'] = len(crashed)
    run.notes['levels_crashed'] = probes_crashed
    run.notes['accepted_wire_combinations'] = len([a for a in accepted if a[3]])
    run.notes['accepted_bare_combinations'] = len([a for a in accepted if not a[3]])
    # vacuity
    ex = run.extra
    need = [('dpdz', 'laminar'), ('dpdz', 'transition'), ('dpdz', 'turbulent'), ('dpdz', 'grid')]
    for a, b in need:
        if not (ex.get(a) or {}).get(b):
            run.violations.append(dict(violation(
                'vacuous-alphabet', {'class': b}, 'no pressure-gradient check happened in class ' + b),
                part='combos'))
    for k in ('bundle_eq', 'exact_hits'):
        if not ex.get(k):
            run.violations.append(dict(violation(
                'vacuous-alphabet', {'class': k}, 'counter %s is zero' % k), part='combos'))


def pair_cases(tier):
    """a bundle and its 2:1 (4:1) scale model - or the same bundle with a thinner wire - evaluated one after the other in
    ONE process, in both orders: the
    correlations are functions of ratios, their constants are not (areas, 1/m boundaries) - whatever an earlier
    bundle leaves behind in the process must not reach the next one"""
    out = []
    ds = [d for d in designs('quick') if d['clr'] in ('tight', 'mid')][:4 if tier == 'quick' else 6]
    for d in ds:
        for fam in CT:
            for k in ((2.0,) if tier == 'quick' else (2.0, 4.0, 0.5)):
                for first in ('model', 'original'):
                    c = dict(d)
                    c.update({'probe': 'pair', 'grid': 'none', 'ff': fam, 'fs': fam, 'mix': fam, 'k': k, 'first': first})
                    out.append(c)
            if d['wire']:
                # and the same bundle with a wire of 3/4 (1/2) the diameter: same ring count, P/D, H/D and W/D
                for k in ((0.75,) if tier == 'quick' else (0.75, 0.5)):
                    for first in ('model', 'original'):
                        c = dict(d)
                        c.update({'probe': 'pair', 'how': 'wire', 'grid': 'none', 'ff': fam, 'fs': fam, 'mix': fam, 'k': k,
                                  'first': first})
                        out.append(c)
            # and the same pins in a duct 2 / 5 (20) micrometres wider: nearly, not exactly, the same ratios
            for k in ((2.0e-6, 5.0e-6) if tier == 'quick' else (2.0e-6, 5.0e-6, 2.0e-5)):
                for first in ('model', 'original'):
                    c = dict(d)
                    c.update({'probe': 'pair', 'how': 'near', 'grid': 'none', 'ff': fam, 'fs': fam, 'mix': fam, 'k': k,
                              'first': first, 'slot': 1 + sum(1 for x in out if x.get('how') == 'near')})
                    out.append(c)
    return out


def _flat(name, v, out):
    if isinstance(v, dict):
        for k_ in sorted(v, key=str):
            _flat(name + '.' + str(k_), v[k_], out)
    elif isinstance(v, (list, tuple)) and not all(isinstance(x, (int, float, np.number)) for x in v):
        for i, x in enumerate(v):
            _flat('%s[%d]' % (name, i), x, out)
    elif isinstance(v, (list, tuple, np.ndarray, int, float, np.number)) and not isinstance(v, bool):
        try:
            out[name] = np.asarray(v, dtype=float).tobytes()
        except (TypeError, ValueError):
            pass


def _constants_after(seq):
    """build the bundles of seq one after the other (real input file -> Reactor); -> every number of the LAST one's
    correlation constants and correlated parameters, flattened to bytes"""
    rr = None
    for cc in seq:
        with S.Built(scenario_of(cc)) as b:
            rr = b.reactor().assemblies[0].rodded
    out = {}
    _flat('corr_constants', rr.corr_constants, out)
    _flat('coolant_int_params', rr.coolant_int_params, out)
    return out


def run_near(c):
    """B built after its near twin A (the same pins in a duct a few micrometres narrower / wider) == B built alone, both
    in forked children of a worker that never builds either: every correlation constant bit for bit"""
    from .c16 import in_child
    r = new_result()
    V = r['violations']
    base = {k_: v for k_, v in c.items() if k_ not in ('probe', 'k', 'first', 'how', 'slot')}
    # every case has its own duct width (50 um apart): nothing any earlier case left in this worker is near it
    A = dict(base, ftf_add=c['slot'] * 5.0e-5)
    B = dict(base, ftf_add=c['slot'] * 5.0e-5 + c['k'])
    if c['first'] == 'original':
        A, B = B, A
    ref = in_child(_constants_after, [B], budget=120)
    got = in_child(_constants_after, [A, B], budget=120)
    r['states'], r['transitions'], r['traces'], r['nontrivial'] = 2, 3, 2, True
    if ref[0] != 'ok' or got[0] != 'ok':
        V.append(violation('near-construction', c, 'construction failed: %s / %s' % (ref[:3], got[:3])))
        r['outcome'] = 'failed'
        return r
    for k_ in sorted(ref[1]):
        if got[1].get(k_) != ref[1][k_]:
            a_ = np.frombuffer(ref[1][k_])
            b_ = np.frombuffer(got[1][k_]) if k_ in got[1] else a_ * np.nan
            dev = float(np.max(np.abs(a_ - b_))) if a_.shape == b_.shape else float('inf')
            V.append(violation('constants-depend-on-history', dict(c, field=k_),
                               '%s of a bundle built after its near twin (duct %.0f um apart) differs from the same '
                               'bundle built alone' % (k_, abs(c['k']) * 1e6), dev, 0.0, 0.0,
                               site='field:' + k_.split('[')[0]))
            break
    r['outcome'] = 'ok' if not V else 'violation'
    return r


def run_pair(c):
    if c.get('how') == 'near':
        return run_near(c)
    base = {k_: v for k_, v in c.items() if k_ not in ('probe', 'k', 'first', 'how')}
    other = dict(base, wire_scale=c['k']) if c.get('how') == 'wire' else \
        (dict(base, ftf_add=c['k']) if c.get('how') == 'near' else dict(base, scale=c['k']))
    seq = [other, base] if c['first'] == 'model' else [base, other]
    r = None
    for i, cc in enumerate(seq):
        ri = run_case(cc)
        for v in ri['violations']:
            v['scenario'] = dict(v.get('scenario') or {}, probe='pair', k=c['k'], first=c['first'], member=i)
        if r is None:
            r = ri
        else:
            r['violations'] += ri['violations']
            for key in ('states', 'transitions', 'traces'):
                r[key] = r.get(key, 0) + ri.get(key, 0)
            r['nontrivial'] = bool(r.get('nontrivial') and ri.get('nontrivial'))
    r['outcome'] = 'ok' if not r['violations'] else 'violations'
    return r


def replay(body):
    if str((body.get('scenario') or {}).get('probe', '')).startswith('report-'):
        from . import reports
        return reports.replay(body)
    if body['scenario'].get('probe') == 'pair':
        sc = {k_: v for k_, v in body['scenario'].items() if k_ not in ('member', 'level', 'scale', 'wire_scale', 'ftf_add')}
        r = guarded(run_pair, sc, 600)
        for v in r['violations']:
            print('VIOLATION property=C12 replay=(inline) kind=%s site=%s %s' % (v['kind'], v.get('site'), v['what']))
        print('outcome', r['outcome'])
        return 1 if r['violations'] else 0
    fn = run_clones if body['scenario'].get('probe') == 'clones' else run_case
    r = guarded(fn, body['scenario'], 600)
    for v in r['violations']:
        print('VIOLATION property=C12 replay=(inline) kind=%s site=%s %s'
              % (v['kind'], v.get('site'), v['what']))
        print('  observed=%s expected=%s tol=%s' % (str(v.get('observed'))[:200],
                                                    str(v.get('expected'))[:120], v.get('tolerance')))
    print('outcome', r['outcome'], r.get('info'))
    return 1 if r['violations'] else 0
