"""C16  Runs are repeatable: setup never mutates the input, serial = parallel.

Part A  `sequences`  operation sequences (deviation-bounded around the default
        history construct -> sweep -> postprocess of `_run_dassh`).  Inputs
        {plain, FuelModel, PinModel with user pin materials, hot-spot requests,
        AssemblyTables + dump all, three-assembly core with two types}, each
        with two time points (fuel: power_scaling_factor 0.8 without
        total_power; hotspot: OUTLET_TEMP, core2: one DELTA_TEMP assignment, so
        the flow rate follows the power of the time point), x EVERY sequence of exactly depth 3 (quick) / 4
        (thorough) over the alphabet
            c0     Reactor(inp, timestep=0, path=<own dir>, write_output=True)
            c1     the same for time point 1
            clone  inp.clone(), then Reactor(clone, timestep=0, ...)
            sweep  temperature_sweep() of the last constructed reactor
            post   postprocess() of it
        (`sweep` is enabled when the last reactor is unswept, `post` when it is
        swept and not yet post-processed; every prefix of a sequence is checked
        because the oracle runs after EVERY operation).
        Family `orif` (core2 with an [Orificing] section grouping type A, type R
        ungrouped) has the alphabet extended by the steps of the orificing
        driver on the real `dassh.orificing.Orificing(inp)` object, arguments
        derived the way the driver derives them:
            oparam  _setup_input_parametric(id, name, loc, power) for the first
                    grouped type + Reactor(<that input>, calc_power=False)
                    (run_parametric)
            operf   _setup_input_perfect() + Reactor of its time point 0
                    (run_dassh_perfect)
            oorif   group_by_power() once (one saved Reactor per time point
                    built from the base input: _get_power), then
                    _setup_input_orifice(flows) + Reactor of its time point 0
                    (run_dassh_orifice)
        (always enabled; they leave the "last constructed reactor" alone); it
        runs every sequence that contains at least one of them.  The same
        oracle follows: the BASE input deep-equals its parse snapshot (data and
        other attributes), the step succeeds, a later c0 / c1 / clone from the
        base input equals the fresh-process reference.
        Oracle after every operation:
          * `DASSH_Input.data` deep-equals the snapshot taken right after
            parsing (own deep comparison: nested dicts / lists / arrays; an
            object where a string / number was is a difference); the other
            attributes of the input object (path, timepoints, materials, ...)
            likewise;
          * every construction / sweep / postprocess succeeds;
          * a construction equals, field by field over the WHOLE Reactor object
            graph (z, dz, req_dz, min_dz, every array of every assembly /
            region / subchannel / power object, flow rates, powers, materials,
            options), the reference: the same time point built from a freshly
            parsed input in a fresh process; after `sweep` every array
            (temperatures included) is bit-identical (`==` on bytes) to the
            reference after its sweep; after `post` the object graph and the
            files of the working directory are identical.
Part B  `schedules`  real `dassh.__main__.run_dassh` on inputs with 1..4 time
        points (fuel: time points 2 and 3 name the SAME user power files as 0
        and 1): serial loop; `multiprocessing.Pool` replaced by a deterministic
        in-process pool that runs the submitted tasks in EVERY order
        (1 + 2 + 6 + 24; the tasks share the parsed input object and the
        interpreter); the real `Pool` with n_cpu = 1..4 through
        `python -m dassh` (fresh process: main -> run_dassh).  Every time point
        must have its own directory whose files are identical (the `Executed
        <timestamp>` line of dassh.out masked) to the time point run ONE AT A
        TIME (a single-time-point input with that power file, fresh process).
        `fresh2`: two fresh `python -m dassh` processes on one input give
        bit-identical dump files.
        `rerun`: `python -m dassh <input>` executed twice (thorough: three
        times) in the SAME directory, a fresh process each, for 1 and 2 time
        points; `rerun-inproc`: `run_dassh` called as often in one interpreter
        on the same parsed input and directory.  After every execution the set
        of files and every file's bytes (timestamp line masked) must equal
        those after the first execution.  `core2` requests every dump flag of
        the template (coolant, duct, pins, gap, gap_fine, average, maximum,
        pressure_drop; flowing gap, two duct meshes, FuelModel), `tables`
        requests `all` + `interval`; the check fails itself when one of the
        eight dump files was never written non-empty and compared in a rerun.

Every piece of dassh code runs in a forked child (or subprocess) of a worker
that itself never executes dassh: each reference, each sequence, each schedule
starts from a pristine interpreter, so module-level state cannot leak from one
case (or from the reference) into another.  A worker keeps the references it
has obtained (they are deterministic products of a pristine process); their
work is not counted in states / transitions.

Counting: states = input snapshots compared (one per operation + the parsed
one) + axial steps of the sweeps of the sequence; per schedule: time-point
directories compared.  transitions = operations / time-point tasks executed.
traces = sequences resp. schedules executed completely and compared.

Flat scenario fields for known-finding matching: part, family, history
('c0>sweep>c1'), depth | ntp, mode, workers, orderstr; on a violation also
`at` (index of the operation), `op`, `prefix` (history up to and including it).
Kinds: input-mutated / input-attr-mutated (site = mutated path, user-chosen
names replaced by `*`), construction-failed, sweep-failed, postprocess-failed,
orificing-step-failed (site = exception@file:function), model-differs, result-differs,
postprocess-differs, files-differ, rerun-files-differ, run-failed, directory-missing,
directory-unexpected, reference-failed, hang.
"""
import hashlib
import itertools
import os
import pickle
import re
import shutil
import signal
import subprocess
import tempfile

import numpy as np

from ..run import new_result, violation, site_of, guarded, Hang
from .. import scenario as S
from .. import REPO

PY = '/venv/bin/python'
RX_ARGS = {'save_reactor': False, 'verbose': False, 'no_power_calc': True}
FAMILIES = ['plain', 'fuel', 'pin', 'pinclad', 'hotspot', 'tables', 'core2', 'orif']
# `orif` carries an [Orificing] section: `python -m dassh` would start the whole
# optimisation on it, so it takes part in the operation sequences only
SCHEDULE_FAMILIES = [f for f in FAMILIES if f != 'orif']
OPS = ['c0', 'c1', 'clone', 'sweep', 'post']
ORIF_OPS = ['oparam', 'operf', 'oorif']      # only for the family `orif`
PARAM_POWER = 30000.0     # W, "average power of the assembly type" handed to oparam
DEFAULT_HISTORY = ['c0', 'sweep', 'post']
CHILD_BUDGET = 120


# ======================================================================
# inputs (tiny: 7-pin bundles, 0.1 m core, 10 axial steps)
FUELMODEL = {'clad_material': 'ht9_se2anl_425', 'gap_material': 'sodium_se2anl_425',
             'gap_thickness': 0.0, 'r_frac': [0.0, 0.33333, 0.66667],
             'pu_frac': [0.2, 0.2, 0.2], 'zr_frac': [0.1, 0.1, 0.1],
             'porosity': [0.1, 0.1, 0.1]}
PINMODEL = {'clad_material': 'ht9_se2anl_425', 'r_frac': [0.0, 0.5],
            'pin_material': ['ox_a', 'ox_b'], 'gap_material': 'sodium_se2anl_425',
            'gap_thickness': 0.0001}
PINMATS = {'ox_a': {'thermal_conductivity': [3.0]},
           'ox_b': {'thermal_conductivity': [4.0, 0.001]}}
HOTSPOT = {'hs_cool': {'temperature': 'coolant', 'subfactors': 'fftf_clad_mw',
                       'input_sigma': 3, 'output_sigma': 2},
           'hs_clad': {'temperature': 'clad_mw', 'subfactors': 'crbr_fuel_clad_mw'},
           'hs_fuel': {'temperature': 'fuel_cl', 'subfactors': 'fftf_fuel_cl'},
           # a location whose peak-pin table is not among those written by default
           'hs_clod': {'temperature': 'clad_od', 'subfactors': 'crbr_blanket_clad_mw'}}
DUMP_FLAGS = ['coolant', 'duct', 'pins', 'gap', 'gap_fine', 'average', 'maximum',
              'pressure_drop']
# the files these flags produce (no bypass gap in the enumerated bundles)
DUMP_FILES = ['temp_coolant_int.csv', 'temp_duct_mw.csv', 'temp_pin.csv',
              'temp_coolant_gap.csv', 'temp_coolant_gap_fine.csv', 'temp_average.csv',
              'temp_maximum.csv', 'pressure_drop.csv']
SHAPES = [('tilt', ['up', 'down']), ('asym', ['mid', 'up']),
          ('uniform', ['down', 'ends']), ('asym', ['cubic', 'flat'])]


def _power(t, scale=1.0, seed=0):
    """user power of time point t (differs from every other time point in
    level, radial shape and axial shape)"""
    pins, ax = SHAPES[t % 4]
    return {'rings': 2, 'nduct': 1, 'cells': [0.0, 0.05, 0.1],
            'q': 4000.0 * scale * (1.0 + 0.25 * t), 'pins': pins, 'duct': 'uniform',
            'cool': 'uniform', 'axial': ax, 'seed': seed + t, 'order': 3}


def power_index(family, t):
    """which power distribution time point t of a family uses.  The `fuel`
    family has only two distributions: its time points 2 and 3 name the SAME
    user power files as 0 and 1 (user_power = power_0.csv, power_1.csv,
    power_0.csv, power_1.csv), so one file is read by several time points."""
    return t % 2 if family == 'fuel' else t


def scenario(family, ntp, first_tp=0, parallel=None, n_cpu=None):
    """input of a family with the time points first_tp .. first_tp + ntp - 1.
    Besides the model options the families differ in
      fuel     power_scaling_factor = 0.8 (no total_power normalisation), power
               files shared between time points (see power_index), assemblies
               numbered from 0 in the power files;
      hotspot  boundary condition OUTLET_TEMP (flow rate derived from the power
               of the time point);
      core2    one assembly with DELTA_TEMP, two with FLOWRATE;
      orif     core2 with FLOWRATE everywhere plus an [Orificing] section that
               groups the two assemblies of type A (type R is not grouped)."""
    setup = {'axial_mesh_size': 0.01}
    kw = {}
    mats = None
    if family == 'fuel':
        kw['fuelmodel'] = dict(FUELMODEL)
    elif family in ('pin', 'pinclad'):
        kw['pinmodel'] = dict(PINMODEL)
        if family == 'pinclad':
            # the clad film correlation given by the user (nothing for make() to fill in)
            kw['pinmodel']['htc_params_clad'] = [0.023, 0.8, 0.4, 7.0]
        mats = PINMATS
        # a user film correlation for the duct wall with an exponent above one (a list that lives in the input)
        kw['htc_params_duct'] = [0.0005, 1.05, 0.8, 7.0]
    elif family == 'hotspot':
        # film coefficient given: the hot-spot family does not rely on the
        # default that make() computes
        kw['fuelmodel'] = dict(FUELMODEL, htc_params_clad=[0.023, 0.8, 0.4, 7.0])
        kw['hotspot'] = HOTSPOT
    elif family == 'tables':
        setup.update({
            # the third plane lies 0.4 um above a power-cell boundary (a sliver step, legitimate)
            'axial_plane': [0.033, 0.071, 0.0500004],
            'Dump': {'all': True, 'interval': 0.02},
            'AssemblyTables': {
                'cool_tab': {'type': 'coolant_subchannel', 'assemblies': [1],
                             'axial_positions': [0.033, 0.1]},
                'duct_tab': {'type': 'duct_mw', 'assemblies': [1],
                             'axial_positions': [0.05]}}})
    elif family == 'core2':
        # every dump file there is, flag by flag (`tables` uses `all` + interval),
        # on a core with a flowing gap and two different duct meshes
        setup['Dump'] = {k: True for k in DUMP_FLAGS}
        kw['fuelmodel'] = dict(FUELMODEL)        # rows in temp_pin.csv
    elif family == 'orif':
        setup['Dump'] = {'average': True, 'maximum': True, 'gap': True}
    d = S.design(2, pd=1.2, hd=30, oftf=0.03, **kw)
    tps = list(range(first_tp, first_tp + ntp))
    idx = [power_index(family, t) for t in tps]
    dist = sorted(set(idx))            # distinct power distributions = files
    scn = S.single(d, 0.15, length=0.1, power=None, setup=setup)
    if family == 'hotspot':
        # 2.9 kW * (1 + 0.25 t) over 26.85 K: 0.086 kg/s at time point 0
        scn['assign'] = [['A', 1, 1, {'outlet_temp': 650.0}]]
    if family in ('core2', 'orif'):
        refl = S.design(2, pd=1.1, hd=20, oftf=0.03, clearance='loose',
                        lowfi={'model': 'simple', 'convection_factor': 0.8})
        scn['types'] = {'A': d, 'R': refl}
        # conducting duct walls limit the step to ~1.3e-2 m per kg/s: ten times
        # the flow (and power) of the single-assembly families keeps 10 steps
        scn['assign'] = [['A', 1, 1, {'flowrate': 1.5}],
                         ['R', 2, 1, {'flowrate': 0.5}],
                         ['A', 2, 2, {'delta_temp': 15.0}]]   # 1.2 kg/s at tp 0
        if family == 'orif':
            scn['assign'][2][3] = {'flowrate': 1.2}
            scn['orificing'] = {'assemblies_to_group': ['A'], 'n_groups': 2,
                                'value_to_optimize': 'peak coolant temp',
                                'bulk_coolant_temp': 650.0, 'iteration_limit': 2}
        scn['core']['gap_model'] = 'flow'
        scn['core']['bypass_fraction'] = 0.3
        asm = {'1': [_power(t, 10.0) for t in dist],
               '2': [_power(t, 1.0, 5) for t in dist],
               '3': [_power(t, 8.0, 9) for t in dist]}
    else:
        asm = {'1': [_power(t) for t in dist]}
    scn['power'] = {'asm': asm, 'timepoints': len(dist)}
    if family == 'fuel':
        scn['power']['scaling'] = 0.8
        scn['power']['base0'] = True       # and its files number the assemblies from 0
    # one entry per time point; several time points may name one file
    scn['user_power'] = ['power_%d.csv' % dist.index(i) for i in idx]
    if mats:
        scn['materials'] = mats
    if parallel is not None:
        scn['setup']['parallel'] = parallel
    if n_cpu is not None:
        scn['setup']['n_cpu'] = n_cpu
    return scn


_USER_POWER = re.compile(r'^(\s*user_power\s*=).*$', re.M)


def build(scn):
    """S.Built + the user_power line of the input rewritten to scn['user_power']
    (the builder writes one CSV per distinct distribution)"""
    b = S.Built(scn)
    names = scn.get('user_power')
    if names:
        b.text, n = _USER_POWER.subn(lambda m: m.group(1) + ' ' + ', '.join(names), b.text)
        assert n == 1, 'harness: user_power line not found'
        with open(b.path, 'w') as f:
            f.write(b.text)
    return b


# ======================================================================
# deep freeze / deep comparison
_PLAIN = (type(None), bool, int, float, str)
SKIP_ATTR = {'_logger', '_starttime'}
# run-time scratch of the dump writer inside Reactor._options['dump'] (open file
# handles, paths, the running interval counter); its effect is the files, which
# are compared after `post`
DUMP_SCRATCH = {'dz', 'names', 'paths', 'cols', 'files'}


class Freezer(object):
    """object graph -> nested plain structure that pickles and compares:
    ('dict', {k: ..}) ('list', [..]) ('tuple', [..]) ('nd', array)
    ('obj', 'module.Class', {attr: ..}) ('float', hex) ('int', n) ('str', s)"""

    def __init__(self, bdir=None, reactor_rules=False):
        self.bdir = bdir
        self.rx = None
        if bdir:
            self.rx = re.compile(re.escape(bdir) + r'(/w_\w+|/timestep_\d+)?')
        self.reactor_rules = reactor_rules

    def s(self, x):
        return self.rx.sub('<dir>', x) if self.rx else x

    def freeze(self, o, stack=(), key=None, parent=None):
        if o is None:
            return ('none',)
        if isinstance(o, (bool, np.bool_)):
            return ('bool', bool(o))
        if isinstance(o, (int, np.integer)):
            return ('int', int(o))
        if isinstance(o, (float, np.floating)):
            return ('float', float(o).hex())
        if isinstance(o, str):
            return ('str', self.s(o))
        if isinstance(o, bytes):
            return ('bytes', o)
        if id(o) in stack:
            return ('cycle',)
        stack = stack + (id(o),)
        if isinstance(o, np.ndarray):
            if o.dtype == object:
                return ('ndobj', list(o.shape),
                        [self.freeze(x, stack) for x in o.ravel().tolist()])
            return ('nd', np.array(o, copy=True))
        if isinstance(o, dict):
            out = {}
            for k, v in o.items():
                if (self.reactor_rules and parent == '_options' and key == 'dump'
                        and k in DUMP_SCRATCH):
                    continue
                kk = k if isinstance(k, str) else repr(k)
                out[kk] = self.freeze(v, stack, kk, key)
            return ('dict', out)
        if isinstance(o, (list, tuple)):
            return ('list' if isinstance(o, list) else 'tuple',
                    [self.freeze(x, stack, key, parent) for x in o])
        if isinstance(o, (set, frozenset)):
            return ('set', sorted(repr(x) for x in o))
        tn = '%s.%s' % (type(o).__module__, type(o).__qualname__)
        if isinstance(o, type):
            return ('type', '%s.%s' % (o.__module__, o.__qualname__))
        if type(o).__name__ == 'module':
            return ('module', o.__name__)
        if tn.startswith('logging.'):
            return ('logger',)
        if hasattr(o, 'read') and hasattr(o, 'close'):
            return ('file', 'closed' if getattr(o, 'closed', False) else 'open')
        if callable(o) and not hasattr(o, '__dict__'):
            return ('fn', getattr(o, '__qualname__', tn))
        if callable(o) and type(o).__name__ in ('function', 'method',
                                                'builtin_function_or_method'):
            return ('fn', getattr(o, '__qualname__', tn))
        d = getattr(o, '__dict__', None)
        if d is None:
            return ('opaque', tn)
        out = {}
        for k, v in d.items():
            if k in SKIP_ATTR:
                continue
            out[k] = self.freeze(v, stack, k, key)
        return ('obj', tn, out)


def _short(f, n=160):
    """readable description of a frozen node"""
    t = f[0]
    if t == 'nd':
        a = f[1]
        return 'array%s %s %s' % (list(a.shape), a.dtype,
                                  np.array2string(a.ravel()[:4], precision=17))
    if t == 'obj':
        return '<%s object>' % f[1]
    if t == 'float':
        return repr(float.fromhex(f[1]))
    if t in ('dict',):
        return 'dict with keys %s' % sorted(f[1])[:12]
    if t in ('list', 'tuple'):
        return ('%s[%d] ' % (t, len(f[1])) + ', '.join(_short(x, 40) for x in f[1][:4]))[:n]
    if len(f) > 1:
        return repr(f[1])[:n]
    return t


def diffs(a, b, path='', out=None, limit=40):
    """all paths where the frozen trees a (expected) and b (observed) differ:
    [(path, description of a, description of b)], depth first, sorted keys"""
    if out is None:
        out = []
    if len(out) >= limit:
        return out
    if a[0] != b[0]:
        out.append((path, _short(a), _short(b)))
        return out
    t = a[0]
    if t == 'dict' or t == 'obj':
        if t == 'obj' and a[1] != b[1]:
            out.append((path, _short(a), _short(b)))
            return out
        da, db = a[-1], b[-1]
        sep = '/' if t == 'dict' else '.'
        for k in sorted(set(da) | set(db)):
            p = (path + sep + k) if path else k
            if k not in db:
                out.append((p, _short(da[k]), '(absent)'))
            elif k not in da:
                out.append((p, '(absent)', _short(db[k])))
            else:
                diffs(da[k], db[k], p, out, limit)
            if len(out) >= limit:
                break
        return out
    if t in ('list', 'tuple', 'ndobj'):
        la, lb = a[-1], b[-1]
        if len(la) != len(lb) or (t == 'ndobj' and a[1] != b[1]):
            out.append((path, _short(a), _short(b)))
            return out
        for i, (x, y) in enumerate(zip(la, lb)):
            diffs(x, y, '%s[%d]' % (path, i), out, limit)
            if len(out) >= limit:
                break
        return out
    if t == 'nd':
        x, y = a[1], b[1]
        if x.dtype != y.dtype or x.shape != y.shape:
            out.append((path, _short(a), _short(b)))
        elif x.tobytes() != y.tobytes():
            try:
                neq = ~((x == y) | ((x != x) & (y != y)))
                n = int(np.count_nonzero(neq))
                i = int(np.flatnonzero(neq.ravel())[0]) if n else -1
                d = float(np.nanmax(np.abs(x.astype(float) - y.astype(float))))
                out.append((path, '%r at flat index %d' % (x.ravel()[i].item(), i),
                            '%r (%d of %d elements differ, max |diff| %.3g)'
                            % (y.ravel()[i].item(), n, x.size, d)))
            except (TypeError, ValueError):
                out.append((path, _short(a), _short(b)))
        return out
    if a != b:
        out.append((path, _short(a), _short(b)))
    return out


_IDX = re.compile(r'\[\d+\]')


def norm_path(p, names=()):
    """site of a path: list indices dropped, user-chosen names -> '*'"""
    p = _IDX.sub('', p)
    parts = re.split(r'([/.])', p)
    for i in range(0, len(parts), 2):
        if parts[i] in names:
            parts[i] = '*'
    return ''.join(parts)


def digest(f):
    h = hashlib.sha1()

    def walk(x):
        t = x[0]
        h.update(t.encode())
        if t == 'nd':
            h.update(str(x[1].dtype).encode() + str(x[1].shape).encode() + x[1].tobytes())
        elif t in ('dict', 'obj'):
            if t == 'obj':
                h.update(x[1].encode())
            for k in sorted(x[-1]):
                h.update(k.encode())
                walk(x[-1][k])
        elif t in ('list', 'tuple', 'ndobj'):
            for y in x[-1]:
                walk(y)
        elif len(x) > 1:
            h.update(repr(x[1]).encode())
    walk(f)
    return h.hexdigest()[:12]


# ======================================================================
# process isolation
def _child_alarm(signum, frame):
    raise Hang('child budget exceeded')


def in_child(fn, *args, **kw):
    """run fn(*args) in a forked child; -> ('ok', value) | ('exc', type, msg,
    site) | ('died', status).  The caller (a pool worker or the parent of the
    run) never executes dassh itself and stays pristine."""
    budget = kw.pop('budget', CHILD_BUDGET)
    rfd, wfd = os.pipe()
    pid = os.fork()
    if pid == 0:
        status = 1
        try:
            os.close(rfd)
            signal.signal(signal.SIGALRM, _child_alarm)
            signal.setitimer(signal.ITIMER_REAL, budget)
            try:
                res = ('ok', fn(*args))
            except BaseException as e:       # SystemExit included
                signal.setitimer(signal.ITIMER_REAL, 0)
                res = ('exc', type(e).__name__, str(e)[:300], site_of(e))
            signal.setitimer(signal.ITIMER_REAL, 0)
            with os.fdopen(wfd, 'wb') as f:
                pickle.dump(res, f, protocol=4)
            status = 0
        finally:
            os._exit(status)
    os.close(wfd)
    try:
        with os.fdopen(rfd, 'rb') as f:
            data = f.read()
        _, st = os.waitpid(pid, 0)
    except BaseException:
        try:
            os.kill(pid, signal.SIGKILL)
            os.waitpid(pid, 0)
        except OSError:
            pass
        raise
    if not data:
        return ('died', st)
    return pickle.loads(data)


class CaseDir(object):
    """private directory of one case; children build their inputs below it"""

    def __enter__(self):
        self.old = os.environ.get('VERIF_TMP')
        base = self.old or ('/dev/shm' if os.access('/dev/shm', os.W_OK) else None)
        self.root = tempfile.mkdtemp(prefix='c16_', dir=base)
        os.environ['VERIF_TMP'] = self.root
        return self

    def __exit__(self, *a):
        if self.old is None:
            os.environ.pop('VERIF_TMP', None)
        else:
            os.environ['VERIF_TMP'] = self.old
        shutil.rmtree(self.root, ignore_errors=True)
        return False


_EXECUTED = re.compile(rb'^Executed [^\n]*$', re.M)


def collect(d, bdir=None, skip=()):
    """{relative file name: content} of a directory (recursive), wall-clock
    lines masked: the `Executed <timestamp>` line of dassh.out"""
    out = {}
    for root, dirs, files in os.walk(d):
        dirs.sort()
        for f in sorted(files):
            p = os.path.join(root, f)
            rel = os.path.relpath(p, d)
            if rel in skip or f == 'dassh.log':
                continue
            with open(p, 'rb') as fh:
                data = fh.read()
            if f.endswith('.out') or f.endswith('.txt'):
                data = _EXECUTED.sub(b'Executed <masked>', data)
                if bdir:
                    data = data.replace(bdir.encode(), b'<dir>')
            out[rel] = data
    return out


def file_diff(exp, got):
    """first difference of two file dictionaries -> (where, expected, observed)"""
    if sorted(exp) != sorted(got):
        return ('file names', sorted(exp), sorted(got))
    for k in sorted(exp):
        if exp[k] != got[k]:
            la = exp[k].split(b'\n')
            lb = got[k].split(b'\n')
            for i in range(max(len(la), len(lb))):
                x = la[i] if i < len(la) else b'(end of file)'
                y = lb[i] if i < len(lb) else b'(end of file)'
                if x != y:
                    return ('%s line %d' % (k, i + 1),
                            x.decode('utf-8', 'replace')[:200],
                            y.decode('utf-8', 'replace')[:200])
    return None


# ======================================================================
# Part A
def sequences(depth, ops=None):
    ops = ops or OPS
    out = []

    def rec(seq, has, swept, posted):
        if len(seq) == depth:
            out.append(seq)
            return
        for op in ops:
            if op in ORIF_OPS:      # do not touch the last constructed reactor
                rec(seq + [op], has, swept, posted)
            elif op in ('c0', 'c1', 'clone'):
                rec(seq + [op], True, False, False)
            elif op == 'sweep' and has and not swept:
                rec(seq + [op], True, True, False)
            elif op == 'post' and has and swept and not posted:
                rec(seq + [op], True, True, True)
    rec([], False, False, False)
    return out


def departures(seq):
    """distance from the default history (positions that differ)"""
    return sum(1 for i, op in enumerate(seq)
               if i >= len(DEFAULT_HISTORY) or op != DEFAULT_HISTORY[i])


def cases_sequences(tier):
    depth = 3 if tier == 'quick' else 4
    out = []
    for fam in FAMILIES:
        ops = OPS + ORIF_OPS if fam == 'orif' else OPS
        seqs = sorted(sequences(depth, ops), key=lambda s: (departures(s), s))
        if fam == 'orif':
            # every sequence without an orificing step is the core2 alphabet on
            # an input that differs only by the (unused) section: keep those
            # with at least one orificing step
            seqs = [s for s in seqs if any(op in ORIF_OPS for op in s)]
        for s in seqs:
            out.append({'part': 'sequences', 'family': fam, 'ops': s,
                        'history': '>'.join(s), 'depth': depth,
                        'departures': departures(s)})
    return out


def _construct(inp, wd, tp):
    """as dassh.__main__._run_dassh does"""
    import dassh
    return dassh.Reactor(inp, calc_power=RX_ARGS['no_power_calc'], path=wd,
                         timestep=tp, write_output=True)


ORIF_DOC = {
    'oparam': 'Orificing._setup_input_parametric for the first grouped type, then '
              'Reactor(<that input>, calc_power=False) as run_parametric does',
    'operf': 'Orificing._setup_input_perfect, then the Reactor of its time point 0',
    'oorif': 'Orificing.group_by_power (one saved Reactor per time point from the base '
             'input, once), _setup_input_orifice(flow per grouped assembly), then the '
             'Reactor of its time point 0 as run_dassh_orifice does'}


def _orificing(inp):
    import dassh.orificing
    return dassh.orificing.Orificing(inp)


def _orificing_step(orf, inp, op, wd):
    """one step of the orificing driver on the real object; every argument is
    derived from the parsed input / the object the way the driver derives it"""
    import dassh
    if op == 'oparam':
        name = orf.orifice_input['assemblies_to_group'][0]
        pos = inp.data['Assignment']['ByPosition']
        i = [j for j, k in enumerate(pos) if k and k[0] == name][0]
        d = orf._setup_input_parametric(i, name, tuple(pos[i][1][:2]), PARAM_POWER)
        return dassh.Reactor(d, calc_power=False)
    if op == 'operf':
        d = orf._setup_input_perfect()
        return _construct(d, wd, 0)
    if not hasattr(orf, 'group_data'):
        orf.group_by_power()
    n = orf.group_data.shape[0]
    d = orf._setup_input_orifice(np.array([1.0 + 0.2 * j for j in range(n)]))
    d.path = wd
    return _construct(d, wd, 0)


def _freeze_input(inp, fz):
    data = fz.freeze(inp.data)
    attrs = fz.freeze({k: v for k, v in vars(inp).items() if k != 'data'})
    return data, attrs


def _reference_child(family, tp):
    """time point tp of a family built, swept and post-processed from a freshly
    parsed input in a fresh interpreter"""
    with build(scenario(family, 2)) as b:
        fz = Freezer(b.dir, reactor_rules=True)
        inp = b.inp()
        wd = os.path.join(b.dir, 'w_ref')
        rx = _construct(inp, wd, tp)
        out = {'model': fz.freeze(rx)}
        rx.temperature_sweep(verbose=RX_ARGS['verbose'])
        out['swept'] = fz.freeze(rx)
        rx.postprocess()
        out['posted'] = fz.freeze(rx)
        out['files'] = collect(wd, b.dir)
        out['steps'] = int(len(rx.z) - 1)
    return out


def _names_of(inp):
    names = set(inp.data['Assembly'].keys()) | set(inp.materials.keys())
    names |= set((inp.data.get('Materials') or {}).keys())
    at = inp.data['Setup'].get('AssemblyTables')
    if at:
        names |= set(at.keys())
    for a in inp.data['Assembly']:
        hs = inp.data['Assembly'][a].get('Hotspot')
        if hs:
            names |= set(hs.keys())
    return names


def _sequence_child(c, refs):
    r = new_result()
    ops = c['ops']
    ex = {'ops': {}, 'input_state': {}, 'constructions': {}, 'mutated_path': {}}
    r['extra'] = ex

    def bump(k, key, n=1):
        ex[k][key] = ex[k].get(key, 0) + n

    seen = set()

    def flag(kind, i, what, obs=None, exp=None, site=None):
        if (kind, site) in seen:
            return
        seen.add((kind, site))
        sc = dict(c, at=i, op=ops[i], prefix='>'.join(ops[:i + 1]))
        r['violations'].append(violation(
            kind, sc, '%s input, after operation %d of %s: %s'
            % (c['family'], i + 1, ' > '.join(ops), what), obs, exp, None, site))

    with build(scenario(c['family'], 2)) as b:
        fz = Freezer(b.dir)
        fzr = Freezer(b.dir, reactor_rules=True)
        inp = b.inp()
        names = _names_of(inp)
        snap_data, snap_attr = _freeze_input(inp, fz)
        r['states'] += 1
        bump('input_state', c['family'] + ':parsed:' + digest(snap_data))
        last = None
        n_built = 0
        orf = None
        for i, op in enumerate(ops):
            bump('ops', op)
            if op in ORIF_OPS:
                wd = os.path.join(b.dir, 'w_%d' % i)
                try:
                    if orf is None:
                        orf = _orificing(inp)
                    _orificing_step(orf, inp, op, wd)
                except (KeyboardInterrupt, Hang):
                    raise
                except BaseException as e:
                    flag('orificing-step-failed', i,
                         '%s (%s) raised %s: %s' % (op, ORIF_DOC[op], type(e).__name__,
                                                    str(e)[:200]),
                         type(e).__name__, 'completes', site_of(e))
                else:
                    r['transitions'] += 1
                n_built += 1
            elif op in ('c0', 'c1', 'clone'):
                tp = 1 if op == 'c1' else 0
                wd = os.path.join(b.dir, 'w_%d' % i)
                src = inp
                try:
                    if op == 'clone':
                        src = inp.clone()
                        pre_clone = fz.freeze(src.data)
                    rx = _construct(src, wd, tp)
                except (KeyboardInterrupt, Hang):
                    raise
                except BaseException as e:
                    flag('construction-failed', i,
                         'construction number %d from this input object (time point %d%s) '
                         'raised %s: %s' % (n_built + 1, tp,
                                            ', from a clone' if op == 'clone' else '',
                                            type(e).__name__, str(e)[:200]),
                         type(e).__name__, 'Reactor', site_of(e))
                    bump('constructions', 'failed')
                else:
                    r['transitions'] += 1
                    bump('constructions', 'first' if n_built == 0 else 'from-used-input')
                    if any(o in ORIF_OPS for o in ops[:i]):
                        bump('constructions', 'after-orificing-step')
                    last = {'rx': rx, 'tp': tp, 'swept': False, 'posted': False, 'wd': wd}
                    for p, e_, o_ in diffs(refs[tp]['model'], fzr.freeze(rx))[:6]:
                        flag('model-differs', i,
                             'Reactor for time point %d differs from the one built from a '
                             'fresh input at %s' % (tp, p), o_, e_, 'model:' + norm_path(p, names))
                    if op == 'clone':
                        for p, e_, o_ in diffs(pre_clone, fz.freeze(src.data)):
                            bump('mutated_path', norm_path(p, names))
                            flag('input-mutated', i,
                                 'construction changed the (cloned) input at %s' % p,
                                 o_, e_, 'data:' + norm_path(p, names))
                n_built += 1
            elif op in ('sweep', 'post'):
                ok = (last is not None and not last['posted']
                      and last['swept'] == (op == 'post'))
                if not ok:     # only after an earlier failure
                    bump('ops', 'not-enabled-after-failure')
                else:
                    rx, tp = last['rx'], last['tp']
                    try:
                        if op == 'sweep':
                            rx.temperature_sweep(verbose=RX_ARGS['verbose'])
                            last['swept'] = True
                        else:
                            rx.postprocess()
                            last['posted'] = True
                    except (KeyboardInterrupt, Hang):
                        raise
                    except BaseException as e:
                        flag('sweep-failed' if op == 'sweep' else 'postprocess-failed', i,
                             '%s of the time point %d reactor raised %s: %s'
                             % (op, tp, type(e).__name__, str(e)[:200]),
                             type(e).__name__, 'completes', site_of(e))
                        last = None
                    else:
                        r['transitions'] += 1
                        r['states'] += int(len(rx.z) - 1) if op == 'sweep' else 0
                        ref = refs[tp]['swept' if op == 'sweep' else 'posted']
                        kind = 'result-differs' if op == 'sweep' else 'postprocess-differs'
                        for p, e_, o_ in diffs(ref, fzr.freeze(rx))[:6]:
                            flag(kind, i, 'after %s the time point %d reactor differs from '
                                 'the reference run (fresh input, fresh process) at %s'
                                 % (op, tp, p), o_, e_, 'model:' + norm_path(p, names))
                        if op == 'post':
                            fd = file_diff(refs[tp]['files'], collect(last['wd'], b.dir))
                            if fd:
                                flag('files-differ', i, 'output files of the time point %d '
                                     'reactor differ from the reference run: %s' % (tp, fd[0]),
                                     fd[2], fd[1], 'file:' + fd[0].split(' line')[0])
            # --- the input after this operation
            cur_data, cur_attr = _freeze_input(inp, fz)
            r['states'] += 1
            bump('input_state', c['family'] + ':' + digest(cur_data))
            for p, e_, o_ in diffs(snap_data, cur_data):
                if ('input-mutated', 'data:' + norm_path(p, names)) not in seen:
                    bump('mutated_path', norm_path(p, names))
                flag('input-mutated', i, 'DASSH_Input.data differs from the snapshot taken '
                     'after parsing at %s' % p, o_, e_, 'data:' + norm_path(p, names))
            for p, e_, o_ in diffs(snap_attr, cur_attr):
                flag('input-attr-mutated', i, 'DASSH_Input attribute differs from its value '
                     'after parsing at %s' % p, o_, e_, 'attr:' + norm_path(p, names))
    r['traces'] = 1
    r['nontrivial'] = True
    r['key'] = c['family'] + ':' + c['history']
    r['outcome'] = 'ok' if not r['violations'] else \
        'violated:' + '+'.join(sorted({v['kind'] for v in r['violations']}))
    r['info'] = {'steps_per_sweep': refs[0]['steps'],
                 'kinds': sorted({v['kind'] + '@' + str(v['site']) for v in r['violations']})}
    return r


# references are deterministic products of a pristine child process; a worker
# keeps the ones it has already obtained (the worker itself never runs dassh)
_REF_CACHE = {}


def reference(kind, family, tp):
    k = (kind, family, tp)
    if k not in _REF_CACHE:
        res = in_child(_reference_child if kind == 'A' else _single_child, family, tp)
        if res[0] != 'ok':
            return res
        _REF_CACHE[k] = res
    return _REF_CACHE[k]


def _unwrap(res, c, r, what, kind='reference-failed'):
    """child result -> value, or None with a violation recorded"""
    if res[0] == 'ok':
        return res[1]
    if res[0] == 'exc':
        k = 'hang' if res[1] == 'Hang' else kind
        r['violations'].append(violation(
            k, c, '%s raised %s: %s' % (what, res[1], res[2]), res[1], 'completes',
            None, res[3]))
    else:
        r['violations'].append(violation(
            kind, c, '%s: child process died (status %r)' % (what, res[1]),
            site='died'))
    return None


def run_sequence(c):
    r = new_result()
    with CaseDir():
        refs = {}
        for tp in (0, 1):
            v = _unwrap(reference('A', c['family'], tp), c, r,
                        'reference run of time point %d (fresh input, fresh process)' % tp)
            if v is None:
                r['outcome'] = 'reference-failed'
                return r
            refs[tp] = v
        res = in_child(_sequence_child, c, refs)
    if res[0] != 'ok':
        _unwrap(res, c, r, 'operation sequence (harness level)', 'unexpected-exception')
        r['outcome'] = 'EXC'
        return r
    # (the work of the reference runs is not counted: a worker reuses them)
    return res[1]


# ======================================================================
# Part B
class _Handle(object):
    def __init__(self, pool, k):
        self.pool, self.k = pool, k

    def get(self, timeout=None):
        self.pool.run_all()
        if self.k in self.pool.errors:
            raise self.pool.errors[self.k]
        return self.pool.results[self.k]


class OrderedPool(object):
    """deterministic in-process stand-in for multiprocessing.Pool: collects the
    submitted tasks and runs them, at the first `get`, in the given order; the
    arguments are NOT copied (tasks share the parsed input and the interpreter).
    As with the real pool a failing task does not stop the others; its
    exception is raised by `get`."""
    log = None

    def __init__(self, order, processes=None):
        self.order = list(order)
        self.processes = processes
        self.tasks, self.results, self.errors = [], {}, {}
        self.ran = False
        OrderedPool.log = self

    def apply_async(self, fn, args=(), kwds=None):
        self.tasks.append((fn, args, kwds or {}))
        return _Handle(self, len(self.tasks) - 1)

    def run_all(self):
        if self.ran:
            return
        self.ran = True
        assert sorted(self.order) == list(range(len(self.tasks))), \
            'harness: order %r for %d tasks' % (self.order, len(self.tasks))
        for k in self.order:
            fn, args, kwds = self.tasks[k]
            try:
                self.results[k] = fn(*args, **kwds)
            except (KeyboardInterrupt, Hang):
                raise
            except BaseException as e:
                self.errors[k] = e

    def terminate(self):
        pass

    close = join = terminate


def _tp_dirs(bdir, ntp, inputs):
    """per-time-point output of a run: {tp: files}, plus the unexpected rest"""
    if ntp == 1:
        return {0: collect(bdir, bdir, skip=inputs)}, []
    out = {}
    rest = []
    for name in sorted(os.listdir(bdir)):
        p = os.path.join(bdir, name)
        m = re.match(r'^timestep_(\d+)$', name)
        if os.path.isdir(p) and m and 1 <= int(m.group(1)) <= ntp:
            out[int(m.group(1)) - 1] = collect(p, bdir)
        elif name not in inputs and name != 'dassh.log':
            rest.append(name + ('/' if os.path.isdir(p) else ''))
    return out, rest


def _input_files(bdir):
    return sorted(os.listdir(bdir))


def _single_child(family, tp):
    """time point tp ONE AT A TIME: single-time-point input, fresh interpreter"""
    import dassh.__main__ as M
    with build(scenario(family, 1, first_tp=tp)) as b:
        inputs = _input_files(b.dir)
        inp = b.inp()
        M.run_dassh(inp, dict(RX_ARGS))
        return collect(b.dir, b.dir, skip=inputs)


def _schedule_child(c):
    """serial loop or in-process pool in the given order, real run_dassh"""
    import multiprocessing
    import dassh.__main__ as M
    mode = c['mode']
    scn = scenario(c['family'], c['ntp'],
                   parallel=True if mode == 'inproc' else None)
    out = {'done': [], 'fail': None, 'pool_used': False}
    with build(scn) as b:
        inputs = _input_files(b.dir)
        inp = b.inp()
        orig = M._run_dassh

        def recorded(dassh_inp, args, timestep, wdir, link=None):
            res = orig(dassh_inp, args, timestep, wdir, link)
            out['done'].append(timestep)
            return res
        M._run_dassh = recorded
        if mode == 'inproc':
            multiprocessing.Pool = lambda processes=None: OrderedPool(c['order'], processes)
        try:
            M.run_dassh(inp, dict(RX_ARGS))
        except (KeyboardInterrupt, Hang):
            raise
        except BaseException as e:
            out['fail'] = (type(e).__name__, str(e)[:200], site_of(e))
        out['pool_used'] = OrderedPool.log is not None
        out['dirs'], out['rest'] = _tp_dirs(b.dir, c['ntp'], inputs)
    return out


_FRAME = re.compile(r'File "[^"]*/dassh/(\w+\.py)", line \d+, in (\w+)')


def _stderr_site(err):
    """exception@innermost dassh frame from the text of a traceback (worker
    traceback first when the pool re-raised it)"""
    txt = err
    if 'RemoteTraceback' in err:
        txt = err.split('RemoteTraceback', 1)[1].split('"""', 2)[1]
    fr = [m for m in _FRAME.findall(txt) if m[0] != '__main__.py'] or _FRAME.findall(txt)
    lines = [ln for ln in txt.strip().split('\n') if ln.strip()]
    exc = 'Error'
    for ln in reversed(lines):
        m = re.match(r'^(\w+(\.\w+)*)(:|$)', ln.strip())
        if m and not ln.startswith(' '):
            exc = m.group(1).split('.')[-1]
            break
    msg = lines[-1].strip() if lines else ''
    if msg.startswith(exc + ': '):
        msg = msg[len(exc) + 2:]
    msg = msg[:200]
    loc = '%s:%s' % fr[-1] if fr else '?'
    return exc, msg, '%s@%s' % (exc, loc)


def _spawn(bdir, budget=CHILD_BUDGET):
    """python -m dassh <input> in a fresh process"""
    env = dict(os.environ)
    env['PYTHONPATH'] = REPO
    env['PYTHONHASHSEED'] = '0'
    env['OPENBLAS_NUM_THREADS'] = '1'
    env['OMP_NUM_THREADS'] = '1'
    try:
        p = subprocess.run([PY, '-m', 'dassh', os.path.join(bdir, 'input.txt')],
                           cwd=bdir, env=env, capture_output=True, timeout=budget)
    except subprocess.TimeoutExpired:
        return ('Hang', 'no result within %ss' % budget, 'Hang')
    if p.returncode != 0:
        return _stderr_site(p.stderr.decode('utf-8', 'replace'))
    return None


def _process_run(c):
    """real Pool (or serial) through `python -m dassh`; runs in the worker,
    the dassh code in the subprocess"""
    par = c['mode'] == 'pool'
    scn = scenario(c['family'], c['ntp'], parallel=True if par else None,
                   n_cpu=c.get('workers') if par else None)
    out = {'done': None, 'fail': None}
    with build(scn) as b:
        inputs = _input_files(b.dir)
        out['fail'] = _spawn(b.dir)
        out['dirs'], out['rest'] = _tp_dirs(b.dir, c['ntp'], inputs)
    return out


QUICK_POOL = [(1, 2), (2, 2), (3, 1), (3, 3), (4, 2), (4, 4)]


def _rerun_child(c):
    """run_dassh several times in ONE interpreter on the same parsed input and
    the same directory; -> file sets after every execution"""
    import dassh.__main__ as M
    out = {'snaps': [], 'fail': None}
    with build(scenario(c['family'], c['ntp'])) as b:
        inputs = _input_files(b.dir)
        inp = b.inp()
        for k in range(c['executions']):
            try:
                M.run_dassh(inp, dict(RX_ARGS))
            except (KeyboardInterrupt, Hang):
                raise
            except BaseException as e:
                out['fail'] = (k, type(e).__name__, str(e)[:200], site_of(e))
                break
            out['snaps'].append(collect(b.dir, b.dir, skip=inputs))
    return out


def _rerun_processes(c):
    """python -m dassh <input> several times in the SAME directory, a fresh
    process each; -> file sets after every execution"""
    out = {'snaps': [], 'fail': None}
    with build(scenario(c['family'], c['ntp'])) as b:
        inputs = _input_files(b.dir)
        for k in range(c['executions']):
            f = _spawn(b.dir)
            if f:
                out['fail'] = (k,) + tuple(f)
                break
            out['snaps'].append(collect(b.dir, b.dir, skip=inputs))
    return out


def _run_rerun(c, r, desc, ex):
    if c['mode'] == 'rerun':
        out = _rerun_processes(c)
    else:
        out = _unwrap(in_child(_rerun_child, c), c, r, desc + ' (harness level)',
                      'unexpected-exception')
        if out is None:
            r['outcome'] = 'EXC'
            return r
    ntp = c['ntp']
    r['transitions'] += ntp * len(out['snaps'])
    if out['fail']:
        k, et, msg, site = out['fail']
        r['violations'].append(violation(
            'hang' if et == 'Hang' else 'run-failed', dict(c, execution=k + 1),
            '%s: execution %d stopped with %s: %s' % (desc, k + 1, et, msg), et,
            'every execution completes', None, site))
    snaps = out['snaps']
    if snaps:
        want = ['timestep_%d/dassh.out' % (t + 1) for t in range(ntp)] if ntp > 1 \
            else ['dassh.out']
        miss = [w for w in want if w not in snaps[0]]
        if miss:
            r['violations'].append(violation(
                'directory-missing', c, '%s: first execution left no %s' % (desc, miss),
                sorted(snaps[0])[:8], want, None, 'timestep-dir'))
        ex['rerun_files'] = {os.path.basename(k): 1 for k, v in snaps[0].items() if v}
        ex['rerun_rows'] = sum(v.count(b'\n') for k, v in snaps[0].items()
                               if k.endswith('.csv'))
    for k in range(1, len(snaps)):
        r['states'] += len(snaps[k])
        fd = file_diff(snaps[0], snaps[k])
        if fd:
            name = fd[0].split(' line')[0]
            extra = ''
            if name in snaps[0] and name in snaps[k]:
                extra = ' (%d bytes after execution 1, %d after execution %d)' % (
                    len(snaps[0][name]), len(snaps[k][name]), k + 1)
            r['violations'].append(violation(
                'rerun-files-differ', dict(c, execution=k + 1),
                '%s: files after execution %d differ from those after execution 1: %s%s'
                % (desc, k + 1, fd[0], extra), fd[2], fd[1], None,
                'file:' + os.path.basename(name)))
            break
    r['traces'] = len(snaps)
    r['outcome'] = 'ok' if not r['violations'] else \
        'violated:' + '+'.join(sorted({v['kind'] for v in r['violations']}))
    r['info'] = {'files': sorted(snaps[0]) if snaps else [],
                 'kinds': sorted({v['kind'] + '@' + str(v['site']) for v in r['violations']})}
    return r


def cases_schedules(tier):
    """family x 1..4 time points x {serial, every in-process task order, real
    Pool with n_cpu 1..4}; quick: the full worker grid for the first family,
    the six (time points, n_cpu) pairs QUICK_POOL for the others.  The slow
    subprocess cases come first (load balance only)."""
    slow, fast = [], []
    for fam in SCHEDULE_FAMILIES:
        for n in (1, 2, 3, 4):
            fast.append({'part': 'schedules', 'family': fam, 'ntp': n, 'mode': 'serial',
                         'workers': 0, 'orderstr': '-'})
            for order in itertools.permutations(range(n)):
                fast.append({'part': 'schedules', 'family': fam, 'ntp': n, 'mode': 'inproc',
                             'workers': 0, 'order': list(order),
                             'orderstr': ''.join(str(k) for k in order)})
            for w in (1, 2, 3, 4):
                if n == 1 and w != 2:
                    continue        # parallel is ignored for one time point
                if tier == 'quick' and fam != FAMILIES[0] and (n, w) not in QUICK_POOL:
                    continue
                slow.append({'part': 'schedules', 'family': fam, 'ntp': n, 'mode': 'pool',
                             'workers': w, 'orderstr': '-'})
    for fam in SCHEDULE_FAMILIES:
        slow.append({'part': 'schedules', 'family': fam, 'ntp': 1, 'mode': 'fresh2',
                     'workers': 0, 'orderstr': '-'})
    slow.append({'part': 'schedules', 'family': 'tables', 'ntp': 2, 'mode': 'fresh2',
                 'workers': 0, 'orderstr': '-'})
    nex = 2 if tier == 'quick' else 3
    for fam in SCHEDULE_FAMILIES:
        for n in (1, 2):
            slow.append({'part': 'schedules', 'family': fam, 'ntp': n, 'mode': 'rerun',
                         'workers': 0, 'orderstr': '-', 'executions': nex})
            fast.append({'part': 'schedules', 'family': fam, 'ntp': n, 'mode': 'rerun-inproc',
                         'workers': 0, 'orderstr': '-', 'executions': nex})
    return slow + fast


def run_schedule(c):
    r = new_result()
    fam, ntp, mode = c['family'], c['ntp'], c['mode']
    desc = '%s input, %d time point(s), %s' % (fam, ntp, {
        'serial': 'serial loop', 'fresh2': 'two fresh processes',
        'rerun': '%s executions of python -m dassh in the same directory'
                 % c.get('executions'),
        'rerun-inproc': '%s calls of run_dassh on one parsed input in one interpreter, '
                        'same directory' % c.get('executions'),
        'inproc': 'in-process pool, task order %s' % c.get('orderstr'),
        'pool': 'multiprocessing.Pool with n_cpu = %s' % c.get('workers')}[mode])
    r['key'] = '%s:%d:%s:%s:%s' % (fam, ntp, mode, c.get('workers'), c.get('orderstr'))
    r['nontrivial'] = True
    ex = {'schedule_mode': {mode: 1}}
    r['extra'] = ex
    with CaseDir():
        if mode in ('rerun', 'rerun-inproc'):
            return _run_rerun(c, r, desc, ex)
        if mode == 'fresh2':
            a = _process_run(dict(c, mode='process'))
            b = _process_run(dict(c, mode='process'))
            r['transitions'] += 2 * ntp      # two processes x ntp time points
            for o in (a, b):
                if o['fail']:
                    r['violations'].append(violation(
                        'run-failed', c, '%s: python -m dassh failed with %s: %s'
                        % (desc, o['fail'][0], o['fail'][1]), o['fail'][0], 'completes',
                        None, o['fail'][2]))
                    break
            else:
                for tp in range(ntp):
                    r['states'] += 1
                    fd = file_diff(a['dirs'].get(tp, {}), b['dirs'].get(tp, {}))
                    if fd:
                        r['violations'].append(violation(
                            'files-differ', dict(c, tp=tp), '%s: outputs of time point %d '
                            'differ between the two processes: %s' % (desc, tp + 1, fd[0]),
                            fd[2], fd[1], None, 'file:' + fd[0].split(' line')[0]))
                ex['dump_files_compared'] = sum(
                    1 for tp in a['dirs'] for k in a['dirs'][tp] if k.endswith('.csv'))
            r['traces'] = 2
            r['outcome'] = 'ok' if not r['violations'] else 'violated'
            r['info'] = {'files': sorted(a['dirs'].get(0, {}))}
            return r
        # --- reference: every time point one at a time
        refs = {}
        for tp in range(ntp):
            v = _unwrap(reference('B', fam, tp), dict(c, tp=tp), r,
                        '%s: time point %d run one at a time (single-time-point input, '
                        'fresh process)' % (fam, tp + 1))
            if v is None:
                r['outcome'] = 'reference-failed'
                return r
            refs[tp] = v
        if mode == 'pool':
            out = _process_run(c)
        else:
            res = in_child(_schedule_child, c)
            out = _unwrap(res, c, r, desc + ' (harness level)', 'unexpected-exception')
            if out is None:
                r['outcome'] = 'EXC'
                return r
    r['transitions'] += ntp if out['done'] is None else len(out['done'])
    if mode == 'inproc':
        ex['pool_replaced_and_used'] = 1 if out['pool_used'] else 0
    failed = out['fail'] is not None
    if failed:
        k = 'hang' if out['fail'][0] == 'Hang' else 'run-failed'
        done = out['done']
        r['violations'].append(violation(
            k, c, '%s: run_dassh stopped with %s: %s%s'
            % (desc, out['fail'][0], out['fail'][1],
               '' if done is None else ' (time points completed before: %s)'
               % [t + 1 for t in done]),
            out['fail'][0], 'all %d time points complete' % ntp, None, out['fail'][2]))
    # time points known (or, for the real pool, found) to be complete
    complete = range(ntp) if not failed else (out['done'] if out['done'] is not None else [])
    for tp in range(ntp):
        if tp not in out['dirs']:
            if not failed:
                r['violations'].append(violation(
                    'directory-missing', dict(c, tp=tp), '%s: no output directory for time '
                    'point %d' % (desc, tp + 1), sorted(out['dirs']), 'timestep_%d' % (tp + 1),
                    None, 'timestep-dir'))
            continue
        if tp not in complete:
            continue
        r['states'] += 1
        fd = file_diff(refs[tp], out['dirs'][tp])
        if fd:
            r['violations'].append(violation(
                'files-differ', dict(c, tp=tp), '%s: output of time point %d differs from the '
                'same time point run one at a time: %s' % (desc, tp + 1, fd[0]),
                fd[2], fd[1], None, 'file:' + fd[0].split(' line')[0]))
    if out['rest'] and not failed:
        r['violations'].append(violation(
            'directory-unexpected', c, '%s: output outside the per-time-point directories: %s'
            % (desc, out['rest'][:6]), out['rest'][:6], [], None, 'timestep-dir'))
    r['traces'] = 1
    r['outcome'] = 'ok' if not r['violations'] else \
        'violated:' + '+'.join(sorted({v['kind'] for v in r['violations']}))
    r['info'] = {'files_per_time_point': len(refs[0]),
                 'kinds': sorted({v['kind'] + '@' + str(v['site']) for v in r['violations']})}
    return r


# ======================================================================
def run_case(c):
    return run_schedule(c) if c.get('part') == 'schedules' else run_sequence(c)


def main(run):
    depth = 3 if run.tier == 'quick' else 4
    run.rule = (
        'sequences: %d input families (each with two time points) x every operation sequence '
        'of exactly depth %d over {c0, c1, clone, sweep, post} (sweep enabled for an unswept '
        'last reactor, post for a swept one; shorter histories are the prefixes, the oracle '
        'runs after every operation), ordered by the number of departures from the default '
        'history c0 > sweep > post; the family orif ([Orificing] section) has the alphabet '
        'extended by the orificing steps {oparam, operf, oorif} (always enabled) and runs every '
        'sequence with at least one of them; schedules: the six families without [Orificing] '
        'x 1..4 time points x {serial loop, '
        'every task order of the in-process pool (1+2+6+24), real Pool with n_cpu 1..4 via '
        'python -m dassh} + two-fresh-processes runs + repeated executions in the same '
        'directory (fresh processes / one interpreter; 1 and 2 time points); a case is non-trivial when the real '
        'code executed it and its outputs were compared with a reference produced from a '
        'fresh input in a fresh process; distinct = (family, history) resp. (family, time '
        'points, mode, workers, order)' % (len(FAMILIES), depth))
    run.assumptions = [
        'NOT enumerated: the OS scheduling of the real worker processes of multiprocessing.Pool '
        '(they share only the file system and write to distinct directories); the in-process '
        'all-orders pool is a stronger sharing model (shared input object and interpreter) '
        'but not the same one',
        'the reference of a time point is the same code run on a freshly parsed input in a '
        'freshly forked process (for schedules: a single-time-point input with that power file)',
        'only the `Executed <timestamp>` line of dassh.out is masked; dassh.log (time stamps) '
        'is not an output of the time point and is not compared',
        'run-time scratch of the dump writer inside Reactor._options["dump"] (dz, names, paths, '
        'cols, files) is left out of the model comparison; as keys of the INPUT they are reported',
        'multiprocessing.Pool is replaced only for mode inproc, by assignment to the '
        'multiprocessing module attribute that run_dassh looks up (import multiprocessing as mp; '
        'mp.Pool); _run_dassh is wrapped by a recorder (observation only) for serial / inproc']
    cs = cases_sequences(run.tier)
    run.check_determinism(run_case, cs[0])
    res_a = run.explore('sequences', cs, run_case, budget_s=300, chunksize=2)
    cb = cases_schedules(run.tier)
    res_b = run.explore('schedules', cb, run_case, budget_s=300, chunksize=1)
    # ---- vacuity
    states = run.extra.get('input_state', {})
    parsed = {k for k in states if ':parsed:' in k}

    def vac(part, what, sc):
        run.violations.append(dict(violation('vacuous-alphabet', sc, what), part=part))
    if not run.extra.get('constructions', {}).get('after-orificing-step'):
        vac('sequences', 'no construction from the base input after an orificing step', {})
    if len(parsed) != len(FAMILIES):
        vac('sequences', 'expected %d distinct input snapshots (one per family), found %d'
            % (len(FAMILIES), len(parsed)), {'snapshots': sorted(parsed)})
    for op in OPS + ORIF_OPS:
        if not run.extra.get('ops', {}).get(op):
            vac('sequences', 'operation %s never executed' % op, {'op': op})
    if not run.extra.get('constructions', {}).get('from-used-input'):
        vac('sequences', 'no successful construction from an already used input', {})
    modes = run.extra.get('schedule_mode', {})
    for m in ('serial', 'inproc', 'pool', 'fresh2', 'rerun', 'rerun-inproc'):
        if not modes.get(m):
            vac('schedules', 'schedule mode %s never ran' % m, {'mode': m})
    n_orders = sum(1 for c in cb if c['mode'] == 'inproc' and c['ntp'] > 1)
    if run.extra.get('pool_replaced_and_used', 0) != n_orders:
        vac('schedules', 'the in-process pool was used in %s of %d multi-time-point orders'
            % (run.extra.get('pool_replaced_and_used', 0), n_orders), {})
    if not run.extra.get('dump_files_compared'):
        vac('schedules', 'no dump file was compared between two fresh processes', {})
    for f in DUMP_FILES:
        if not run.extra.get('rerun_files', {}).get(f):
            vac('schedules', 'dump file %s never written (non-empty) and compared in a rerun' % f,
                {'file': f})
    run.notes['distinct_input_states'] = len(states)
    run.notes['sequences'] = len(cs)
    run.notes['histories_checked_incl_prefixes'] = len(
        {(c['family'], tuple(c['ops'][:k])) for c in cs for k in range(1, len(c['ops']) + 1)})
    run.notes['task_orders_per_family'] = sum(
        1 for c in cb if c['mode'] == 'inproc' and c['family'] == FAMILIES[0])
    run.notes['schedule_cases'] = len(cb)


def replay(body):
    c = body['scenario']
    r = guarded(run_case, c, 900)
    for v in r['violations']:
        print('VIOLATION property=C16 replay=(inline) kind=%s site=%s %s'
              % (v['kind'], v.get('site'), v['what']))
        if v.get('observed') is not None or v.get('expected') is not None:
            print('  observed=%s expected=%s' % (str(v.get('observed'))[:300],
                                                 str(v.get('expected'))[:300]))
    print('outcome', r['outcome'], r.get('info'))
    return 1 if r['violations'] else 0
